//go:build verif

package jitterbuffer

import (
	"bytes"
	"encoding/binary"
	"encoding/json"
	"errors"
	"testing"

	"github.com/pion/interceptor"
	"github.com/pion/rtp"
)

// Script executed against the real code; every step is logged as one trace event (see spec/Trace_JitterBuffer.tla).
// Level "pq": PriorityQueue, "jb": JitterBuffer, "icpt": ReceiverInterceptor through BindRemoteStream.
type vfJBStep struct {
	A  string `json:"a"`
	N  uint16 `json:"n"`
	Ts uint32 `json:"ts"` // timestamp offset; the packet carries TsBase + Ts (mod 2^32)
	B  bool   `json:"b"`
	K  int    `json:"k"` // qbulk: number of packets pushed (priorities n, n-1, ... - each lands at the head of the list)
}

type vfJBScript struct {
	Level  string     `json:"level"`
	Min    uint16     `json:"min"`
	TsBase uint32     `json:"tsbase"`
	Steps  []vfJBStep `json:"steps"`
}

type vfJBOrig struct {
	seq     uint16
	ts      uint32
	payload []byte
}

// vfJBTrack gives every pushed packet object an identity, observable by pointer (and repeated in the payload).
type vfJBTrack struct {
	ids  map[*rtp.Packet]int
	orig map[int]vfJBOrig
	next int
	base uint32
}

func vfNewTrack(base uint32) *vfJBTrack {
	return &vfJBTrack{ids: map[*rtp.Packet]int{}, orig: map[int]vfJBOrig{}, base: base}
}

func (tr *vfJBTrack) packet(n uint16, ts uint32) (*rtp.Packet, int) {
	tr.next++
	id := tr.next
	pl := make([]byte, 8)
	binary.BigEndian.PutUint32(pl, uint32(id)) //nolint:gosec
	copy(pl[4:], []byte{0xde, 0xad, 0xbe, 0xef})
	pkt := &rtp.Packet{Header: rtp.Header{Version: 2, SequenceNumber: n, Timestamp: tr.base + ts, SSRC: 0x1234}, Payload: pl}
	tr.ids[pkt] = id
	tr.orig[id] = vfJBOrig{seq: n, ts: tr.base + ts, payload: append([]byte(nil), pl...)}

	return pkt, id
}

func vfErrClass(err error) string {
	switch {
	case err == nil:
		return ""
	case errors.Is(err, ErrPopWhileBuffering):
		return "buffering"
	case errors.Is(err, ErrBufferUnderrun):
		return "underrun"
	case errors.Is(err, ErrInvalidOperation):
		return "invalid"
	case errors.Is(err, ErrNotFound):
		return "notfound"
	}

	return "other: " + err.Error()
}

// result classifies what a pop/peek/find returned: the identity of the returned object and its integrity.
func (tr *vfJBTrack) result(ev vfM, pkt *rtp.Packet, err error) {
	ev["err"] = vfErrClass(err)
	if pkt == nil {
		ev["res"] = 0
		ev["ok"] = true

		return
	}
	id, known := tr.ids[pkt]
	if !known {
		ev["res"] = -2
		ev["ok"] = false

		return
	}
	o := tr.orig[id]
	ev["res"] = id
	ev["ok"] = err == nil && pkt.SequenceNumber == o.seq && pkt.Timestamp == o.ts && bytes.Equal(pkt.Payload, o.payload)
}

// vfReach counts the list nodes reachable from the queue head (-1: the list is cyclic).
func vfReach(q *PriorityQueue) int {
	n := 0
	for p := q.next; p != nil; p = p.next {
		n++
		if n > 1<<17 {
			return -1
		}
	}

	return n
}

// vfPrevOK walks the list from the head and checks the prev pointers: head.prev == nil, n.next.prev == n.
func vfPrevOK(q *PriorityQueue) bool {
	if q.next == nil {
		return true
	}
	if q.next.prev != nil {
		return false
	}
	n := 0
	for p := q.next; p.next != nil; p = p.next {
		if p.next.prev != p {
			return false
		}
		n++
		if n > 1<<17 {
			return false
		}
	}

	return true
}

var errVfJBInjected error = vfInjErr{"injected read failure"} //nolint:gochecknoglobals

func vfJBEvent(st vfJBStep) vfM {
	return vfM{
		"a": st.A, "n": st.N, "ts": st.Ts, "b": st.B, "id": 0, "res": 0, "err": "", "ok": true,
		"head": 0, "len": 0, "reach": 0, "prevok": true, "ev": []string{}, "cnt": 0, "size": 0,
	}
}

func TestVerifJBExec(t *testing.T) {
	in := vfLoad(t)
	out := vfOut(t)
	defer out.Close()
	for _, raw := range in {
		var sc vfJBScript
		if err := json.Unmarshal(raw, &sc); err != nil {
			t.Fatalf("VERIF-INFRA bad script: %v", err)
		}
		switch sc.Level {
		case "pq":
			vfRunPQ(t, &sc, out)
		case "jb":
			vfRunJB(t, &sc, out)
		case "icpt":
			vfRunJBIcpt(t, &sc, out)
		default:
			t.Fatalf("VERIF-INFRA unknown level %q", sc.Level)
		}
	}
}

func vfRunPQ(t *testing.T, sc *vfJBScript, out *vfWriter) {
	t.Helper()
	out.Emit(vfM{"a": "reset", "level": "pq", "min": sc.Min})
	tr := vfNewTrack(sc.TsBase)
	queue := NewQueue()
	for _, st := range sc.Steps {
		ev := vfJBEvent(st)
		switch st.A {
		case "qpush":
			pkt, id := tr.packet(st.N, st.Ts)
			queue.Push(pkt, st.N)
			ev["id"] = id
		case "qbulk": // one event for k pushes in descending priority order (a consumer that has stalled for a long time)
			for i := 0; i < st.K; i++ {
				pkt, id := tr.packet(st.N-uint16(i), st.Ts) //nolint:gosec // wraps as the priorities do
				queue.Push(pkt, st.N-uint16(i))             //nolint:gosec
				if i == 0 {
					ev["id"] = id
				}
			}
			ev["k"] = st.K
		case "qpop":
			pkt, err := queue.Pop()
			tr.result(ev, pkt, err)
		case "qpopat":
			pkt, err := queue.PopAt(st.N)
			tr.result(ev, pkt, err)
		case "qpopts":
			pkt, err := queue.PopAtTimestamp(sc.TsBase + st.Ts)
			tr.result(ev, pkt, err)
		case "qfind":
			pkt, err := queue.Find(st.N)
			tr.result(ev, pkt, err)
		case "qclear":
			queue.Clear()
		default:
			t.Fatalf("VERIF-INFRA unknown pq action %q", st.A)
		}
		ev["len"] = queue.Length()
		reach := vfReach(queue)
		ev["reach"] = reach
		ev["prevok"] = vfPrevOK(queue)
		out.Emit(ev)
		if reach < 0 {
			return // cyclic list: any further traversal may not terminate; the event above is the evidence
		}
	}
}

func vfRunJB(t *testing.T, sc *vfJBScript, out *vfWriter) {
	t.Helper()
	out.Emit(vfM{"a": "reset", "level": "jb", "min": sc.Min})
	tr := vfNewTrack(sc.TsBase)
	jb := New(WithMinimumPacketCount(sc.Min))
	fired := []string{}
	for _, name := range []Event{StartBuffering, BeginPlayback, BufferUnderflow, BufferOverflow} {
		jb.Listen(name, func(event Event, _ *JitterBuffer) { fired = append(fired, string(event)) })
	}
	for _, st := range sc.Steps {
		ev := vfJBEvent(st)
		fired = []string{}
		switch st.A {
		case "push":
			pkt, id := tr.packet(st.N, st.Ts)
			jb.Push(pkt)
			ev["id"] = id
		case "pop":
			pkt, err := jb.Pop()
			tr.result(ev, pkt, err)
		case "popseq":
			pkt, err := jb.PopAtSequence(st.N)
			tr.result(ev, pkt, err)
		case "popts":
			pkt, err := jb.PopAtTimestamp(sc.TsBase + st.Ts)
			tr.result(ev, pkt, err)
		case "peek":
			pkt, err := jb.Peek(st.B)
			tr.result(ev, pkt, err)
		case "peekseq":
			pkt, err := jb.PeekAtSequence(st.N)
			tr.result(ev, pkt, err)
		case "sethead":
			jb.SetPlayoutHead(st.N)
		case "clear":
			jb.Clear(st.B)
		default:
			t.Fatalf("VERIF-INFRA unknown jb action %q", st.A)
		}
		ev["ev"] = fired
		ev["head"] = jb.PlayoutHead()
		ev["len"] = jb.packets.Length()
		reach := vfReach(jb.packets)
		ev["reach"] = reach
		ev["prevok"] = vfPrevOK(jb.packets)
		out.Emit(ev)
		if reach < 0 {
			return
		}
	}
}

func vfRunJBIcpt(t *testing.T, sc *vfJBScript, out *vfWriter) {
	t.Helper()
	factory, err := NewInterceptor()
	if err != nil {
		t.Fatalf("VERIF-INFRA factory: %v", err)
	}
	ic, err := factory.NewInterceptor("")
	if err != nil {
		t.Fatalf("VERIF-INFRA NewInterceptor: %v", err)
	}
	ri, isRI := ic.(*ReceiverInterceptor)
	if !isRI {
		t.Fatalf("VERIF-INFRA unexpected interceptor type %T", ic)
	}
	out.Emit(vfM{"a": "reset", "level": "icpt", "min": ri.buffer.minStartCount})
	info := &interceptor.StreamInfo{SSRC: 0x1234, ClockRate: 90000}
	var next []byte
	failRead := false
	reader := ic.BindRemoteStream(info, interceptor.RTPReaderFunc(
		func(b []byte, a interceptor.Attributes) (int, interceptor.Attributes, error) {
			if failRead {
				return copy(b, next), a, errVfJBInjected // (the bytes are there all the same)
			}

			return copy(b, next), a, nil
		}))
	sent := map[int][]byte{}
	nid := 0
	for _, st := range sc.Steps {
		ev := vfJBEvent(st)
		switch st.A {
		case "readfail": // the wrapped reader fails: the error is passed up and nothing is buffered (no event: the NEXT one shows)
			fp := rtp.Packet{Header: rtp.Header{Version: 2, SequenceNumber: st.N, Timestamp: sc.TsBase + st.Ts, SSRC: 0x1234},
				Payload: []byte{0, 0, 0, 0, 1, 2, 3, 4}}
			next, _ = fp.Marshal()
			failRead = true
			_, _, rerr := reader.Read(make([]byte, len(next)), interceptor.Attributes{})
			failRead = false
			if !errors.Is(rerr, errVfJBInjected) {
				t.Fatalf("VERIF-INFRA the failure of the wrapped reader was not passed up: %v", rerr)
			}

			continue
		case "read":
			nid++
			pl := make([]byte, 8)
			binary.BigEndian.PutUint32(pl, uint32(nid)) //nolint:gosec
			copy(pl[4:], []byte{0xde, 0xad, 0xbe, 0xef})
			pkt := rtp.Packet{
				Header:  rtp.Header{Version: 2, SequenceNumber: st.N, Timestamp: sc.TsBase + st.Ts, SSRC: 0x1234},
				Payload: pl,
			}
			raw, merr := pkt.Marshal()
			if merr != nil {
				t.Fatalf("VERIF-INFRA marshal: %v", merr)
			}
			sent[nid] = raw
			next = raw
			ev["id"] = nid
			ev["size"] = len(raw)
			// the caller's buffer has exactly the packet size (all packets of a script have one size): the
			// interceptor parsing its whole scratch buffer instead of buf[:n] belongs to C02, not to this check
			buf := make([]byte, len(raw))
			cnt, _, rerr := reader.Read(buf, interceptor.Attributes{})
			ev["cnt"] = cnt
			ev["err"] = vfErrClass(rerr)
			if rerr == nil {
				got := &rtp.Packet{}
				if cnt > len(buf) || got.Unmarshal(buf[:cnt]) != nil || len(got.Payload) < 4 {
					ev["res"] = -2
					ev["ok"] = false
				} else {
					id := int(binary.BigEndian.Uint32(got.Payload))
					ev["res"] = id
					ev["ok"] = bytes.Equal(buf[:cnt], sent[id])
				}
			}
		case "unbind":
			unb := *info // an equal description at another address
			ic.UnbindRemoteStream(&unb)
		default:
			t.Fatalf("VERIF-INFRA unknown icpt action %q", st.A)
		}
		ev["head"] = ri.buffer.PlayoutHead()
		ev["len"] = ri.buffer.packets.Length()
		reach := vfReach(ri.buffer.packets)
		ev["reach"] = reach
		ev["prevok"] = vfPrevOK(ri.buffer.packets)
		out.Emit(ev)
		if reach < 0 {
			return
		}
	}
	if err := ic.Close(); err != nil {
		t.Fatalf("VERIF-INFRA close: %v", err)
	}
}

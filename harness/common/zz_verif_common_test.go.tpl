//go:build verif

// Shared helpers for the injected verification harnesses (compiled into the package under test
// through `go test -overlay`; the package clause is substituted by lib/vlib.py).
package PKGNAME

import (
	"bufio"
	"encoding/json"
	"os"
	"testing"
)

// vfLoad reads the ndjson file named by VERIF_IN (one JSON value per line).
func vfLoad(tb testing.TB) []json.RawMessage {
	tb.Helper()
	path := os.Getenv("VERIF_IN")
	if path == "" {
		tb.Skip("VERIF_IN not set")
	}
	f, err := os.Open(path)
	if err != nil {
		tb.Fatalf("VERIF-INFRA open input: %v", err)
	}
	defer f.Close()
	var res []json.RawMessage
	sc := bufio.NewScanner(f)
	sc.Buffer(make([]byte, 1<<20), 1<<30)
	for sc.Scan() {
		b := append([]byte(nil), sc.Bytes()...)
		if len(b) > 0 {
			res = append(res, b)
		}
	}
	if err := sc.Err(); err != nil {
		tb.Fatalf("VERIF-INFRA read input: %v", err)
	}

	return res
}

type vfWriter struct {
	f *os.File
	w *bufio.Writer
	n int
}

// vfOut opens the ndjson trace file named by VERIF_OUT.
func vfOut(tb testing.TB) *vfWriter {
	tb.Helper()
	path := os.Getenv("VERIF_OUT")
	if path == "" {
		tb.Skip("VERIF_OUT not set")
	}
	f, err := os.Create(path)
	if err != nil {
		tb.Fatalf("VERIF-INFRA create output: %v", err)
	}

	return &vfWriter{f: f, w: bufio.NewWriterSize(f, 1<<20)}
}

// Emit appends one event.
func (o *vfWriter) Emit(v any) {
	b, err := json.Marshal(v)
	if err != nil {
		panic(err)
	}
	if m, ok := v.(map[string]any); ok && m["a"] == "reset" {
		o.w.Flush() //nolint:errcheck // a crash while executing a script leaves every earlier trace on disk
	}
	o.w.Write(b)      //nolint:errcheck
	o.w.WriteByte(10) //nolint:errcheck
	o.n++
}

// Close flushes the trace.
func (o *vfWriter) Close() {
	o.w.Flush() //nolint:errcheck
	o.f.Close() //nolint:errcheck
}

type vfM = map[string]any

//go:build verif

// Shared helpers for the injected verification harnesses (compiled into the package under test
// through `go test -overlay`; the package clause is substituted by lib/vlib.py).
package PKGNAME

import (
	"bufio"
	"context"
	"io"
	"net"
	"encoding/json"
	"os"
	"testing"
)

// vfLoad reads the ndjson file named by VERIF_IN (one JSON value per line).
func vfLoad(tb testing.TB) []json.RawMessage {
	tb.Helper()
	path := os.Getenv("VERIF_IN")
	if path == "" {
		tb.Skip("VERIF_IN not set")
	}
	f, err := os.Open(path)
	if err != nil {
		tb.Fatalf("VERIF-INFRA open input: %v", err)
	}
	defer f.Close()
	var res []json.RawMessage
	sc := bufio.NewScanner(f)
	sc.Buffer(make([]byte, 1<<20), 1<<30)
	for sc.Scan() {
		b := append([]byte(nil), sc.Bytes()...)
		if len(b) > 0 {
			res = append(res, b)
		}
	}
	if err := sc.Err(); err != nil {
		tb.Fatalf("VERIF-INFRA read input: %v", err)
	}

	return res
}

type vfWriter struct {
	f   *os.File
	w   *bufio.Writer
	n   int
	own *vfWriter // side trace (VERIF_OUT + ".own"): objects handed out by the code under test, re-inspected later
}

// vfOut opens the ndjson trace file named by VERIF_OUT.
func vfOut(tb testing.TB) *vfWriter {
	tb.Helper()
	path := os.Getenv("VERIF_OUT")
	if path == "" {
		tb.Skip("VERIF_OUT not set")
	}
	f, err := os.Create(path)
	if err != nil {
		tb.Fatalf("VERIF-INFRA create output: %v", err)
	}

	return &vfWriter{f: f, w: bufio.NewWriterSize(f, 1<<20)}
}

// Emit appends one event.
func (o *vfWriter) Emit(v any) {
	b, err := json.Marshal(v)
	if err != nil {
		panic(err)
	}
	if m, ok := v.(map[string]any); ok && m["a"] == "reset" {
		o.w.Flush() //nolint:errcheck // a crash while executing a script leaves every earlier trace on disk
	}
	o.w.Write(b)      //nolint:errcheck
	o.w.WriteByte(10) //nolint:errcheck
	o.n++
}

// Close flushes the trace.
func (o *vfWriter) Close() {
	if o.own != nil {
		o.own.Close()
	}
	o.w.Flush() //nolint:errcheck
	o.f.Close() //nolint:errcheck
}

// vfKept remembers objects the code under test handed out (a report, a feedback packet, a NACK) together with their
// rendering at that moment; Flush renders each of them again at the end of the script.  Both renderings go to the side
// trace validated by spec/Trace_Handout.tla: what has been handed out belongs to the consumer and must not change when
// the producer goes on working (a reused scratch buffer, a recycled packet object).
type vfKept struct {
	out   *vfWriter
	items []vfKeptItem
}

type vfKeptItem struct {
	snap   json.RawMessage
	render func() any
}

// NewKept starts the hand-out record of one script (call it once per script, after the script's reset event).
func (o *vfWriter) NewKept() *vfKept {
	if o.own == nil {
		f, err := os.Create(os.Getenv("VERIF_OUT") + ".own")
		if err != nil {
			panic(err)
		}
		o.own = &vfWriter{f: f, w: bufio.NewWriterSize(f, 1<<20)}
	}
	o.own.Emit(vfM{"a": "reset"})

	return &vfKept{out: o.own}
}

// Keep records one object that was just handed out; render must read the object itself (not a copy).
func (k *vfKept) Keep(render func() any) {
	b, err := json.Marshal(render())
	if err != nil {
		panic(err)
	}
	k.items = append(k.items, vfKeptItem{snap: b, render: render})
}

// Flush re-renders every kept object and logs one event per object.
func (k *vfKept) Flush() {
	for i, it := range k.items {
		b, err := json.Marshal(it.render())
		if err != nil {
			panic(err)
		}
		k.out.Emit(vfM{"a": "own", "k": i, "emit": it.snap, "end": json.RawMessage(b)})
	}
	k.items = nil
}

type vfM = map[string]any

// vfInjErr is the failure a harness injects into a wrapped reader / writer.  Real transports fail with well-known values
// (a closed pipe, a closed connection, end of stream, an elapsed deadline, a cancelled context); code that singles one of
// them out must still honour what it promises, so the injected failure answers errors.Is for all of them.
type vfInjErr struct{ msg string }

func (e vfInjErr) Error() string { return e.msg }
func (e vfInjErr) Is(target error) bool {
	return target == io.ErrClosedPipe || target == io.EOF || target == io.ErrUnexpectedEOF || target == net.ErrClosed || //nolint:errorlint
		target == os.ErrDeadlineExceeded || target == context.Canceled || target == context.DeadlineExceeded //nolint:errorlint
}

//go:build verif

// Deterministic RTP packet construction and canonical packet records shared by several harnesses.
package PKGNAME

import (
	"github.com/pion/rtp"
)

// vfMakePacket builds the packet of a script step: contents are a function of (id, len, shape) only.
func vfMakePacket(ssrc uint32, w uint16, id, n, shape int) (*rtp.Header, []byte) {
	h := &rtp.Header{
		Version: 2, SSRC: ssrc, SequenceNumber: w, Timestamp: uint32(id) * 3000, //nolint:gosec
		PayloadType: uint8(96 + id%3), Marker: id%2 == 1, //nolint:gosec
	}
	pl := make([]byte, n)
	for i := range pl {
		pl[i] = byte((id*31 + i*7) % 256)
	}
	switch shape {
	case 1:
		h.Padding = true
		h.PaddingSize = 4
	case 2:
		if n > 0 {
			h.Padding = true
			k := 3
			if k > n {
				k = n
			}
			pl[n-1] = byte(k)
		}
	case 3:
		h.CSRC = []uint32{11, 22}
		h.Extension = true
		h.ExtensionProfile = 0xBEDE
		_ = h.SetExtension(5, []byte{byte(id % 256), 7})
	case 5: // contributing sources but no header extension (e.g. mixer output)
		h.CSRC = []uint32{33, 44, 55}
	case 6: // two-byte header extension profile (RFC 8285) with an id that the one-byte form cannot carry
		h.Extension = true
		h.ExtensionProfile = 0x1000
		_ = h.SetExtension(20, []byte{byte(id % 256), 9, 9})
	case 7: // two-byte profile, small id
		h.Extension = true
		h.ExtensionProfile = 0x1000
		_ = h.SetExtension(3, []byte{byte(id % 256)})
	case 8: // ten contributing sources (52-byte header)
		h.CSRC = []uint32{1, 2, 3, 4, 5, 6, 7, 8, 9, 10}
	case 9: // fifteen contributing sources and a one-byte extension (84-byte header)
		h.CSRC = []uint32{1, 2, 3, 4, 5, 6, 7, 8, 9, 10, 11, 12, 13, 14, 15}
		h.Extension = true
		h.ExtensionProfile = 0xBEDE
		_ = h.SetExtension(5, []byte{byte(id % 256), 7})
	case 10: // the application's own extension under the id the stream negotiated for transport-cc (7), too short for a number
		h.Extension = true
		h.ExtensionProfile = 0xBEDE
		_ = h.SetExtension(7, []byte{byte(id % 256)})
	case 11: // ... and one that is a well-formed transport-wide number already (a forwarded packet of another leg)
		h.Extension = true
		h.ExtensionProfile = 0xBEDE
		_ = h.SetExtension(7, []byte{byte(id % 256), 3})
		_ = h.SetExtension(5, []byte{9})
	case 4:
		if n > 0 && n < 190 {
			h.Padding = true
			pl[n-1] = 200
		}
	}

	return h, pl
}

func vfInts(b []byte) []int {
	out := make([]int, len(b))
	for i, x := range b {
		out[i] = int(x)
	}

	return out
}

// vfPkt is the canonical record of a packet (see spec/Trace_NackResp.tla).
func vfPkt(h *rtp.Header, pl []byte) vfM {
	csrc := []int{}
	for _, c := range h.CSRC {
		csrc = append(csrc, int(c))
	}
	xs := []vfM{}
	xp := 0
	if h.Extension {
		xp = int(h.ExtensionProfile)
		for _, id := range h.GetExtensionIDs() {
			xs = append(xs, vfM{"id": int(id), "d": vfInts(h.GetExtension(id))})
		}
	}

	return vfM{
		"p": h.Padding, "ps": int(h.PaddingSize), "x": h.Extension, "m": h.Marker, "pt": int(h.PayloadType),
		"seq": int(h.SequenceNumber), "ts": int(h.Timestamp), "ssrc": int(h.SSRC), "csrc": csrc, "xp": xp, "xs": xs,
		"pl": vfInts(pl),
	}
}


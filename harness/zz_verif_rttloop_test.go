//go:build verif

// Round-trip-time loop harness (growth: composition of C07, C06, C19, C20; spec/RttLoop.tla).
// Two endpoints built from the library's public API only:
//
//	A  stats.Interceptor + report.SenderInterceptor  (clock: SetNowFunc / SenderNow, tick: SenderTicker)
//	B  report.ReceiverInterceptor                    (clock: ReceiverNow, tick: verifhook gate "report.receiver.tick")
//
// The harness is the network: every RTCP packet an endpoint writes is captured as bytes and handed to the other
// endpoint's RTCP reader at the scripted instant of THAT endpoint's clock.  It only drives and records: the NTP time
// of each sender report and the LSR / DLSR of each receiver report are logged as they were on the wire, and what A's
// stats.Getter shows is logged after every report that reaches A.  Nothing is computed or compared here; the
// specification is evaluated by TLC (spec/Trace_RttLoop.tla).
package interceptor_test

import (
	"encoding/json"
	"math"
	"runtime"
	"sync"
	"sync/atomic"
	"testing"
	"time"

	"github.com/pion/interceptor"
	"github.com/pion/interceptor/internal/verifhook"
	"github.com/pion/interceptor/pkg/report"
	"github.com/pion/interceptor/pkg/stats"
	"github.com/pion/rtcp"
	"github.com/pion/rtp"
)

type rlStep struct {
	A  string `json:"a"`
	I  int    `json:"i"`
	Ta int64  `json:"ta"` // A-clock, ms since A's epoch
	Tb int64  `json:"tb"` // B-clock, ms since B's epoch
	V  uint32 `json:"v"`  // dxr: DLRR value (1/65536 s), computed by the specification
	H  int64  `json:"h"`  // dxr: the holding time v stands for (ms); only echoed into the trace
}

type rlScript struct {
	Wrapin int64    `json:"wrapin"` // seconds from A's epoch to the next zero of the 32-bit middle form of NTP time
	Sf     int      `json:"sf"`     // 1: the sender-report interceptor is registered BEFORE the statistics interceptor
	Steps  []rlStep `json:"steps"`
}

const (
	rlSSRC       = uint32(0x5A17C0DE)
	rlRemoteSSRC = uint32(0x0B0B0B0B)
	// an instant at which the NTP seconds are a multiple of 65536 (2023-11-16T02:42:08Z)
	rlWrapUnix = int64(59648*65536 - 2208988800)
	rlWait     = 10 * time.Second
)

var rlEpochB = time.Unix(946_684_800, 0) //nolint:gochecknoglobals // B's clock has nothing to do with A's

// rlNTP is an exact integer conversion (floor to 2^-32 s) used for the RRTR blocks the APPLICATION writes through A.
func rlNTP(t time.Time) uint64 {
	sec := uint64(t.Unix() + 2208988800)         //nolint:gosec
	frac := (uint64(t.Nanosecond()) << 32) / 1e9 //nolint:gosec

	return sec<<32 | frac
}

type rlTicker struct{ ch chan time.Time }

func (t *rlTicker) Ch() <-chan time.Time { return t.ch }
func (t *rlTicker) Stop()                {}

type rlGate struct {
	target  any
	arrive  chan struct{}
	release chan struct{}
	done    chan struct{}
}

func (g *rlGate) hook(name string, obj any) {
	if name != "report.receiver.tick" || obj != g.target {
		return
	}
	select {
	case g.arrive <- struct{}{}:
	case <-g.done:
		return
	}
	select {
	case <-g.release:
	case <-g.done:
	}
}

// rlCapture is the transport side of one endpoint: it keeps the bytes of every RTCP packet written.
type rlCapture struct {
	mu   sync.Mutex
	pkts []rtcp.Packet
	raw  [][]byte
	sig  chan struct{}
}

func (c *rlCapture) Write(pkts []rtcp.Packet, _ interceptor.Attributes) (int, error) {
	c.mu.Lock()
	for _, p := range pkts {
		b, err := rtcp.Marshal([]rtcp.Packet{p})
		if err != nil {
			b = nil
		}
		c.pkts = append(c.pkts, p)
		c.raw = append(c.raw, b)
	}
	c.mu.Unlock()
	for range pkts {
		select {
		case c.sig <- struct{}{}:
		default:
		}
	}

	return len(pkts), nil
}

func (c *rlCapture) count() int {
	c.mu.Lock()
	defer c.mu.Unlock()

	return len(c.pkts)
}

func (c *rlCapture) since(n int) ([]rtcp.Packet, [][]byte) {
	c.mu.Lock()
	defer c.mu.Unlock()

	return append([]rtcp.Packet(nil), c.pkts[n:]...), append([][]byte(nil), c.raw[n:]...)
}

func rlMicros(d time.Duration) int64 {
	v := int64(math.Round(float64(d) / 1000))
	if v > math.MaxInt32 {
		return math.MaxInt32
	}
	if v < -math.MaxInt32 {
		return -math.MaxInt32
	}

	return v
}

func rlCount(v uint64) int64 {
	if v > math.MaxInt32 {
		return math.MaxInt32
	}

	return int64(v) //nolint:gosec
}

func rlObs(s *stats.Stats) vfM {
	return vfM{
		"rrtt": rlMicros(s.RemoteInboundRTPStreamStats.RoundTripTime),
		"rtot": rlMicros(s.RemoteInboundRTPStreamStats.TotalRoundTripTime),
		"rn":   rlCount(s.RemoteInboundRTPStreamStats.RoundTripTimeMeasurements),
		"srtt": rlMicros(s.RemoteOutboundRTPStreamStats.RoundTripTime),
		"stot": rlMicros(s.RemoteOutboundRTPStreamStats.TotalRoundTripTime),
		"sm":   rlCount(s.RemoteOutboundRTPStreamStats.RoundTripTimeMeasurements),
	}
}

// rlWire renders a 64-bit NTP time as it was on the wire: whole seconds relative to A's epoch, the two halves of the
// 32-bit middle form, and the top 20 bits of the fraction (the form spec/SenderReport.tla speaks about).
func rlWire(ev vfM, ntpTime uint64, epochA time.Time) {
	sec := int64(ntpTime>>32) - (epochA.Unix() + 2208988800) //nolint:gosec
	if sec > math.MaxInt32 || sec < -math.MaxInt32 {
		sec = -math.MaxInt32
	}
	ev["sec"] = sec
	ev["hi"] = (ntpTime >> 32) & 0xFFFF
	ev["lo"] = (ntpTime >> 16) & 0xFFFF
	ev["f20"] = (ntpTime & 0xFFFFFFFF) >> 12
}

func TestVerifRttLoopExec(t *testing.T) {
	in := vfLoad(t)
	out := vfOut(t)
	defer out.Close()
	for _, raw := range in {
		var sc rlScript
		if err := json.Unmarshal(raw, &sc); err != nil {
			t.Fatalf("VERIF-INFRA bad script: %v", err)
		}
		out.Emit(vfM{"a": "reset", "wrapin": sc.Wrapin, "sf": sc.Sf})
		rlRun(t, &sc, out)
	}
}

//nolint:gocognit,cyclop,maintidx
func rlRun(t *testing.T, sc *rlScript, out *vfWriter) {
	t.Helper()
	epochA := time.Unix(rlWrapUnix-sc.Wrapin, 0)
	var clockA, clockB atomic.Int64
	nowA := func() time.Time { return epochA.Add(time.Duration(clockA.Load()) * time.Millisecond) }
	nowB := func() time.Time { return rlEpochB.Add(time.Duration(clockB.Load()) * time.Millisecond) }

	// ---------------------------------------------------------------- endpoint A: statistics + sender reports
	statsFactory, err := stats.NewInterceptor(stats.SetNowFunc(nowA))
	if err != nil {
		t.Fatalf("VERIF-INFRA stats factory: %v", err)
	}
	var getter stats.Getter
	statsFactory.OnNewPeerConnection(func(_ string, g stats.Getter) { getter = g })
	tick := &rlTicker{ch: make(chan time.Time)}
	tickerMade := make(chan struct{}, 4)
	senderFactory, err := report.NewSenderInterceptor(
		report.SenderNow(nowA),
		report.SenderInterval(time.Hour),
		report.SenderTicker(func(time.Duration) report.Ticker {
			tickerMade <- struct{}{}

			return tick
		}),
	)
	if err != nil {
		t.Fatalf("VERIF-INFRA sender factory: %v", err)
	}
	// the statistics interceptor is registered first: it then wraps the writer the sender-report loop writes to
	// (sf = 1: the other order, in which the statistics never see a sender report leave)
	regA := &interceptor.Registry{}
	if sc.Sf == 1 {
		regA.Add(senderFactory)
		regA.Add(statsFactory)
	} else {
		regA.Add(statsFactory)
		regA.Add(senderFactory)
	}
	chainA, err := regA.Build("rttloop-a")
	if err != nil || getter == nil {
		t.Fatalf("VERIF-INFRA build A: %v getter=%v", err, getter)
	}
	wireA := &rlCapture{sig: make(chan struct{}, 1024)}
	rtcpWriterA := chainA.BindRTCPWriter(interceptor.RTCPWriterFunc(wireA.Write))
	var nextRTCPA []byte
	rtcpReaderA := chainA.BindRTCPReader(interceptor.RTCPReaderFunc(
		func(b []byte, a interceptor.Attributes) (int, interceptor.Attributes, error) {
			return copy(b, nextRTCPA), a, nil
		}))
	info := &interceptor.StreamInfo{SSRC: rlSSRC, ClockRate: 90000}
	var lastRTP []byte
	rtpWriterA := chainA.BindLocalStream(info, interceptor.RTPWriterFunc(
		func(h *rtp.Header, p []byte, _ interceptor.Attributes) (int, error) {
			b, err := (&rtp.Packet{Header: *h, Payload: p}).Marshal()
			if err != nil {
				return 0, err
			}
			lastRTP = b

			return len(p), nil
		}))
	select {
	case <-tickerMade:
	case <-time.After(rlWait):
		t.Fatalf("VERIF-INFRA the sender-report loop never created its ticker")
	}
	seq := uint16(65530)
	writeRTP := func() {
		seq++
		h := &rtp.Header{Version: 2, PayloadType: 96, SSRC: rlSSRC, SequenceNumber: seq, Timestamp: uint32(seq) * 3000}
		if _, err := rtpWriterA.Write(h, []byte{1, 2, 3, 4}, interceptor.Attributes{}); err != nil {
			t.Fatalf("VERIF-INFRA rtp write on A: %v", err)
		}
	}
	// the statistics recorder is switched on by a goroutine: probe with media packets (not under test here)
	for deadline := time.Now().Add(rlWait); ; {
		writeRTP()
		if g := getter.Get(rlSSRC); g != nil && g.OutboundRTPStreamStats.PacketsSent > 0 {
			break
		}
		if time.Now().After(deadline) {
			t.Fatalf("VERIF-INFRA A's statistics recorder never became active")
		}
		runtime.Gosched()
	}

	// ---------------------------------------------------------------- endpoint B: receiver reports
	recvFactory, err := report.NewReceiverInterceptor(
		report.ReceiverInterval(20*time.Microsecond),
		report.ReceiverNow(nowB),
	)
	if err != nil {
		t.Fatalf("VERIF-INFRA receiver factory: %v", err)
	}
	icB, err := recvFactory.NewInterceptor("rttloop-b")
	if err != nil {
		t.Fatalf("VERIF-INFRA build B: %v", err)
	}
	gate := &rlGate{target: icB, arrive: make(chan struct{}), release: make(chan struct{}), done: make(chan struct{})}
	verifhook.SetGate(gate.hook)
	defer verifhook.SetGate(nil)
	wireB := &rlCapture{sig: make(chan struct{}, 1024)}
	icB.BindRTCPWriter(interceptor.RTCPWriterFunc(wireB.Write))
	var nextRTCPB, nextRTPB []byte
	rtcpReaderB := icB.BindRTCPReader(interceptor.RTCPReaderFunc(
		func(b []byte, a interceptor.Attributes) (int, interceptor.Attributes, error) {
			return copy(b, nextRTCPB), a, nil
		}))
	rtpReaderB := icB.BindRemoteStream(info, interceptor.RTPReaderFunc(
		func(b []byte, a interceptor.Attributes) (int, interceptor.Attributes, error) {
			return copy(b, nextRTPB), a, nil
		}))
	waitArrive := func() {
		select {
		case <-gate.arrive:
		case <-time.After(rlWait):
			t.Fatalf("VERIF-INFRA B's receiver-report loop never reached the tick gate")
		}
	}
	waitArrive() // B's loop is parked at the start of a tick body

	buf := make([]byte, 1500)
	var srRaw, rrRaw [][]byte // every SR A wrote / every RR B wrote, as bytes, in writing order
	var rrtr []uint64         // NTP times of the RRTR blocks written through A
	for _, st := range sc.Steps {
		switch st.A {
		case "sr": // A's sender-report tick
			if st.I != len(srRaw)+1 {
				t.Fatalf("VERIF-INFRA script numbers SR %d, %d were sent", st.I, len(srRaw))
			}
			clockA.Store(st.Ta)
			before := wireA.count()
			select {
			case tick.ch <- nowA():
			case <-time.After(rlWait):
				t.Fatalf("VERIF-INFRA the sender-report loop does not take a tick")
			}
			for deadline := time.After(rlWait); wireA.count() == before; {
				select {
				case <-wireA.sig:
				case <-deadline:
					t.Fatalf("VERIF-INFRA no sender report was written on a tick")
				}
			}
			pkts, raws := wireA.since(before)
			ev := vfM{"a": "sr", "i": st.I, "ta": st.Ta, "n": len(pkts), "ok": false, "sec": 0, "hi": 0, "lo": 0, "f20": 0}
			if sr, ok := pkts[0].(*rtcp.SenderReport); ok && sr.SSRC == rlSSRC && raws[0] != nil {
				ev["ok"] = true
				rlWire(ev, sr.NTPTime, epochA)
			}
			srRaw = append(srRaw, raws[0])
			out.Emit(ev)
		case "dsr": // the i-th SR reaches B
			if st.I < 1 || st.I > len(srRaw) || srRaw[st.I-1] == nil {
				t.Fatalf("VERIF-INFRA script delivers SR %d of %d", st.I, len(srRaw))
			}
			clockB.Store(st.Tb)
			nextRTCPB = srRaw[st.I-1]
			if n, _, err := rtcpReaderB.Read(buf, interceptor.Attributes{}); err != nil || n != len(nextRTCPB) {
				t.Fatalf("VERIF-INFRA rtcp read on B: n=%d err=%v", n, err)
			}
			out.Emit(vfM{"a": "dsr", "i": st.I, "tb": st.Tb})
		case "rr": // B's receiver-report tick (one media packet has arrived since the previous report)
			if st.I != len(rrRaw)+1 {
				t.Fatalf("VERIF-INFRA script numbers RR %d, %d were sent", st.I, len(rrRaw))
			}
			clockB.Store(st.Tb)
			writeRTP()
			nextRTPB = lastRTP
			if n, _, err := rtpReaderB.Read(buf, interceptor.Attributes{}); err != nil || n != len(nextRTPB) {
				t.Fatalf("VERIF-INFRA rtp read on B: n=%d err=%v", n, err)
			}
			before := wireB.count()
			select {
			case gate.release <- struct{}{}: // run exactly one tick body
			case <-time.After(rlWait):
				t.Fatalf("VERIF-INFRA B's receiver-report loop is not parked at the gate")
			}
			waitArrive() // parked at the next tick: every write of the released body has happened
			pkts, raws := wireB.since(before)
			ev := vfM{"a": "rr", "i": st.I, "tb": st.Tb, "n": len(pkts), "ok": false, "lh": 0, "ll": 0, "dlsr": 0}
			var rawRR []byte
			if len(pkts) > 0 {
				if rr, ok := pkts[0].(*rtcp.ReceiverReport); ok && len(rr.Reports) == 1 && rr.Reports[0].SSRC == rlSSRC &&
					raws[0] != nil {
					ev["ok"] = true
					ev["lh"] = rr.Reports[0].LastSenderReport >> 16
					ev["ll"] = rr.Reports[0].LastSenderReport & 0xFFFF
					d := rr.Reports[0].Delay
					if d > math.MaxInt32 {
						d = math.MaxInt32
					}
					ev["dlsr"] = d
					rawRR = raws[0]
				}
			}
			rrRaw = append(rrRaw, rawRR)
			out.Emit(ev)
		case "drr": // the i-th RR reaches A
			if st.I < 1 || st.I > len(rrRaw) {
				t.Fatalf("VERIF-INFRA script delivers RR %d of %d", st.I, len(rrRaw))
			}
			ev := vfM{"a": "drr", "i": st.I, "ta": st.Ta, "fed": false, "out": vfM{}}
			if rrRaw[st.I-1] != nil {
				clockA.Store(st.Ta)
				nextRTCPA = rrRaw[st.I-1]
				if n, _, err := rtcpReaderA.Read(buf, interceptor.Attributes{}); err != nil || n != len(nextRTCPA) {
					t.Fatalf("VERIF-INFRA rtcp read on A: n=%d err=%v", n, err)
				}
				ev["fed"] = true
			}
			g := getter.Get(rlSSRC)
			if g == nil {
				t.Fatalf("VERIF-INFRA Getter has no statistics for the bound stream")
			}
			ev["out"] = rlObs(g)
			out.Emit(ev)
		case "xr": // the application writes an extended report with an RRTR block through A
			if st.I != len(rrtr)+1 {
				t.Fatalf("VERIF-INFRA script numbers RRTR %d, %d were sent", st.I, len(rrtr))
			}
			clockA.Store(st.Ta)
			before := wireA.count()
			xr := &rtcp.ExtendedReport{SenderSSRC: rlSSRC, Reports: []rtcp.ReportBlock{
				&rtcp.ReceiverReferenceTimeReportBlock{NTPTimestamp: rlNTP(nowA())},
			}}
			if _, err := rtcpWriterA.Write([]rtcp.Packet{xr}, interceptor.Attributes{}); err != nil {
				t.Fatalf("VERIF-INFRA rtcp write on A: %v", err)
			}
			pkts, _ := wireA.since(before)
			ev := vfM{"a": "xr", "i": st.I, "ta": st.Ta, "n": len(pkts), "ok": false, "sec": 0, "hi": 0, "lo": 0, "f20": 0}
			var onWire uint64
			if len(pkts) == 1 {
				if x, ok := pkts[0].(*rtcp.ExtendedReport); ok && len(x.Reports) == 1 {
					if b, ok := x.Reports[0].(*rtcp.ReceiverReferenceTimeReportBlock); ok {
						onWire = b.NTPTimestamp
						ev["ok"] = true
						rlWire(ev, onWire, epochA)
					}
				}
			}
			rrtr = append(rrtr, onWire)
			out.Emit(ev)
		case "dxr": // a DLRR sub-block echoing the i-th RRTR reaches A (B's extended-report side is the script)
			if st.I < 1 || st.I > len(rrtr) {
				t.Fatalf("VERIF-INFRA script echoes RRTR %d of %d", st.I, len(rrtr))
			}
			clockA.Store(st.Ta)
			xr := &rtcp.ExtendedReport{SenderSSRC: rlRemoteSSRC, Reports: []rtcp.ReportBlock{
				&rtcp.DLRRReportBlock{Reports: []rtcp.DLRRReport{
					{SSRC: rlSSRC, LastRR: uint32(rrtr[st.I-1] >> 16), DLRR: st.V}, //nolint:gosec
				}},
			}}
			b, err := rtcp.Marshal([]rtcp.Packet{xr})
			if err != nil {
				t.Fatalf("VERIF-INFRA marshal xr: %v", err)
			}
			nextRTCPA = b
			if n, _, err := rtcpReaderA.Read(buf, interceptor.Attributes{}); err != nil || n != len(b) {
				t.Fatalf("VERIF-INFRA rtcp read on A: n=%d err=%v", n, err)
			}
			g := getter.Get(rlSSRC)
			if g == nil {
				t.Fatalf("VERIF-INFRA Getter has no statistics for the bound stream")
			}
			out.Emit(vfM{"a": "dxr", "i": st.I, "ta": st.Ta, "v": st.V, "h": st.H, "out": rlObs(g)})
		default:
			t.Fatalf("VERIF-INFRA unknown action %q", st.A)
		}
	}
	close(gate.done)
	if err := icB.Close(); err != nil {
		t.Fatalf("VERIF-INFRA close B: %v", err)
	}
	if err := chainA.Close(); err != nil {
		t.Fatalf("VERIF-INFRA close A: %v", err)
	}
}

//go:build verif

// Recorder for the executions of the repository's OWN tests (C01 stage "repotests", spec/Trace_Mock.tla).
//
// This file is injected (go test -overlay, package clause and the two markers below substituted per package by
// checks/c01_repotests.py) into every test package of the repository that drives interceptors through
// internal/test.MockStream and has no TestMain of its own.  It installs a verifhook gate function that writes one ndjson
// line per linearization point of MockStream ("verif hooks: MockStream ..." commit) and then runs the package's tests
// unchanged.  It drives nothing and computes no expectation: it renders what passed the hook.
//
//	new      a MockStream was constructed (test = the Test function found on the constructor's call stack)
//	wpre/wret, cwpre/cwret   application WriteRTP / WriteRTCP started / returned (c = call id)
//	wire, cwire              an RTP packet / RTCP compound reached the transport writer (c = id of the application call
//	                         whose header object / packet slice it is, 0 = originated by the interceptor)
//	feed, cfeed              the test scheduled a packet on the transport's read side
//	in, cin                  the transport reader handed a packet (or an error) to the interceptor
//	read, cread              the Read of the application side returned (bytes or error)
//	clpre/clret              MockStream.Close started / returned
//
// Values that TLC cannot hold (>= 2^31) are logged as their two's-complement int32 (a bijection, so equality is preserved).
package PKGNAME

import (
	"encoding/hex"
	"encoding/json"
	"errors"
	"fmt"
	"io"
	"os"
	"reflect"
	"runtime"
	"strings"
	"sync"
	"testing"

	"github.com/pion/interceptor"
	"github.com/pion/interceptor/internal/verifhook"
	"github.com/pion/rtcp"
	"github.com/pion/rtp"
	vtest "github.com/pion/interceptor/internal/test" //VTEST-IMPORT
)

const vtRepoPkg = "PKGPATH"

const vtTransportCCURI = "http://www.ietf.org/id/draft-holmer-rmcat-transport-wide-cc-extensions-01"

type vtM = map[string]any

type vtCallKey struct {
	st  any
	obj any
}

type vtRecorder struct {
	mu      sync.Mutex
	f       *os.File
	streams map[any]int
	icpts   map[any]int
	calls   map[vtCallKey]int
	n       int
}

func vtI32(x uint32) int { return int(int32(x)) } //nolint:gosec

func vtInts(b []byte) []int {
	out := make([]int, len(b))
	for i, x := range b {
		out[i] = int(x)
	}

	return out
}

// vtPkt is the canonical packet record of harness/common/zz_verif_pkt_test.go.tpl (spec/Trace_NackResp.tla).
func vtPkt(h *rtp.Header, pl []byte, withPayload bool) vtM {
	csrc := []int{}
	for _, c := range h.CSRC {
		csrc = append(csrc, vtI32(c))
	}
	xs := []vtM{}
	xp := 0
	if h.Extension {
		xp = int(h.ExtensionProfile)
		for _, id := range h.GetExtensionIDs() {
			xs = append(xs, vtM{"id": int(id), "d": vtInts(h.GetExtension(id))})
		}
	}
	rec := vtM{
		"v": int(h.Version), "p": h.Padding, "ps": int(h.PaddingSize), "x": h.Extension, "m": h.Marker, "pt": int(h.PayloadType),
		"seq": int(h.SequenceNumber), "ts": vtI32(h.Timestamp), "ssrc": vtI32(h.SSRC), "csrc": csrc, "xp": xp, "xs": xs,
	}
	if withPayload {
		rec["pl"] = vtInts(pl)
	} else {
		rec["pl"], rec["n"] = []int{}, len(pl)
	}

	return rec
}

// vtSum is the feedback summary of harness/zz_verif_univ_test.go (spec/Trace_Chain.tla SumOk).
func vtSum(pkts []rtcp.Packet) []vtM { //nolint:cyclop
	res := []vtM{}
	none := []int{}
	for _, p := range pkts {
		switch x := p.(type) {
		case *rtcp.ReceiverReport:
			for _, r := range x.Reports {
				res = append(res, vtM{"t": "rr", "ssrc": vtI32(r.SSRC), "hi": int(r.LastSequenceNumber & 0xffff),
					"cyc": int(r.LastSequenceNumber >> 16), "lost": int(r.TotalLost), "nums": none})
			}
			if len(x.Reports) == 0 {
				res = append(res, vtM{"t": "rr0", "ssrc": vtI32(x.SSRC), "hi": 0, "cyc": 0, "lost": 0, "nums": none})
			}
		case *rtcp.SenderReport:
			res = append(res, vtM{"t": "sr", "ssrc": vtI32(x.SSRC), "hi": vtI32(x.PacketCount), "cyc": vtI32(x.OctetCount),
				"lost": 0, "nums": none})
		case *rtcp.TransportLayerNack:
			nums := []int{}
			for _, pr := range x.Nacks {
				for _, n := range pr.PacketList() {
					nums = append(nums, int(n))
				}
			}
			res = append(res, vtM{"t": "nack", "ssrc": vtI32(x.MediaSSRC), "hi": 0, "cyc": 0, "lost": 0, "nums": nums})
		case *rtcp.PictureLossIndication:
			res = append(res, vtM{"t": "pli", "ssrc": vtI32(x.MediaSSRC), "hi": 0, "cyc": 0, "lost": 0, "nums": none})
		case *rtcp.TransportLayerCC:
			nums := []int{}
			seq := x.BaseSequenceNumber
			left := int(x.PacketStatusCount)
			sym := func(s uint16) {
				if left <= 0 {
					return
				}
				if s == rtcp.TypeTCCPacketReceivedSmallDelta || s == rtcp.TypeTCCPacketReceivedLargeDelta {
					nums = append(nums, int(seq))
				}
				seq++
				left--
			}
			for _, c := range x.PacketChunks {
				switch ch := c.(type) {
				case *rtcp.RunLengthChunk:
					for i := 0; i < int(ch.RunLength); i++ {
						sym(ch.PacketStatusSymbol)
					}
				case *rtcp.StatusVectorChunk:
					for _, s := range ch.SymbolList {
						sym(s)
					}
				}
			}
			res = append(res, vtM{"t": "twcc", "ssrc": vtI32(x.MediaSSRC), "hi": int(x.BaseSequenceNumber),
				"cyc": int(x.PacketStatusCount), "lost": int(x.FbPktCount), "nums": nums})
		case *rtcp.CCFeedbackReport:
			for _, b := range x.ReportBlocks {
				nums := []int{}
				for i, m := range b.MetricBlocks {
					if m.Received {
						nums = append(nums, int(b.BeginSequence+uint16(i))) //nolint:gosec
					}
				}
				res = append(res, vtM{"t": "ccfb", "ssrc": vtI32(b.MediaSSRC), "hi": int(b.BeginSequence),
					"cyc": len(b.MetricBlocks), "lost": 0, "nums": nums})
			}
		default:
			res = append(res, vtM{"t": "other", "ssrc": 0, "hi": 0, "cyc": 0, "lost": 0, "nums": none})
		}
	}

	return res
}

func vtErr(err error) string {
	switch {
	case err == nil:
		return ""
	case errors.Is(err, io.EOF):
		return "EOF"
	default:
		return err.Error()
	}
}

func vtRawRTCP(pkts []rtcp.Packet) (raw string, ok bool) {
	defer func() {
		if recover() != nil {
			raw, ok = "", false
		}
	}()
	b, err := rtcp.Marshal(pkts)
	if err != nil {
		return "", false
	}

	return hex.EncodeToString(b), true
}

// vtKey is the identity of an interceptor instance: the value itself when it can be a map key (a pointer, as a rule; the map
// then keeps the instance alive, so its address is not reused for another one), otherwise nil (one instance per stream).
func vtKey(x any) any {
	if x == nil {
		return nil
	}
	t := reflect.TypeOf(x)
	if t.Kind() == reflect.Ptr && t.Elem().Size() == 0 {
		return nil // all pointers to zero-size values (&interceptor.NoOp{}) may be equal
	}
	if t.Kind() == reflect.Ptr || (t.Comparable() && t.Size() > 0) {
		return x
	}

	return nil
}

// vtKinds names the interceptor(s) behind the stream: the dynamic type, and for a Chain the dynamic types of its members
// in bind order (member 1 is the one next to the transport).
func vtKinds(i interceptor.Interceptor) []string {
	if i == nil {
		return []string{"nil"}
	}
	t := reflect.TypeOf(i).String()
	if ch, ok := i.(*interceptor.Chain); ok {
		res := []string{}
		f := reflect.ValueOf(ch).Elem().FieldByName("interceptors")
		if f.IsValid() && f.Kind() == reflect.Slice {
			for k := 0; k < f.Len(); k++ {
				e := f.Index(k)
				if e.Kind() == reflect.Interface && !e.IsNil() {
					res = append(res, strings.TrimPrefix(e.Elem().Type().String(), "*"))
				}
			}

			return res
		}
	}

	return []string{strings.TrimPrefix(t, "*")}
}

func vtTestName() string {
	pcs := make([]uintptr, 64)
	n := runtime.Callers(3, pcs)
	frames := runtime.CallersFrames(pcs[:n])
	name := ""
	for {
		fr, more := frames.Next()
		fn := fr.Function
		if k := strings.LastIndex(fn, "/"); k >= 0 {
			fn = fn[k+1:]
		}
		parts := strings.Split(fn, ".")
		if len(parts) >= 2 && strings.HasPrefix(parts[1], "Test") && strings.HasSuffix(fr.File, "_test.go") {
			name = parts[1] // the outermost such frame wins: keep going
		}
		if !more {
			break
		}
	}
	if name == "" {
		return "?"
	}

	return name
}

func vtInfo(info *interceptor.StreamInfo) vtM {
	if info == nil {
		return vtM{"ssrc": 0, "pt": 0, "rtxssrc": 0, "rtxpt": 0, "fecssrc": 0, "fecpt": 0, "twcc": 0, "nack": false, "fb": []string{}, "clock": 0}
	}
	twcc := 0
	for _, e := range info.RTPHeaderExtensions {
		if e.URI == vtTransportCCURI && twcc == 0 {
			twcc = e.ID
		}
	}
	fb := []string{}
	nack := false
	for _, f := range info.RTCPFeedback {
		fb = append(fb, strings.TrimSpace(f.Type+" "+f.Parameter))
		if f.Type == "nack" && f.Parameter == "" {
			nack = true
		}
	}

	return vtM{
		"ssrc": vtI32(info.SSRC), "pt": int(info.PayloadType), "rtxssrc": vtI32(info.SSRCRetransmission),
		"rtxpt": int(info.PayloadTypeRetransmission), "fecssrc": vtI32(info.SSRCForwardErrorCorrection),
		"fecpt": int(info.PayloadTypeForwardErrorCorrection), "twcc": twcc, "nack": nack, "fb": fb, "clock": vtI32(info.ClockRate),
	}
}

func (r *vtRecorder) emit(m vtM) {
	b, err := json.Marshal(m)
	if err != nil {
		b, _ = json.Marshal(vtM{"a": "recorder-error", "q": m["q"], "st": m["st"], "ic": m["ic"], "err": err.Error()})
	}
	_, _ = r.f.Write(append(b, '\n'))
	r.n++
}

func (r *vtRecorder) gate(name string, obj any) { //nolint:cyclop
	if !strings.HasPrefix(name, "mock.") {
		return
	}
	ev, ok := obj.(*vtest.VerifEvent)
	if !ok || ev == nil {
		return
	}
	test := ""
	if name == "mock.new" {
		test = vtTestName()
	}
	r.mu.Lock()
	defer r.mu.Unlock()
	st, seen := r.streams[ev.Stream]
	if !seen {
		st = len(r.streams) + 1
		r.streams[ev.Stream] = st
	}
	ik := vtKey(ev.Interceptor)
	if ik == nil {
		ik = ev.Stream // a value-typed interceptor: one instance per stream
	}
	ic, seen := r.icpts[ik]
	if !seen {
		ic = len(r.icpts) + 1
		r.icpts[ik] = ic
	}
	m := vtM{"q": int(ev.Seq), "st": st, "ic": ic} //nolint:gosec
	switch name {
	case "mock.new":
		m["a"], m["test"], m["kinds"], m["info"], m["pkg"] = "new", test, vtKinds(ev.Interceptor), vtInfo(ev.Info), vtRepoPkg
	case "mock.rtp.write", "mock.rtp.wire", "mock.rtp.written":
		key := vtCallKey{ev.Stream, ev.Header}
		switch name {
		case "mock.rtp.write":
			r.calls[key] = int(ev.Seq) //nolint:gosec
			m["a"] = "wpre"
		case "mock.rtp.wire":
			m["a"] = "wire"
		default:
			m["a"], m["err"] = "wret", vtErr(ev.Err)
		}
		m["c"] = r.calls[key]
		if name == "mock.rtp.written" {
			delete(r.calls, key)
		}
		m["pkt"] = vtPkt(ev.Header, ev.Payload, true)
	case "mock.rtcp.write", "mock.rtcp.wire", "mock.rtcp.written":
		var key vtCallKey
		if len(ev.RTCP) > 0 {
			key = vtCallKey{ev.Stream, &ev.RTCP[0]}
		}
		switch name {
		case "mock.rtcp.write":
			if len(ev.RTCP) > 0 {
				r.calls[key] = int(ev.Seq) //nolint:gosec
			}
			m["a"] = "cwpre"
		case "mock.rtcp.wire":
			m["a"] = "cwire"
		default:
			m["a"], m["err"] = "cwret", vtErr(ev.Err)
		}
		m["c"] = r.calls[key]
		if name == "mock.rtcp.written" {
			delete(r.calls, key)
		}
		m["raw"], m["rawok"] = vtRawRTCP(ev.RTCP)
		m["np"], m["sum"] = len(ev.RTCP), vtSum(ev.RTCP)
	case "mock.rtp.feed":
		m["a"], m["pkt"] = "feed", vtPkt(ev.Header, ev.Payload, false)
	case "mock.rtcp.feed":
		m["a"] = "cfeed"
		m["raw"], m["rawok"] = vtRawRTCP(ev.RTCP)
	case "mock.rtp.in", "mock.rtp.read":
		// took: the transport reader consumed a packet the test had scheduled (false: its channel was closed)
		m["a"], m["took"] = name[len("mock.rtp."):], ev.Header != nil
		m["err"], m["raw"], m["parsed"] = vtErr(ev.Err), "", false
		m["pkt"] = vtPkt(&rtp.Header{}, nil, false)
		if ev.Header != nil {
			m["pkt"] = vtPkt(ev.Header, ev.Payload, false)
		}
		if ev.Err == nil {
			m["raw"] = hex.EncodeToString(ev.Raw)
			p := &rtp.Packet{}
			if p.Unmarshal(ev.Raw) == nil {
				m["parsed"], m["pkt"] = true, vtPkt(&p.Header, p.Payload, false)
			}
		}
	case "mock.rtcp.in", "mock.rtcp.read":
		m["a"], m["took"] = "c"+name[len("mock.rtcp."):], ev.RTCP != nil
		m["err"], m["raw"], m["sum"] = vtErr(ev.Err), "", []vtM{}
		if ev.Err == nil {
			m["raw"] = hex.EncodeToString(ev.Raw)
			if pkts, err := rtcp.Unmarshal(ev.Raw); err == nil {
				m["sum"] = vtSum(pkts)
			}
		}
	case "mock.close":
		m["a"] = "clpre"
	case "mock.closed":
		m["a"] = "clret"
	default:
		m["a"], m["name"] = "unknown", name
	}
	r.emit(m)
}

// TestMain records the package's own tests; without VERIF_OUT it only runs them.
func TestMain(m *testing.M) {
	out := os.Getenv("VERIF_OUT")
	if out == "" {
		os.Exit(m.Run())
	}
	f, err := os.Create(out + "." + strings.ReplaceAll(vtRepoPkg, "/", "_"))
	if err != nil {
		fmt.Println("VERIF-INFRA cannot create trace file:", err)
		os.Exit(3)
	}
	rec := &vtRecorder{f: f, streams: map[any]int{}, icpts: map[any]int{}, calls: map[vtCallKey]int{}}
	rec.emit(vtM{"a": "begin", "q": 0, "st": 0, "ic": 0, "pkg": vtRepoPkg})
	verifhook.SetGate(rec.gate)
	rc := m.Run()
	verifhook.SetGate(nil)
	rec.mu.Lock()
	rec.emit(vtM{"a": "end", "q": 1 << 30, "st": 0, "ic": 0, "pkg": vtRepoPkg, "rc": rc, "events": rec.n})
	_ = f.Close()
	rec.mu.Unlock()
	os.Exit(rc)
}

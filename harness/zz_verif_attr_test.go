//go:build verif

package interceptor

import (
	"encoding/json"
	"testing"

	"github.com/pion/rtcp"
	"github.com/pion/rtp"
)

// Executes lookup sequences on the real interceptor.Attributes parse cache (spec/Attributes.tla).
func TestVerifAttrExec(t *testing.T) {
	in := vfLoad(t)
	out := vfOut(t)
	defer out.Close()
	rtpRaw := func(id int, cut int) []byte {
		p := rtp.Packet{Header: rtp.Header{Version: 2, SequenceNumber: uint16(id), SSRC: 5, Extension: true, ExtensionProfile: 0xBEDE}, //nolint:gosec
			Payload: []byte{1, 2, 3}}
		_ = p.Header.SetExtension(1, []byte{9})
		b, _ := p.Marshal()

		return b[:len(b)-cut]
	}
	rtcpRaw := func(id int) []byte {
		b, _ := (&rtcp.PictureLossIndication{SenderSSRC: 1, MediaSSRC: uint32(id)}).Marshal() //nolint:gosec

		return b
	}
	for _, raw := range in {
		var steps []string
		if err := json.Unmarshal(raw, &steps); err != nil {
			t.Fatalf("VERIF-INFRA bad script: %v", err)
		}
		out.Emit(vfM{"a": "reset"})
		attr := Attributes{}
		var lastH *rtp.Header
		var lastC []rtcp.Packet
		for _, st := range steps {
			switch st {
			case "new":
				attr, lastH, lastC = Attributes{}, nil, nil
				out.Emit(vfM{"a": "new"})
			case "h1", "h2", "hbad", "htrunc":
				id, ok, b := 1, true, rtpRaw(1, 0)
				switch st {
				case "h2":
					id, b = 2, rtpRaw(2, 0)
				case "hbad":
					id, ok, b = 3, false, []byte{0x80, 96, 0}
				case "htrunc": // extension bit set, extension header cut off
					id, ok, b = 3, false, rtpRaw(3, 9)
				}
				h, err := attr.GetRTPHeader(b)
				ret := 0
				if h != nil {
					ret = int(h.SequenceNumber)
				}
				out.Emit(vfM{"a": "get", "slot": "h", "id": id, "ok": ok, "err": err != nil, "ret": ret, "same": h != nil && h == lastH})
				if h != nil {
					lastH = h
				}
			case "c1", "c2", "cbad":
				id, ok, b := 1, true, rtcpRaw(1)
				switch st {
				case "c2":
					id, b = 2, rtcpRaw(2)
				case "cbad":
					id, ok, b = 3, false, []byte{0x81, 206, 0, 9, 1}
				}
				pk, err := attr.GetRTCPPackets(b)
				ret := 0
				if len(pk) > 0 {
					if p, isPli := pk[0].(*rtcp.PictureLossIndication); isPli {
						ret = int(p.MediaSSRC)
					}
				}
				same := len(pk) > 0 && len(lastC) > 0 && pk[0] == lastC[0]
				out.Emit(vfM{"a": "get", "slot": "c", "id": id, "ok": ok, "err": err != nil, "ret": ret, "same": same})
				if len(pk) > 0 {
					lastC = pk
				}
			}
		}
	}
}

---------------------------- MODULE FlexFec20 ----------------------------
(* Specification growth attached to C14: the RFC 8627 ("flexfec-20") repair packet with a flexible mask, as
   pkg/flexfec/flexfec_encoder.go (FlexEncoder20) is meant to produce it.  Reuses FlexFec: Cover, the RTP wire
   layout, Field / XorSet (RFC 8627 protects the same bit string as draft-03: P X CC M PT, length after the fixed
   header, timestamp, every byte after the 12-byte fixed header) and Rebuild.  What differs from draft-03:

     FEC header (RFC 8627 4.2.2.1, R = 0, F = 0):
        0: R F P X CC | 1: M PT recovery | 2-3: length recovery | 4-7: TS recovery
        8-9: SN base_i | 10-11: k + Mask [0-14] | 12-15: k + Mask [15-45] (optional) | 16-23: Mask [46-109] (optional)
     - no SSRC count / SSRC_i words: the protected stream's SSRC travels in the CSRC list of the repair packet's
       RTP header (RFC 8627 4.2.1), so the header is 12, 16 or 24 bytes (draft-03: 20, 24, 32);
     - k = 1 means ANOTHER mask field follows, k = 0 ends the mask (draft-03: k = 1 on the last field);
     - the third field has 64 bits and no k-bit: indices 46..109, i.e. 110 packets can be named (draft-03: 109).
   Behaviour the property C14 does not state: divergences of the real FlexEncoder20 are growth notes, not verdicts. *)
EXTENDS FlexFec

MaxMaskBits20 == 110
Accepted20(k, n) == k \in 1 .. MaxMaskBits20 /\ n \in 0 .. MaxFec

\* bit positions counted from the first bit of the 16-bit field after SN base:
\*   0 = k-bit 0, 1..15 = indices 0..14, 16 = k-bit 1, 17..47 = indices 15..45, 48..111 = indices 46..109
Nameable20(i)  == i \in 0 .. MaxMaskBits20 - 1
MaskPos20(i)   == IF i <= 14 THEN i + 1 ELSE i + 2
PosIdx20(pos)  == IF pos <= 15 THEN pos - 1 ELSE pos - 2
KPositions20   == {0, 16}
MaskLen20(S)   == IF S \subseteq 0 .. 14 THEN 2 ELSE IF S \subseteq 0 .. 45 THEN 6 ELSE 14
KBits20(S)     == IF MaskLen20(S) = 2 THEN {} ELSE IF MaskLen20(S) = 6 THEN {0} ELSE {0, 16}
MaskBytes20(S) == BitsToBytes({MaskPos20(i) : i \in S} \cup KBits20(S), MaskLen20(S))

RepairPayload20(W, S, base) ==
  LET x == XorSet(W, S)
  IN SubSeq(x, 1, 8) \o B2(base) \o MaskBytes20(S) \o SubSeq(x, 9, Len(x))

NoFec20 == [ok |-> FALSE, hs |-> 0, rec |-> <<>>, snbase |-> 0, mask |-> {}, body |-> <<>>]
ParseFec20(pl) ==
  IF Len(pl) < 12 THEN NoFec20
  ELSE LET hs == IF pl[11] < 128 THEN 12
                 ELSE IF Len(pl) < 16 THEN 0
                 ELSE IF pl[13] < 128 THEN 16
                 ELSE IF Len(pl) < 24 THEN 0 ELSE 24
       IN IF hs = 0 THEN NoFec20
          ELSE [ok |-> TRUE, hs |-> hs, rec |-> SubSeq(pl, 1, 8), snbase |-> pl[9] * 256 + pl[10],
                mask |-> {PosIdx20(pos) : pos \in BytesToBits(SubSeq(pl, 11, hs)) \ KPositions20},
                body |-> SubSeq(pl, hs + 1, Len(pl))]

\* RFC 8627 6.3: recovery of index i from repair f and every other packet named in its mask; ssrc from the CSRC list
Recover20(f, ssrc, W, i) ==
  Rebuild([snbase |-> f.snbase, ssrc |-> ssrc], XorZ(f.rec \o f.body, XorSet(W, f.mask \ {i})), i)
RecoverFast20(f, ssrc, tot, W, i) ==
  Rebuild([snbase |-> f.snbase, ssrc |-> ssrc], XorZ(f.rec \o f.body, XorZ(tot, Field(W[i + 1]))), i)

\* ------------------------------------------------------------------ clauses on observed packets (fine-grained)
\* rp = canonical record of an observed repair packet, S = the indices it must protect.  Every field is compared with
\* the packet the specification builds, so that one wrong field does not hide the state of the others.
RepairFails20(rp, S, W, cfg, base, seqExpected) ==
  LET pl  == rp.pl
      E   == RepairPayload20(W, S, base)
      f   == ParseFec20(pl)
      tot == XorSet(W, f.mask)
      Sub(a, lo, hi) == IF Len(a) >= hi THEN SubSeq(a, lo, hi) ELSE <<-1>>
  IN  (IF rp.ssrc = cfg.fecssrc /\ rp.pt = cfg.fecpt THEN {} ELSE {"fec-ssrc-pt"})
      \cup (IF seqExpected < 0 \/ rp.seq = seqExpected THEN {} ELSE {"fec-seq"})
      \cup (IF ~rp.p /\ ~rp.x THEN {} ELSE {"fec-rtp-header"})
      \cup (IF rp.csrc = <<cfg.ssrc>> THEN {} ELSE {"fec-csrc-names-stream"})
      \* a repair payload shorter than FEC header + longest protected packet cannot hold both: its bytes are not
      \* interpreted as header fields (that would only produce noise)
      \cup (IF Len(pl) < Len(E) THEN {"fec-header-missing-or-truncated"}
            ELSE (IF pl[1] < 64 THEN {} ELSE {"r-f-bits"})
                 \cup (IF pl[1] % 64 = E[1] /\ pl[2] = E[2] THEN {} ELSE {"p-x-cc-m-pt-recovery"})
                 \cup (IF Sub(pl, 3, 4) = SubSeq(E, 3, 4) THEN {} ELSE {"length-recovery"})
                 \cup (IF Sub(pl, 5, 8) = SubSeq(E, 5, 8) THEN {} ELSE {"ts-recovery"})
                 \cup (IF Sub(pl, 9, 10) = SubSeq(E, 9, 10) THEN {} ELSE {"sn-base"})
                 \cup (IF f.ok /\ f.hs = 10 + MaskLen20(S) THEN {} ELSE {"k-bits-header-size"})
                 \cup (IF f.ok /\ f.mask = S THEN {} ELSE {"mask"})
                 \cup (IF f.ok /\ f.body = SubSeq(E, 11 + MaskLen20(S), Len(E)) THEN {} ELSE {"repair-payload"})
                 \cup (IF f.ok /\ f.mask # {} /\ f.mask \subseteq 0 .. Len(W) - 1
                          /\ \A i \in f.mask : RecoverFast20(f, cfg.ssrc, tot, W, i) = W[i + 1]
                       THEN {} ELSE {"single-loss-recovery"}))

NumRepairs20(cfg, media, n) ==
  IF Enabled(cfg) /\ Accepted20(Len(media), n) /\ Consecutive(media) THEN Min(Len(media), n) ELSE 0

BatchFails20(cfg, media, n, reps, first) ==
  LET k    == Len(media)
      W    == Mat([i \in 1 .. k |-> Wire(media[i])], k)
      want == NumRepairs20(cfg, media, n)
      f0   == IF first >= 0 \/ reps = <<>> THEN first ELSE reps[1].seq
      upto == IF n >= 1 THEN Min(Len(reps), Min(k, n)) ELSE 0
  IN (IF Len(reps) = want THEN {} ELSE {<<0, "repair-count">>})
     \cup UNION {{<<r, c>> : c \in RepairFails20(reps[r], Cover(k, n, r - 1), W, cfg, media[1].seq, (f0 + r - 1) % M)}
                 : r \in 1 .. upto}
=============================================================================

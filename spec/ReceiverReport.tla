-------------------------- MODULE ReceiverReport --------------------------
(* Property-level specification of the RTCP receiver report generator (C06).
   pkg/report/receiver_stream.go + the tick body / SR reader of pkg/report/receiver_interceptor.go.

   State is kept over *true* quantities: `hi` is the true (unbounded) extended highest sequence number
   (cycles = hi \div M, seq = hi % M), RTP timestamps are true RTP time as a small signed offset from a
   base that only the harness knows (so the jitter recurrence is wrap-safe by construction: the wire
   carries (base + offset) mod 2^32), clocks are integer milliseconds.

   One operator per linearization point:
     RFresh                      BindRemoteStream (newReceiverStream)
     RtpStep(c, x, w, ts, arr)   receiverStream.processRTP  (w = 16-bit wire number, ts = true RTP time, arr = ms)
     SrStep(x, mid, now)         receiverStream.processSenderReport (mid = <<hi16, lo16>> of the middle 32 NTP bits)
     ReportOut / ReportStep      receiverStream.generateReport
   c = [rate |-> RTP clock rate in Hz]  (per-stream configuration)

   Loss accounting.  The receiver remembers the reception status of the Hist numbers up to the highest.
   `miss` = numbers of the current report interval (lastRep, hi) inside the history that were not received,
   `old`  = how many not-received numbers of the current interval have already left the history.
   interval loss = old + |miss|  =  |{n \in (lastRep, hi) : n not received}|  as long as no packet arrives
   later than Hist behind the highest (such a packet is outside the history and has no effect).

   As-found model of the recorded finding C06.IntervalBeyondHistory (a NAMED deviation, not part of the property).
   The code keeps the reception status in a ring of Hist bits indexed by number % Hist; `ring` is the set of slots
   whose bit is set, maintained exactly as processRTP does (set the packet's own slot, THEN clear the slots of the
   skipped numbers - which wipes the packet's own slot again after a jump of more than Hist).  generateReport counts
   the numbers of (lastRep, hi) whose SLOT is clear: AsFoundLost.  While the interval is no longer than the history
   both counts agree (lemma AsFoundAgrees of MC_ReceiverReport); beyond it the slots have been reused, the report is
   wrong in exactly the way AsFoundLost says, and the trace validator accepts THAT value as the known finding and
   nothing else - a different error in the same region is still a mismatch. *)
EXTENDS Integers, FiniteSets, Sequences, TLC

CONSTANTS M,      \* sequence-number modulus (65536)
          Hist,   \* reception history in packets (8192)
          Cap,    \* saturation of the cumulative-lost counter (2^24 - 1)
          JS      \* fixed-point scale of the jitter accumulator (256; D * JS must stay below 2^31)
H == M \div 2

Max(a, b) == IF a > b THEN a ELSE b
Min(a, b) == IF a < b THEN a ELSE b
Abs(a)    == IF a < 0 THEN -a ELSE a

RFresh == [started |-> FALSE, hi |-> 0, lastRep |-> 0, miss |-> {}, old |-> 0, total |-> 0, ring |-> {},
           J |-> 0, pTs |-> 0, pArr |-> 0, hasSr |-> FALSE, lsr |-> <<0, 0>>, srMs |-> 0]

\* ---- the ring of the code (as found) ----
Slot(n) == n % Hist
\* delReceived for every number of a+1 .. b-1 (a < b): a slot is cleared iff one of these numbers maps to it
RingClear(r, a, b) == LET n == b - a - 1 IN
  IF n >= Hist THEN {} ELSE {sl \in r : (sl - Slot(a + 1)) % Hist >= n}
\* how many numbers of a .. b map to slot sl
CountCong(a, b, sl) == IF b < a THEN 0 ELSE ((b - sl) \div Hist) - ((a - 1 - sl) \div Hist)

\* the highest moves forward by d (0 < d < H): the numbers in between become missing, what leaves the history
\* while still unreported is remembered as a count
Forward(x, d) ==
  LET nh    == x.hi + d
      edge  == nh - Hist                                   \* numbers <= edge are outside the history
      out   == {m \in x.miss : m <= edge}
      gapIn == Max(x.hi + 1, edge + 1) .. (nh - 1)
      gapOutN == Max(0, Min(nh - 1, edge) - x.hi)
  IN [x EXCEPT !.hi = nh, !.miss = (x.miss \ out) \cup gapIn, !.old = x.old + Cardinality(out) + gapOutN,
               !.ring = RingClear(x.ring \cup {Slot(nh)}, x.hi, nh)]

\* a packet that is not newer than the highest: true number t <= hi
Late(x, t) == IF t > x.hi - Hist THEN [x EXCEPT !.miss = @ \ {t}, !.ring = @ \cup {Slot(t)}] ELSE x

\* RFC 3550 A.8 in fixed point: D = |(arrival difference in RTP units) - (RTP time difference)|
\* (elapsed ms * rate) \div 1000 computed as seconds * rate + (ms remainder * rate) \div 1000 (the same value, 32-bit safe)
Scale(ms, rate) == (ms \div 1000) * rate + ((ms % 1000) * rate) \div 1000
JitterD(c, x, ts, arr) == Abs(Scale(arr - x.pArr, c.rate) - (ts - x.pTs))

RtpStep(c, x, w, ts, arr) ==
  IF ~x.started
  THEN [x EXCEPT !.started = TRUE, !.hi = w, !.lastRep = w - 1, !.pTs = ts, !.pArr = arr, !.ring = @ \cup {Slot(w)}]
  ELSE LET d == (w - x.hi) % M
           y == IF d > 0 /\ d < H THEN Forward(x, d) ELSE Late(x, x.hi - ((M - d) % M))
           D == JitterD(c, x, ts, arr)
       IN [y EXCEPT !.J = x.J + (D * JS - x.J) \div 16, !.pTs = ts, !.pArr = arr]

SrStep(x, mid, now) == [x EXCEPT !.hasSr = TRUE, !.lsr = mid, !.srMs = now]

Expected(x)     == x.hi - x.lastRep
IntervalLost(x) == x.old + Cardinality(x.miss)
Fraction(x)     == IF Expected(x) = 0 THEN 0 ELSE (256 * IntervalLost(x)) \div Expected(x)
NewTotal(x)     == Min(x.total + IntervalLost(x), Cap)
Dlsr(x, now)    == IF ~x.hasSr THEN 0
                   ELSE LET d == now - x.srMs IN (d \div 1000) * 65536 + ((d % 1000) * 65536) \div 1000

\* the deterministic part of a report block, and the two fields that carry a derived tolerance of +-1
ReportOut(x, now) ==
  [cyc |-> x.hi \div M, seq |-> x.hi % M, frac |-> Fraction(x), tot |-> NewTotal(x),
   lsr |-> x.lsr, jit |-> x.J \div JS, dlsr |-> Dlsr(x, now)]
Near(a, b) == a - b <= 1 /\ b - a <= 1
\* blk: the observed block [cyc, seq, frac, tot, lsr, jit, dlsr]
ReportAccept(x, now, blk) ==
  LET e == ReportOut(x, now) IN
  /\ blk.cyc = e.cyc /\ blk.seq = e.seq /\ blk.frac = e.frac /\ blk.tot = e.tot /\ blk.lsr = e.lsr
  /\ Near(blk.jit, e.jit)
  /\ IF x.hasSr THEN Near(blk.dlsr, e.dlsr) ELSE blk.dlsr = 0

ReportStep(x) == [x EXCEPT !.lastRep = x.hi, !.miss = {}, !.old = 0, !.total = NewTotal(x)]

\* ---- what the code reports (as found): the numbers of (lastRep, hi) whose slot is clear ----
RECURSIVE SetSlots(_, _, _, _)
SetSlots(r, a, b, acc) == IF r = {} THEN acc
                          ELSE LET sl == CHOOSE z \in r : TRUE IN SetSlots(r \ {sl}, a, b, acc + CountCong(a, b, sl))
AsFoundLost(x) ==
  IF Expected(x) = 0 THEN 0
  ELSE (Expected(x) - 1) - SetSlots(x.ring, x.lastRep + 1, x.hi - 1, 0)
AsFoundOut(x, now) ==
  [ReportOut(x, now) EXCEPT !.frac = IF Expected(x) = 0 THEN 0 ELSE (256 * AsFoundLost(x)) \div Expected(x),
                            !.tot = Min(x.total + AsFoundLost(x), Cap)]
AsFoundAccept(x, now, blk) ==
  LET e == AsFoundOut(x, now) IN
  /\ blk.cyc = e.cyc /\ blk.seq = e.seq /\ blk.frac = e.frac /\ blk.tot = e.tot /\ blk.lsr = e.lsr
  /\ Near(blk.jit, e.jit)
  /\ IF x.hasSr THEN Near(blk.dlsr, e.dlsr) ELSE blk.dlsr = 0
AsFoundStep(x) == [ReportStep(x) EXCEPT !.total = Min(x.total + AsFoundLost(x), Cap)]

\* ---- deviation predicates (names used as tags in KNOWN_FINDINGS.jsonl) ----
\* a report whose interval is longer than the reception history
IntervalBeyondHistory(x) == x.started /\ x.hi - x.lastRep > Hist
\* a packet at least Hist behind the highest (or a jump of >= M/2)
LateBeyondHistory(x, w) == x.started /\ LET d == (w - x.hi) % M IN (d = 0 \/ d >= H) /\ (M - d) % M >= Hist
=============================================================================

-------------------------- MODULE MC_FlexFecDec --------------------------
(* (M) model check of the FlexFEC-03 decoder design (FlexFecDec) and of the round trip.
   A stream of NB successive batches, batch j of k_j media packets (tiny, every one different: four header shapes, payloads of
   0..2 bytes) protected by n_j repair packets BUILT BY THE SPECIFICATION'S ENCODER (FlexFec!RepairPayload over the interleaved
   covers), media numbers from Bases (one wrapping), repair numbers from FBases (one wrapping), goes through a lossy channel:

   Free mode (MC_FlexFecDec.cfg): the channel delivers ANY packet of the stream at ANY time, any number of times - every loss
   subset, every arrival order (repair before media, reversed, ...), every duplication.  With limits that do not bind:
     ClosureReached    after every delivery, received + returned = the peeling closure of what was delivered, so the result
                       does not depend on the arrival order
     NoWrongRecovery   every returned packet is the original, byte for byte
     Clean             nothing is returned twice, nothing is returned that had been received
     GotSound, BufOrdered
   Negative control (MC_FlexFecDec_neg.cfg): a decoder that also "recovers" with two packets missing violates NoWrongRecovery.

   Window mode (MC_FlexFecDec_lim.cfg): scaled-down limits (reset 3, 2 repair packets, keep 4, half space 15 of M = 64), the
   channel loses packets and reorders within a window, an optional big gap in front of a batch:
     BufBounded, BufOrdered, GotSound, Clean (no wrong packet is ever returned although packets are forgotten)
   Reachability controls (MC_FlexFecDec_reach.cfg with INVARIANT NoReset | NoHalf | NoFecFull | NoMedFull | NoGapNoReset, each
   expected to be violated): every limit mechanism fires in that model (reset, half-space discard, repair buffer overflow,
   media buffer overflow) and so does the design weakness GapNoReset (a big gap at a fill level other than L.reset). *)
EXTENDS FlexFecDec
CONSTANTS MaxK, MaxN, NB, Bases, FBases, Gaps, Window, Lim, Track
VARIABLES pool, dst, del, ret, bad, pos
vars == <<pool, dst, del, ret, bad, pos>>

BigLim   == [reset |-> 100, fecmax |-> 100, keep |-> 192, half |-> (M \div 4) - 1, miss |-> 1]
TwoLim   == [BigLim EXCEPT !.miss = 2]
SmallLim == [reset |-> 3, fecmax |-> 2, keep |-> 4, half |-> (M \div 4) - 1, miss |-> 1]

Ssrc == <<28, 100, 0, 2>>
P    == [pssrc |-> Ssrc]
Tpl(s) ==
  CASE s = 0 -> [p |-> FALSE, ps |-> 0, x |-> FALSE, m |-> FALSE, pt |-> 96, ts |-> <<0, 0, 0, 1>>, csrc |-> <<>>,
                 xp |-> 0, xs |-> <<>>]
    [] s = 1 -> [p |-> TRUE, ps |-> 2, x |-> FALSE, m |-> TRUE, pt |-> 127, ts |-> <<255, 0, 1, 0>>, csrc |-> <<>>,
                 xp |-> 0, xs |-> <<>>]
    [] s = 2 -> [p |-> FALSE, ps |-> 0, x |-> TRUE, m |-> FALSE, pt |-> 0, ts |-> <<0, 0, 0, 1>>,
                 csrc |-> << <<0, 0, 0, 9>> >>, xp |-> OneByteProfile, xs |-> <<[id |-> 1, d |-> <<255>>]>>]
    [] s = 3 -> [p |-> TRUE, ps |-> 1, x |-> TRUE, m |-> TRUE, pt |-> 96, ts |-> <<0, 128, 0, 0>>, csrc |-> <<>>,
                 xp |-> TwoByteProfile, xs |-> <<[id |-> 7, d |-> <<>>], [id |-> 2, d |-> <<0, 255, 0>>]>>]
\* media packet number j of the stream (0-based): all different
Pkt(j, seq) == LET t == Tpl(j % 4) IN
  [p |-> t.p, ps |-> t.ps, x |-> t.x, m |-> t.m, pt |-> t.pt, seq |-> seq, ts |-> <<0, 0, j \div 256, j % 256>>, ssrc |-> Ssrc,
   csrc |-> t.csrc, xp |-> t.xp, xs |-> t.xs, pl |-> Mat([i \in 1 .. (j % 3) |-> (37 * j + 11 * i + 1) % 256], j % 3)]

\* the packets of one batch as the channel sees them: k media packets, then the repair packets of the spec's encoder
BatchPkts(j0, base, k, n, fseq) ==
  LET W == Mat([i \in 1 .. k |-> Wire(Pkt(j0 + i - 1, (base + i - 1) % M))], k)
      C == Covers(k, n)
  IN Mat([i \in 1 .. k |-> [t |-> "m", seq |-> (base + i - 1) % M, w |-> W[i], pl |-> <<>>, cov |-> {}]], k)
     \o Mat([r \in 1 .. Len(C) |-> [t |-> "f", seq |-> (fseq + r - 1) % M, w |-> <<>>,
                                    pl |-> RepairPayload(W, C[r], Ssrc, base), cov |-> {(base + i) % M : i \in C[r]}]], Len(C))
RECURSIVE Stream(_, _, _, _, _)
Stream(kn, gaps, j0, base, fseq) ==
  IF kn = <<>> THEN <<>>
  ELSE LET k == kn[1][1]  n == kn[1][2]  b == (base + gaps[1]) % M      \* a gap: that many media and twice as many repair numbers are skipped
       IN BatchPkts(j0, b, k, n, (fseq + 2 * gaps[1]) % M) \o Stream(Tail(kn), Tail(gaps), j0 + k, (b + k) % M, (fseq + 2 * gaps[1] + Min(k, n)) % M)

\* free mode: every (k, n) per batch; window mode (Window > 1): the same (k, n) for all batches and at most one gap
Shapes   == IF Window = 1 THEN [1 .. NB -> (1 .. MaxK) \X (1 .. MaxN)]
            ELSE {[j \in 1 .. NB |-> kn] : kn \in (1 .. MaxK) \X (1 .. MaxN)}
GapPlans == IF Window = 1 THEN [1 .. NB -> Gaps]
            ELSE {[j \in 1 .. NB |-> IF j = at THEN g ELSE 0] : at \in 1 .. NB, g \in Gaps}
Init == /\ \E base \in Bases, fseq \in FBases, kn \in Shapes, gaps \in GapPlans : pool = Stream(kn, gaps, 0, base, fseq)
        /\ dst = EmptyDec /\ del = {} /\ ret = {} /\ bad = {} /\ pos = 1

MediaOf(I) == {pool[i].seq : i \in {x \in I : pool[x].t = "m"}}
CoverOf(I) == {pool[i].cov : i \in {x \in I : pool[x].t = "f"}}
Orig(seq)  == LET I == {i \in 1 .. Len(pool) : pool[i].t = "m" /\ pool[i].seq = seq}
              IN IF I = {} THEN <<>> ELSE pool[CHOOSE i \in I : TRUE].w
Range(s)   == {s[i] : i \in 1 .. Len(s)}

Flags(p, r) ==
  (IF \E q \in Range(r.out) : q.w # Orig(q.seq) THEN {"wrong"} ELSE {})
  \cup (IF ResetApplies(Lim, dst, p) THEN {"reset"} ELSE {})
  \cup (IF GapNoReset(Lim, dst, p) THEN {"gapnoreset"} ELSE {})
  \cup (IF HalfDrops(Lim, dst, p) THEN {"half"} ELSE {})
  \cup (IF FecOverflows(Lim, dst, p, r.st) THEN {"fecfull"} ELSE {})
  \cup (IF MedOverflows(Lim, dst, p, r.st) THEN {"medfull"} ELSE {})

\* free mode: anything, any time, again and again
DeliverFree(i) ==
  LET p == pool[i]  r == Dec(Lim, P, dst, p)  out == Range(r.out) IN
  /\ dst' = r.st /\ del' = del \cup {i} /\ ret' = ret \cup out
  /\ bad' = bad \cup (IF \E q \in out : q.seq \in {x.seq : x \in ret} THEN {"returned-twice"} ELSE {})
                \cup (IF \E q \in out : q.seq \in MediaOf(del) THEN {"returned-a-received-packet"} ELSE {})
                \cup (IF Cardinality(out) # Len(r.out) THEN {"returned-twice"} ELSE {})
  /\ UNCHANGED <<pool, pos>>
NextFree == \E i \in 1 .. Len(pool) : DeliverFree(i)

\* window mode: in order with loss, reordering and duplication inside a window of Window packets
NextWin ==
  \/ /\ pos <= Len(pool) /\ pos' = pos + 1 /\ UNCHANGED <<pool, dst, del, ret, bad>>
  \/ \E i \in pos .. Min(pos + Window - 1, Len(pool)) :
       LET p == pool[i]  r == Dec(Lim, P, dst, p) IN
       /\ dst' = r.st /\ bad' = bad \cup (IF Track THEN Flags(p, r) ELSE Flags(p, r) \cap {"wrong"})
       /\ UNCHANGED <<pool, del, ret, pos>>

\* ---- invariants ----
ClosureReached  == MediaOf(del) \cup {q.seq : q \in ret} = Closure(MediaOf(del), CoverOf(del))
NoWrongRecovery == \A q \in ret : q.w = Orig(q.seq)
Clean           == bad \cap {"wrong", "returned-twice", "returned-a-received-packet"} = {}
GotSound        == \A i \in 1 .. Len(dst.fec) : \A s \in DOMAIN dst.fec[i].got : dst.fec[i].got[s] = Orig(s)
BufOrdered      == Ordered(dst.med) /\ Ordered(dst.fec)
BufBounded      == Len(dst.med) <= Lim.keep /\ Len(dst.fec) <= Lim.fecmax
NoFlag(f)       == f \notin bad
NoReset == NoFlag("reset")  NoHalf == NoFlag("half")  NoFecFull == NoFlag("fecfull")  NoMedFull == NoFlag("medfull")
NoGapNoReset == NoFlag("gapnoreset")
=============================================================================

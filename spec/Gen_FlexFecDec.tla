------------------------- MODULE Gen_FlexFecDec -------------------------
(* (G) round-trip script generator for the FlexFEC-03 decoder (growth of C14).  A behaviour is a sequence of L batch plans pushed
   through ONE encoder pair and ONE decoder:
      [k, n, gap, fgap, rows, sh, ln, steps]
        k, n     the batch: k consecutive media packets protected by n repair packets of encoder 0 (interleaved "columns")
        gap      media numbers skipped in front of the batch (0: it continues the previous one; the first batch starts at
                 Base + gap); fgap: repair numbers encoder 0 burns in front of it (packets that never reach the decoder)
        rows     0, or the row length of a second protection by encoder 1 (consecutive groups of `rows` packets, one repair packet
                 each): rows x columns overlap, so recovery needs more than one round of peeling
        sh, ln   per-packet header shape / payload length class ids (as in Gen_FlexFec)
        steps    what the channel delivers after the batch was encoded, in order:
                 [t, b, i, mut]   t = "m" media packet i, "f" column repair packet i, "g" row repair packet i, "x" a packet of
                                  a foreign SSRC; b = 0 this batch, 1 the previous one (late arrivals);
                                  mut = byte operations applied to the repair payload before delivery (header error cases)
   Loss patterns (LP) and arrival orders (OP) are chosen at the boundaries of the recovery rule: nothing lost; first / last
   packet; one packet in EVERY column (all recoverable); two in one column (not recoverable); a packet and its repair packet;
   everything; an L-shaped loss that needs iterated peeling through rows and columns.  Orders: in order; repair packets
   first; everything reversed; media descending; repair packets in the middle of ascending / descending media; every packet
   twice; lost packets arriving late; header-error copies of every repair packet in front of the intact one.
   Long streams (the 100 / 100 / 192 limits, the half-space discard, the reset): the check driver chains 60-120 of the plans
   enumerated here for small k at random (seeded) and puts big gaps into the media numbers (gap) and the repair numbers (fgap). *)
EXTENDS FlexFec, Json
CONSTANTS Ks, Bases, LPs, OPs, SPs, LPats, NumShapes, NumLens, L
VARIABLES hist
vars == <<hist>>

NSet(k) == {1, 2, 3, k - 1, k, k + 1} \cap 1 .. 110
ShapeAt(sp, k, i) == CASE sp = 0 -> 0
                       [] sp = 1 -> (i - 1) % NumShapes
                       [] sp = 2 -> IF i = k THEN NumShapes - 1 ELSE 0
                       [] sp = 3 -> IF i = 1 THEN 3 % NumShapes ELSE (i % 2)
                       [] sp = 4 -> ((i - 1) * 5 + 2) % NumShapes
LenAt(lp, k, i)   == CASE lp = 0 -> 2 % NumLens
                       [] lp = 1 -> (i - 1) % NumLens
                       [] lp = 2 -> IF i = k THEN NumLens - 1 ELSE (i - 1) % 2
                       [] lp = 3 -> IF i = 1 THEN NumLens - 1 ELSE 0
                       [] lp = 4 -> ((i - 1) * 3 + 1) % NumLens

\* ------------------------------------------------------------------ repair packets of a plan
NCol(k, n)     == Min(k, n)
NRow(k, rows)  == IF rows = 0 THEN 0 ELSE (k + rows - 1) \div rows
RowOf(k, rows, x) == {i \in 0 .. k - 1 : i \div rows = x}
HdrSize(S)     == 18 + MaskLen(S)

\* ------------------------------------------------------------------ loss patterns: [m |-> lost media, f |-> lost column repairs]
Loss(lp, k, n, rows) ==
  CASE lp = 0 -> [m |-> {}, f |-> {}]
    [] lp = 1 -> [m |-> {0}, f |-> {}]
    [] lp = 2 -> [m |-> {k - 1}, f |-> {}]
    [] lp = 3 -> [m |-> 0 .. NCol(k, n) - 1, f |-> {}]                      \* one in every column
    [] lp = 4 -> [m |-> {0, n} \cap 0 .. k - 1, f |-> {}]                   \* two in column 0 (if it has two)
    [] lp = 5 -> [m |-> {0}, f |-> {0}]
    [] lp = 6 -> [m |-> 0 .. k - 1, f |-> {}]
    [] lp = 7 -> [m |-> {i \in 0 .. k - 1 : i < n \/ i % n = 0}, f |-> {}]  \* first row and first column
    [] lp = 8 -> [m |-> {i \in 0 .. k - 1 : i % 2 = 1}, f |-> {NCol(k, n) - 1}]

\* ------------------------------------------------------------------ header error cases (byte operations on the repair payload)
Op(o, i, v) == [op |-> o, i |-> i, v |-> v]
Muts(hs) ==
  << <<Op("or", 0, 128)>>,                       \* R bit
     <<Op("or", 0, 64)>>,                        \* F bit
     <<Op("set", 8, 2)>>,                        \* two SSRCs
     <<Op("set", 8, 0)>>,                        \* no SSRC
     <<Op("trunc", 19, 0)>>,                     \* shorter than the smallest header
     <<Op("xor", 12, 1)>>,                       \* names another SSRC
     <<Op("set", 9, 255), Op("set", 10, 170), Op("set", 11, 1)>>,          \* reserved octets: must NOT matter
     IF hs = 20 THEN <<Op("set", 18, 128), Op("set", 19, 0)>>              \* empty mask
     ELSE <<Op("trunc", 23, 0)>>,                                          \* the announced second mask field is missing
     IF hs = 32 THEN <<Op("trunc", 31, 0)>> ELSE <<Op("or", 0, 192)>>,     \* the announced third mask field is missing
     IF hs = 32 THEN <<Op("and", 24, 127)>> ELSE <<Op("set", 8, 255)>> >>  \* no k bit on the last field
Benign(mi) == mi = 7

\* ------------------------------------------------------------------ arrival orders
St(t, b, i, mut) == [t |-> t, b |-> b, i |-> i, mut |-> mut]
Asc(S, hi)  == SelectSeq(Mat([x \in 1 .. hi |-> x - 1], hi), LAMBDA x : x \in S)
Rev(s)      == Mat([i \in 1 .. Len(s) |-> s[Len(s) + 1 - i]], Len(s))
Each(t, b, s) == Mat([i \in 1 .. Len(s) |-> St(t, b, s[i], <<>>)], Len(s))
Twice(s)    == Mat([i \in 1 .. 2 * Len(s) |-> s[(i + 1) \div 2]], 2 * Len(s))
Steps(op, lp, k, n, rows) ==
  LET ls == Loss(lp, k, n, rows)
      ms == Asc((0 .. k - 1) \ ls.m, k)                    \* surviving media, ascending
      fs == Asc((0 .. NCol(k, n) - 1) \ ls.f, NCol(k, n))  \* surviving column repairs
      gs == Asc(0 .. NRow(k, rows) - 1, NRow(k, rows))     \* row repairs
      M0 == Each("m", 0, ms)
      F0 == Each("f", 0, fs) \o Each("g", 0, gs)
      h  == Len(ms) \div 2
  IN CASE op = 0 -> M0 \o F0
       [] op = 1 -> F0 \o M0
       [] op = 2 -> Rev(M0 \o F0)
       [] op = 3 -> Rev(M0) \o F0
       [] op = 4 -> SubSeq(M0, h + 1, Len(M0)) \o F0 \o SubSeq(M0, 1, h)              \* newer half, repairs, older half
       [] op = 5 -> Twice(M0 \o F0)
       [] op = 6 -> M0 \o F0 \o Each("m", 0, Asc(ls.m, k)) \o Each("f", 0, Asc(ls.f, NCol(k, n))) \o <<St("x", 0, 0, <<>>)>> \o F0
       [] op = 7 -> M0 \o Concat(Mat([j \in 1 .. Len(fs) |->
                            LET mi == ((fs[j] + k) % 10) + 1
                                mu == Muts(HdrSize(Cover(k, n, fs[j])))[mi]
                            IN <<St("f", 0, fs[j], mu)>> \o (IF Benign(mi) THEN <<>> ELSE <<St("f", 0, fs[j], <<>>)>>)], Len(fs)))
                       \o Each("g", 0, gs)
       [] op = 8 -> Rev(SubSeq(M0, 1, h)) \o F0 \o Rev(SubSeq(M0, h + 1, Len(M0)))     \* descending halves around the repairs

\* the lost packets of the previous plan arrive late, in front of this plan's packets
Late(prev) == LET ls == Loss(prev.lp, prev.k, prev.n, prev.rows)
              IN Each("m", 1, Asc(ls.m, prev.k)) \o Each("f", 1, Asc(ls.f, NCol(prev.k, prev.n)))

Plan(k, n, gap, fgap, rows, sp, lpat, lp, op, pre) ==
  [k |-> k, n |-> n, gap |-> gap, fgap |-> fgap, rows |-> rows, lp |-> lp, op |-> op,
   sh |-> Mat([i \in 1 .. k |-> ShapeAt(sp, k, i)], k), ln |-> Mat([i \in 1 .. k |-> LenAt(lpat, k, i)], k),
   steps |-> pre \o Steps(op, lp, k, n, rows)]

RowsFor(k, n) == IF k >= 4 /\ k <= 16 /\ n >= 2 /\ n < k THEN {0, n} ELSE {0}
Gaps == {0, 150}

Init == hist = <<>>
\* the first plan ranges over the whole grid; a later batch keeps the stream's (k, n, rows) - what changes is the loss, the
\* order, a gap in front of it and whether the previous batch's lost packets turn up late
Next == /\ Len(hist) < L
        /\ \E sp \in SPs, lpat \in LPats, lp \in LPs, op \in OPs :
             IF hist = <<>>
             THEN \E k \in Ks : \E n \in NSet(k) : \E rows \in RowsFor(k, n) : \E b \in Bases :
                    hist' = <<Plan(k, n, b, 0, rows, sp, lpat, lp, op, <<>>)>>
             ELSE LET prev == hist[Len(hist)] IN
                  \E gap \in Gaps, late \in {FALSE, TRUE} :
                    /\ late => Loss(prev.lp, prev.k, prev.n, prev.rows).m # {}
                    /\ hist' = Append(hist, Plan(prev.k, prev.n, gap, 0, prev.rows, sp, lpat, lp, op,
                                                 IF late THEN Late(prev) ELSE <<>>))
Leaf    == IF Len(hist) = L THEN PrintT(<<"TRACE", ToJson(hist)>>) /\ FALSE ELSE TRUE
=============================================================================

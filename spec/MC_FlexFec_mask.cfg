INIT InitMask
NEXT NextMask
CONSTANTS
  M = 65536
  MaxK = 0
  MaxN = 0
  MaxLen = 0
  Shapes = {0}
  Bases = {0, 65534}
  Mutant = "none"
INVARIANTS CoverAll Unrepresentable
CHECK_DEADLOCK FALSE

INIT Init
NEXT Next
CONSTANTS
  K = 5
  SecMod = 65536
  Suite = "quick"
CONSTRAINT Leaf
CHECK_DEADLOCK FALSE

---------------------------- MODULE FlexFecDec ----------------------------
(* Growth of C14: the FlexFEC-03 DECODER and the round trip encoder -> lossy channel -> decoder.
   pkg/flexfec/flexfec_decoder_03.go (fecDecoder: DecodeFec, insertPacket, insertMediaPacket, insertFECPacket,
   updateCoveringFecPackets, attemptRecovery, recoverPacket, discardOldRecoveredPackets, parseFlexFEC03Header, decodeMask).
   The decoder is documented as "WIP ... used for testing purposes": nothing here decides C14; divergences are notes.

   The decoder as an abstract machine over wire residues (M = 65536 on the wire; scaled down for model checking):
     med   the known media packets, oldest first: <<[seq, w]>>, w = RFC 3550 wire form (bytes) - received or recovered
     fec   the received repair packets, oldest repair number first:
           <<[seq, f, prot, got, al, dead]>>   f    = parsed FEC header (FlexFec!ParseFec)
                                                prot = the set of media numbers it protects (SN base + mask position)
                                                got  = the protected packets it knows: number -> wire form.  A repair
                                                       packet REMEMBERS a packet it has seen even after that packet left med
                                                al, dead = bookkeeping, see AliasHazard / Peel
   One call Dec(L, P, st, p) = DecodeFec(p):
     1. reset on a big gap     p is a media packet, med holds exactly L.reset packets and p is more than L.reset numbers away
                               from the newest of them: both buffers are emptied
     2. half-space discard     p is a repair packet: the leading (oldest) repair packets whose number is more than L.half away
                               from p's are dropped (circular distance)
     3. insert                 media: ignored if its number is in med, else sorted in and shown to every repair packet;
                               repair: ignored if its repair number is buffered, if the FEC header does not parse (< 20 octets,
                               R or F bit, SSRC count # 1, a missing optional mask field, no k bit at all), if it names another
                               SSRC or no packet at all; else sorted in with got = what med holds of prot; at most L.fecmax kept
     4. med keeps the newest L.keep packets
     5. peeling                while some repair packet misses EXACTLY ONE protected packet: XOR it out (FlexFec!Rebuild),
                               return it, add it to med (4. applies) and show it to every repair packet
   L = [reset, fecmax, keep, half, miss]; the code's values are RealLim (100 / 100 / 192 / 0x3fff); miss = 1 (2 = the negative
   control "recovery attempted with two missing").  P = [pssrc] the protected SSRC (4 bytes).

   Round trip (stated in MC_FlexFecDec, checked on the real code by Trace_FlexFecDec): for a batch encoded per FlexFec.tla and
   any loss pattern and arrival order within the buffer limits, the packets returned are exactly the peeling closure
   Closure(received media, covers of the received repair packets) minus the received ones, each equal to the original byte
   for byte; nothing outside the closure is returned. *)
EXTENDS FlexFec

RealLim == [reset |-> 100, fecmax |-> 100, keep |-> 192, half |-> 16383, miss |-> 1]

\* ------------------------------------------------------------------ circular order on sequence numbers
Fwd(a, b)   == (b - a) % M                                        \* steps forward from a to b
\* b is newer than a (the code's isNewerSeq(a, b))
Newer(a, b) == LET d == Fwd(a, b) IN IF 2 * d = M THEN b > a ELSE d # 0 /\ 2 * d < M
CDist(a, b) == Min(Fwd(a, b), Fwd(b, a))                          \* circular distance (the code's seqDiff)
LDist(a, b) == IF a >= b THEN a - b ELSE b - a                    \* distance of the residues as plain integers

\* s is a sequence of records with a seq field, oldest first; x goes behind everything that is not newer than it
InsPos(s, q)    == Cardinality({i \in 1 .. Len(s) : ~Newer(q, s[i].seq)})
InsSorted(s, x) == LET pos == InsPos(s, x.seq) IN SubSeq(s, 1, pos) \o <<x>> \o SubSeq(s, pos + 1, Len(s))
Seqs(s)         == {s[i].seq : i \in 1 .. Len(s)}
RECURSIVE SumGaps(_, _)
SumGaps(s, i)   == IF i >= Len(s) THEN 0 ELSE Fwd(s[i].seq, s[i + 1].seq) + SumGaps(s, i + 1)
\* the buffer is in a well defined order: strictly ascending and spanning less than half the number space
Ordered(s)      == (\A i \in 1 .. Len(s) - 1 : Newer(s[i].seq, s[i + 1].seq)) /\ 2 * SumGaps(s, 1) < M

\* ------------------------------------------------------------------ state
EmptyDec == [med |-> <<>>, fec |-> <<>>]
Put(g, s, w) == [t \in DOMAIN g \cup {s} |-> IF t = s THEN w ELSE g[t]]
Missing(r)   == r.prot \ DOMAIN r.got

\* what the decoder accepts as a repair packet for the protected stream
DecParse(P, pl) == LET f == ParseFec(pl) IN
                   IF f.ok /\ f.cnt = 1 /\ f.ssrc = P.pssrc /\ f.mask # {} THEN f ELSE NoFec
ProtOf(f)       == {(f.snbase + i) % M : i \in f.mask}

\* ------------------------------------------------------------------ steps
ResetApplies(L, st, p) ==
  p.t = "m" /\ Len(st.med) = L.reset /\ CDist(p.seq, st.med[Len(st.med)].seq) > L.reset

\* number of leading repair packets that are further than L.half from repair number q, under distance Dist
FarPrefix(L, fec, q, Dist(_, _)) ==
  LET near == {i \in 1 .. Len(fec) : Dist(q, fec[i].seq) <= L.half}
  IN IF near = {} THEN Len(fec) ELSE (CHOOSE i \in near : \A j \in near : i <= j) - 1
HalfSpace(L, st, p) ==
  IF p.t = "f" /\ st.fec # <<>>
  THEN [st EXCEPT !.fec = SubSeq(@, FarPrefix(L, @, p.seq, CDist) + 1, Len(@))]
  ELSE st

ShowTo(fec, s, w) == Mat([i \in 1 .. Len(fec) |->
                       IF s \in fec[i].prot THEN [fec[i] EXCEPT !.got = Put(@, s, w), !.al = @ \ {s}] ELSE fec[i]], Len(fec))
Discard(L, med)   == IF Len(med) > L.keep THEN SubSeq(med, Len(med) - L.keep + 1, Len(med)) ELSE med

InsertMedia(st, p) ==
  IF p.seq \in Seqs(st.med) THEN st
  ELSE [med |-> InsSorted(st.med, [seq |-> p.seq, w |-> p.w]), fec |-> ShowTo(st.fec, p.seq, p.w)]

InsertFec(L, P, st, p) ==
  IF p.seq \in Seqs(st.fec) THEN st
  ELSE LET f == DecParse(P, p.pl) IN
       IF ~f.ok THEN st
       ELSE LET prot == ProtOf(f)
                here == prot \cap Seqs(st.med)
                got  == [s \in here |-> st.med[CHOOSE i \in 1 .. Len(st.med) : st.med[i].seq = s].w]
                r    == [seq |-> p.seq, f |-> f, prot |-> prot, got |-> got, al |-> here, dead |-> FALSE]
                all  == InsSorted(st.fec, r)
            IN [st EXCEPT !.fec = IF Len(all) > L.fecmax THEN Tail(all) ELSE all]

\* XOR of the protected bit strings of the packets in S that repair r knows
RECURSIVE XorGot(_, _)
XorGot(g, S) == IF S = {} THEN <<>> ELSE LET s == CHOOSE x \in S : TRUE IN XorZ(Field(g[s]), XorGot(g, S \ {s}))
\* the FlexFEC-03 recovery of one missing packet of r from r and the packets r knows (section 6.3 of the draft)
RecoverBy(r) ==
  LET s == CHOOSE x \in Missing(r) : TRUE
      x == XorZ(r.f.rec \o r.f.body, XorGot(r.got, DOMAIN r.got))
  IN [seq |-> s, w |-> Rebuild(r.f, x, Fwd(r.f.snbase, s))]

\* the code keeps POINTERS INTO the med slice for the packets a repair packet finds there when it arrives (al); inserting
\* an older packet into med later moves the slice elements under those pointers (unless append reallocated)
Shifts(fec, q) == \E i \in 1 .. Len(fec) : \E s \in fec[i].al : Newer(q, s)

Eligible(L, fec) == {i \in 1 .. Len(fec) : ~fec[i].dead /\ Cardinality(Missing(fec[i])) \in 1 .. L.miss}
RECURSIVE Peel(_, _, _, _)
Peel(L, st, out, haz) ==
  LET el == Eligible(L, st.fec) IN
  IF el = {} THEN [st |-> st, out |-> out, haz |-> haz]
  ELSE LET i == CHOOSE x \in el : \A y \in el : x <= y
           q == RecoverBy(st.fec[i])
       IN IF q.w = <<>>         \* the recovered length exceeds what the repair packet carries: it can never be used
          THEN Peel(L, [st EXCEPT !.fec[i].dead = TRUE], out, haz)
          ELSE Peel(L, [med |-> Discard(L, InsSorted(st.med, q)), fec |-> ShowTo(st.fec, q.seq, q.w)],
                    Append(out, q), haz \/ Shifts(st.fec, q.seq))

\* one DecodeFec call: p = [t |-> "m", seq, w] (protected SSRC), [t |-> "f", seq, pl] (repair SSRC), [t |-> "x"] (other)
Dec(L, P, st, p) ==
  LET s1 == IF ResetApplies(L, st, p) THEN EmptyDec ELSE st
      s2 == HalfSpace(L, s1, p)
      s3 == IF p.t = "m" THEN InsertMedia(s2, p) ELSE IF p.t = "f" THEN InsertFec(L, P, s2, p) ELSE s2
      s4 == [s3 EXCEPT !.med = Discard(L, @)]
  IN Peel(L, s4, <<>>, p.t = "m" /\ p.seq \notin Seqs(s2.med) /\ Shifts(s2.fec, p.seq))

\* ------------------------------------------------------------------ which limit mechanism a call exercises (st -> st2 by p)
HalfDrops(L, st, p)         == p.t = "f" /\ st.fec # <<>> /\ FarPrefix(L, st.fec, p.seq, CDist) > 0
FecOverflows(L, st, p, st2) == p.t = "f" /\ Len(st.fec) = L.fecmax /\ ~HalfDrops(L, st, p)
                               /\ p.seq \notin Seqs(st.fec) /\ p.seq \in Seqs(st2.fec)
MedOverflows(L, st, p, st2) == ~ResetApplies(L, st, p) /\ Len(st.med) = L.keep /\ ~(Seqs(st.med) \subseteq Seqs(st2.med))

\* ------------------------------------------------------------------ the peeling closure (order free, on sets of numbers)
RECURSIVE Closure(_, _)
Closure(known, covers) ==
  LET new == UNION {c \ known : c \in {c \in covers : Cardinality(c \ known) = 1}}
  IN IF new = {} THEN known ELSE Closure(known \cup new, covers)

\* ------------------------------------------------------------------ where the code, as read, leaves this machine
\* insertPacket measures the repair-number distance as abs(int(a) - int(b)): not wrap aware
LinearDiscard(L, st, p) == p.t = "f" /\ st.fec # <<>> /\ FarPrefix(L, st.fec, p.seq, LDist) # FarPrefix(L, st.fec, p.seq, CDist)
\* sort.Slice with isNewerSeq is only an order while the buffered numbers span less than half the space
WideSpan(st) == ~Ordered(st.med) \/ ~Ordered(st.fec)
\* the reset test runs only while med holds EXACTLY L.reset packets although med grows to L.keep: a big gap at any other
\* fill level leaves stale packets behind
GapNoReset(L, st, p) == p.t = "m" /\ st.med # <<>> /\ Len(st.med) # L.reset /\ CDist(p.seq, st.med[Len(st.med)].seq) > L.reset
=============================================================================

----------------------------- MODULE Gen_Rebind -----------------------------
(* (G) C11/P5: TLC enumerates
     (interceptor kind) x (knobs: sequence-number base below / across the 2^16 wrap, another stream staying bound meanwhile,
                           StreamInfo variant of the SECOND bind, whether the first life ends with a tick - i.e. whether
                           what it received has been reported / requested / counted when the Unbind comes)
     x (first life H: LH steps over the kind's boundary alphabet HOps, relative to the highest number of that life)
     x (suffix B: first packet at a boundary position relative to H - reusing H's first number, continuing after H's
        highest, one below it, beyond a gap - then LB steps over BOps, relative to the numbers of the new life; "fbold" is
        feedback about a number that only the FIRST life sent).
   checks/c11.py turns a behaviour into a script of the universal harness (steps of the first life are marked so that
   the fresh run skips them).  Offsets d are relative to the base; the harness sends (base + d) mod 2^16. *)
EXTENDS Rebind, Json
CONSTANTS LH, LB, KnobSet, KindSet
VARIABLES hist, kind, knob, phase, hi, sent, sentH, hiH, nH, nB
vars == <<hist, kind, knob, phase, hi, sent, sentH, hiH, nH, nB>>

\* <<base, other stream bound, variant of the second bind, first life ends with a tick>>; KnobsPair covers every pair of values
KnobsPair == {<<100, 0, 0, 0>>, <<65533, 1, 0, 1>>, <<100, 1, 1, 1>>, <<65533, 0, 1, 0>>, <<100, 0, 2, 1>>, <<65533, 1, 2, 0>>}
KnobsFull == {<<b, o, v, t>> : b \in {100, 65533}, o \in {0, 1}, v \in {0, 1, 2}, t \in {0, 1}}
KindsAll == Kinds

HasPkts(k) == "next" \in HOps(k)
\* (kinds with fewer variants / without a second stream take the knob rows projected onto what they have)
KnobsOf(k) == {<<q[1], IF q[2] \in Oths(k) THEN q[2] ELSE 0, IF q[3] \in Variants(k) THEN q[3] ELSE 0,
                 IF "tick" \in HOps(k) THEN q[4] ELSE 0>> : q \in KnobSet}
Init == /\ kind \in KindSet /\ knob \in KnobsOf(kind)
        /\ hist = <<>> /\ phase = 1 /\ hi = -1 /\ sent = {} /\ sentH = {} /\ hiH = -1 /\ nH = 0 /\ nB = 0
Rec(ph, op, d, rep) == [ph |-> ph, op |-> op, d |-> d, rep |-> rep]
Max(a, b) == IF a > b THEN a ELSE b

\* one step of a life over the alphabet ops; the first step of a life with packets is a packet
LifeStep(ph, ops, first) ==
  \E op \in ops :
    /\ first /\ HasPkts(kind) => op \in {"next", "burst"}
    /\ CASE op = "next"  -> /\ hist' = Append(hist, Rec(ph, "pkt", hi + 1, 1))
                            /\ hi' = hi + 1 /\ sent' = sent \cup {hi + 1}
         [] op = "gap"   -> /\ hi >= 0
                            /\ hist' = Append(hist, Rec(ph, "pkt", hi + 3, 1))
                            /\ hi' = hi + 3 /\ sent' = sent \cup {hi + 3}
         [] op = "late"  -> /\ hi - 1 >= 0 /\ (hi - 1) \notin sent
                            /\ hist' = Append(hist, Rec(ph, "pkt", hi - 1, 1))
                            /\ hi' = hi /\ sent' = sent \cup {hi - 1}
         [] op = "burst" -> /\ hist' = Append(hist, Rec(ph, "pkt", hi + 1, 50))
                            /\ hi' = hi + 50 /\ sent' = sent \cup ((hi + 1) .. (hi + 50))
         [] op \in {"fb", "fbnew"} -> /\ hi >= 0
                            /\ hist' = Append(hist, Rec(ph, "fb", hi, 1)) /\ UNCHANGED <<hi, sent>>
         [] op = "fbold" -> /\ (sentH \ sent) # {}
                            /\ hist' = Append(hist, Rec(ph, "fb", CHOOSE d \in sentH \ sent : \A e \in sentH \ sent : e <= d, 1))
                            /\ UNCHANGED <<hi, sent>>
         [] op = "tick"  -> hist' = Append(hist, Rec(ph, "tick", 0, 1)) /\ UNCHANGED <<hi, sent>>

StepH == /\ phase = 1 /\ nH < LH /\ LifeStep(1, HOps(kind), nH = 0) /\ nH' = nH + 1
         /\ UNCHANGED <<kind, knob, phase, sentH, hiH, nB>>
\* Unbind; Bind; the first packet of the new life at a boundary position relative to the first life
Rebind == /\ phase = 1 /\ nH = LH /\ phase' = 2 /\ sentH' = sent /\ hiH' = hi
          /\ LET h == IF knob[4] = 1 THEN Append(hist, Rec(1, "tick", 0, 1)) ELSE hist IN
             IF HasPkts(kind)
             THEN \E d \in {0, hi + 1, Max(hi - 1, 0), hi + 3} :
                    /\ hist' = Append(h, Rec(2, "pkt", d, 1)) /\ hi' = d /\ sent' = {d} /\ nB' = 1
             ELSE /\ hist' = h /\ hi' = -1 /\ sent' = {} /\ nB' = 1
          /\ UNCHANGED <<kind, knob, nH>>
StepB == /\ phase = 2 /\ nB < LB + 1 /\ LifeStep(2, BOps(kind), FALSE) /\ nB' = nB + 1
         /\ UNCHANGED <<kind, knob, phase, sentH, hiH, nH>>
Next == StepH \/ Rebind \/ StepB
Leaf == IF phase = 2 /\ nB = LB + 1
        THEN PrintT(<<"TRACE", ToJson([kind |-> kind, base |-> knob[1], oth |-> knob[2], var |-> knob[3], steps |-> hist])>>) /\ FALSE
        ELSE TRUE
=============================================================================

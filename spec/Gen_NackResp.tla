--------------------------- MODULE Gen_NackResp ---------------------------
(* (G) schedule generator for C04: random walks / exhaustive prefixes of the NackResp protocol at the real
   modulus.  Every behaviour is a schedule of Write / NACK read / job steps / Unbind / Bind / Close that the
   Go harness realises on the real ResponderInterceptor through the verif gates. *)
EXTENDS NackResp, Json
CONSTANTS L
VARIABLES hist
gvars == <<vars, hist>>
WDg == {1, 1, 2, 3, 0, -1, -2, -(Size - 1), -Size, -(Size + 1), Size, Size + 1, 2 * Size, H - 1, H}
NDg == {0, 1, 2, Size - 1, Size, Size + 1, 2 * Size, H, M - 1}
S2 == {1, 2}
C4 == {1, 2, 3, 4}
Ev(a, s, w, j, nums) == [a |-> a, s |-> s, w |-> w, j |-> j, nums |-> nums]
GInit == Init /\ hist = <<>>
GNext ==
  /\ Len(hist) < L
  /\ \/ \E s \in Streams : Bind(s) /\ hist' = Append(hist, Ev("bind", s, 0, 0, <<>>))
     \/ \E s \in Streams : Unbind(s) /\ hist' = Append(hist, Ev("unbind", s, 0, 0, <<>>))
     \/ Close /\ hist' = Append(hist, Ev("close", 0, 0, 0, <<>>))
     \/ \E s \in Streams, d \in WDeltas :
          Write(s, d) /\ hist' = Append(hist, Ev("write", s, (HiOf(s) + d) % M, 0, <<>>))
     \/ \E s \in Streams : \E nums \in NackNums(s) :
          (\E t \in Streams : cur[t] # 0 /\ ring[<<t, cur[t]>>].started) /\ NackRead(s, nums) /\ hist' = Append(hist, Ev("nack", s, 0, Len(jobs) + 1, nums))
     \/ \E j \in DOMAIN jobs : JobStart(j) /\ hist' = Append(hist, Ev("jobstart", 0, 0, j, <<>>))
     \/ \E j \in DOMAIN jobs : JobGet(j) /\ hist' = Append(hist, Ev("jobget", 0, 0, j, <<>>))
     \/ \E j \in DOMAIN jobs : JobEmit(j) /\ hist' = Append(hist, Ev("jobemit", 0, 0, j, <<>>))
Emit == IF Len(hist) = L THEN PrintT(<<"TRACE", ToJson(hist)>>) ELSE TRUE
Leaf == IF Len(hist) = L THEN PrintT(<<"TRACE", ToJson(hist)>>) /\ FALSE ELSE TRUE
=============================================================================

INIT Init
NEXT Next
CONSTANTS
  K = 5
  SecMod = 65536
  Tol = 2
CONSTRAINT HW
POSTCONDITION Post
CHECK_DEADLOCK FALSE

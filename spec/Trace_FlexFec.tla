-------------------------- MODULE Trace_FlexFec --------------------------
(* (T) validates ndjson traces recorded from pkg/flexfec against FlexFec.  TLC itself lays out the wire form of every
   media packet from its canonical record, parses every repair packet (mask -> index set, recovery fields), performs
   the FlexFEC-03 XOR recovery of every covered packet and compares byte-for-byte.  Events:
     reset {level}                                   new script (fresh encoders / interceptor)
     batch {kind, s, ssrc, fecssrc, fecpt, n, full, media, out, intact}
        kind "enc":  FlexEncoder03.EncodeFec(media, n) was called on stream s's encoder; out = returned repair packets,
                     intact = the media slice (headers and payload bytes) was bit-identical after the call
        kind "icpt": the packets `media` were written through the writer BindLocalStream returned for stream s;
                     out = everything that reached the downstream writer during those writes, in order;
                     full = the batch reached NumMediaPackets (a trailing partial batch produces no repair packet)
     wire {pkt, raw}                                 self-check of the TLA+ wire layout against pion/rtp Marshal
   pkt / media / out elements = canonical records (see FlexFec.tla); 32-bit fields are 4-byte lists. *)
EXTENDS FlexFec, Json, IOUtils
Trace == ndJsonDeserialize(IOEnv.VERIF_TRACE)
KnownSeq == ndJsonDeserialize(IOEnv.VERIF_KNOWN)
Known == {KnownSeq[i].tag : i \in DOMAIN KnownSeq}

VARIABLES l, nxt, devs, taint
vars == <<l, nxt, devs, taint>>

Init == l = 1 /\ nxt = <<>> /\ devs = {} /\ taint = ""

Cfg(e)  == [ssrc |-> e.ssrc, fecssrc |-> e.fecssrc, fecpt |-> e.fecpt]
K(e)    == Len(e.media)
Reps(e) == IF e.kind = "enc" THEN e.out
           ELSE IF Len(e.out) > K(e) THEN SubSeq(e.out, K(e) + 1, Len(e.out)) ELSE <<>>
\* -1: the first repair number of a stream is free - also after the stream has been bound again (a new encoder)
Next0(e) == IF "rebind" \in DOMAIN e /\ e.rebind THEN -1
            ELSE IF e.s \in DOMAIN nxt THEN nxt[e.s] ELSE -1

\* the set of failed clauses of event e (empty = the specification explains the event)
Fails(e) ==
  IF e.a = "wire" THEN (IF Wire(e.pkt) = e.raw THEN {} ELSE {<<0, "wire-layout">>})
  ELSE IF e.a # "batch" THEN {<<0, "unknown-event">>}
  ELSE (IF \A i \in 1 .. K(e) : MediaOK(e.media[i]) /\ e.media[i].ssrc = e.ssrc THEN {} ELSE {<<0, "harness-media">>})
       \* media packets pass through first and unmodified
       \cup (IF e.kind = "enc" THEN (IF e.intact THEN {} ELSE {<<0, "media-modified">>})
             ELSE IF Len(e.out) >= K(e) /\ SubSeq(e.out, 1, K(e)) = e.media THEN {} ELSE {<<0, "media-first-unmodified">>})
       \cup (IF K(e) = 0 \/ ~Consecutive(e.media) THEN {}       \* not a batch of consecutive packets: nothing further stated
             ELSE IF ~e.full THEN (IF Reps(e) = <<>> THEN {} ELSE {<<0, "repair-count">>})
             ELSE BatchFails(Cfg(e), e.media, e.n, Reps(e), Next0(e)))

StepNxt(e) ==
  IF e.a = "batch" /\ Reps(e) # <<>>
  THEN [s \in DOMAIN nxt \cup {e.s} |-> IF s = e.s THEN (Reps(e)[Len(Reps(e))].seq + 1) % M ELSE nxt[s]]
  ELSE nxt

NewDevs(e) ==
  IF e.a # "batch" THEN {}
  ELSE (IF UnnameableIndex(K(e), e.n) THEN {"C14.UnnameableIndex"} ELSE {})
       \cup (IF MultiOctetPadding(e.media) THEN {"C14.MultiOctetPadding"} ELSE {})

Next ==
  /\ l <= Len(Trace)
  /\ LET e == Trace[l] IN
     IF e.a = "reset" THEN
        /\ nxt' = <<>> /\ devs' = {} /\ taint' = "" /\ l' = l + 1
     ELSE IF taint # "" THEN l' = l + 1 /\ UNCHANGED <<nxt, devs, taint>>
     ELSE LET fails == Fails(e) IN
       IF fails = {} THEN
        /\ nxt' = StepNxt(e) /\ devs' = devs \cup NewDevs(e) /\ l' = l + 1 /\ UNCHANGED taint
       ELSE LET k == (devs \cup NewDevs(e)) \cap Known IN
        IF k # {} THEN /\ PrintT(<<"KNOWNDEV", l, CHOOSE t \in k : TRUE>>)
                       /\ taint' = (CHOOSE t \in k : TRUE) /\ l' = l + 1 /\ UNCHANGED <<nxt, devs>>
        ELSE PrintT(<<"MISMATCH", l, "failed clauses <<repair, clause>>", fails, "devs", devs \cup NewDevs(e)>>) /\ FALSE

HW == TLCSet(1, IF TLCGet(1) < l THEN l ELSE TLCGet(1))
ASSUME TLCSet(1, 0)
Post == PrintT(<<"HW", TLCGet(1), Len(Trace)>>) /\ TLCGet(1) = Len(Trace) + 1
=============================================================================

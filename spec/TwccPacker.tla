----------------------------- MODULE TwccPacker -----------------------------
(* Growth module of C05: the greedy chunk packer and feedback filler of pkg/twcc/twcc.go as an EXACT functional
   specification.  Twcc.tla only ACCEPTS a packet (decode-based clauses W1-W3, T1, T2, C1, R1, K1); this module
   PREDICTS it: given the statuses of a packet the chunk list, given the arrival times the reference time, the
   deltas, the small/large choice and the place where a report is split into a new packet.

     chunk state (type chunk)   c = [n, s, hd, v]   n statuses, the first one s, hd = "has different types",
                                                    v = the statuses themselves while they are mixed (n <= V1)
     CanAdd / Add / Encode       chunk.canAdd / chunk.add / chunk.encode
     Push                        `if !lastChunk.canAdd(x) { chunks = append(chunks, lastChunk.encode()) }; add(x)`
                                 (feedback.addReceived, for a missing and for a received status alike)
     Finish                      the loop in feedback.getRTCP that flushes the last chunk
     Pack(statuses)              the chunk list of a packet with exactly these statuses
     PushRun                     n equal statuses at once (what makes prediction linear for 2^15 statuses)
     Scan / BuildNotes           feedback.setBase, addReceived, maybeBuildFeedbackPacket, BuildFeedbackPacket:
                                 reference, deltas, symbol choice, split on delta overflow or on the size limit

   A divergence between the real code and this module that still satisfies Twcc!Accept is NOT a C05 violation; the
   check reports it as a NOTE (specification growth), see Trace_TwccPacker.                                      *)
EXTENDS Twcc

CONSTANTS V1,       \* statuses in a one-bit status vector chunk (14)
          V2,       \* statuses in a two-bit status vector chunk (7)
          RLMAX,    \* longest run of a run-length chunk (0x1fff)
          MAXSIZE,  \* largest feedback packet in bytes (65535)
          MARGIN    \* room addReceived keeps below MAXSIZE (32)

\* ---- chunk --------------------------------------------------------------------------------------------------
Empty == [n |-> 0, s |-> 0, hd |-> FALSE, v |-> <<>>]
HasLarge(c) == IF c.hd THEN \E i \in DOMAIN c.v : c.v[i] = 2 ELSE c.n > 0 /\ c.s = 2
CanAdd(c, y) == \/ c.n < V2
                \/ c.n < V1 /\ ~HasLarge(c) /\ y # 2
                \/ c.n < RLMAX /\ ~c.hd /\ y = c.s
Add(c, y) == IF c.n = 0 THEN [n |-> 1, s |-> y, hd |-> FALSE, v |-> <<>>]
             ELSE IF c.hd THEN [c EXCEPT !.n = @ + 1, !.v = Append(@, y)]
             ELSE IF y = c.s THEN [c EXCEPT !.n = @ + 1]
             ELSE [n |-> c.n + 1, s |-> c.s, hd |-> TRUE, v |-> [i \in 1 .. c.n |-> c.s] \o <<y>>]
\* chunks in the structural form the harness logs (vectors as they are on the wire: zero padded)
RL(s, n) == [k |-> 0, s |-> s, n |-> n, v |-> <<>>]
Vec(k, v, w) == [k |-> k, s |-> 0, n |-> 0, v |-> [i \in 1 .. w |-> IF i <= Len(v) THEN v[i] ELSE 0]]
OfSeq(r) == IF r = <<>> THEN Empty
            ELSE LET hd == \E i \in DOMAIN r : r[i] # r[1] IN
                 [n |-> Len(r), s |-> r[1], hd |-> hd, v |-> IF hd THEN r ELSE <<>>]
Encode(c) == IF ~c.hd THEN [ch |-> RL(c.s, c.n), rest |-> Empty]
             ELSE IF c.n = V1 THEN [ch |-> Vec(1, c.v, V1), rest |-> Empty]
             ELSE LET k == Min2(V2, c.n) IN
                  [ch |-> Vec(2, SubSeq(c.v, 1, k), V2), rest |-> OfSeq(SubSeq(c.v, k + 1, c.n))]

\* ---- packer: [chs |-> chunks already closed, c |-> the open chunk] -------------------------------------------
P0 == [chs |-> <<>>, c |-> Empty]
Push(p, y) == IF CanAdd(p.c, y) THEN [p EXCEPT !.c = Add(@, y)]
              ELSE LET e == Encode(p.c) IN [chs |-> Append(p.chs, e.ch), c |-> Add(e.rest, y)]
RECURSIVE Finish(_)
Finish(p) == IF p.c.n = 0 THEN p.chs
             ELSE LET e == Encode(p.c) IN Finish([chs |-> Append(p.chs, e.ch), c |-> e.rest])
Pack(statuses) == Finish(FoldLeft(Push, P0, statuses))

\* n times Push(_, y), in O(n / RLMAX + V1) steps
RECURSIVE PushRun(_, _, _)
PushRun(p, y, n) ==
  IF n <= 0 THEN p
  ELSE IF p.c.n = 0 \/ (~p.c.hd /\ p.c.s = y) THEN
       IF p.c.n >= RLMAX THEN PushRun(Push(p, y), y, n - 1)
       ELSE LET take == Min2(n, RLMAX - p.c.n) IN
            PushRun([p EXCEPT !.c = [n |-> p.c.n + take, s |-> y, hd |-> FALSE, v |-> <<>>]], y, n - take)
  ELSE PushRun(Push(p, y), y, n - 1)

\* ---- the least number of chunks any valid chunking of the statuses needs (for the optimality statements) ------
\* a run-length chunk covers 1..RLMAX equal statuses; a vector chunk covers exactly V1 (no large status) / V2
\* statuses, or - as the last chunk only - fewer (the rest is padding)
MinChunks(st) ==
  LET L == Len(st)
      RunLen(i) == LET same == {j \in i .. L : \A q \in i .. j : st[q] = st[i]} IN Cardinality(same)
      Best(i, f) ==
        LET rem  == L - i + 1
            rl   == {1 + f[i + j] : j \in 1 .. Min2(RunLen(i), RLMAX)}
            c1   == Min2(V1, rem)
            v1   == IF \A q \in i .. i + c1 - 1 : st[q] # 2 THEN {1 + f[i + c1]} ELSE {}
            c2   == Min2(V2, rem)
            v2   == {1 + f[i + c2]}
            all  == rl \cup v1 \cup v2
        IN CHOOSE m \in all : \A o \in all : m <= o
      f0 == (L + 1) :> 0
      tab == FoldLeft(LAMBDA f, q : f @@ ((L + 1 - q) :> Best(L + 1 - q, f)), f0, [q \in 1 .. L |-> q])
  IN tab[1]

\* ---- feedback level: reference time, deltas, symbol choice, split ---------------------------------------------
RoundDiv(a, b) == IF a >= 0 THEN (a + b \div 2) \div b ELSE -((-a + b \div 2) \div b)

\* One pass over the logged packet P (true base b) with the packer and the running quantised clock of
\* feedback.addReceived.  acc = [off, k, ts, p, fr, bytes, notes]: statuses and deltas consumed, clock (us offset;
\* -1 before the first received status), packer state, offset of the first received status (-1: none), delta bytes.
SymScan(x, rb, P, b, acc, s) ==
  IF acc.off >= P.cnt \/ "abort" \in acc.notes THEN acc
  ELSE IF s = 0 THEN [acc EXCEPT !.off = @ + 1, !.p = Push(@, 0)]
  ELSE LET n == b + acc.off IN
    IF n \notin DOMAIN x.arr \/ acc.k >= Len(P.d) \/ s \notin {1, 2} THEN [acc EXCEPT !.notes = @ \cup {"abort"}]
    ELSE LET at    == x.arr[n][1]
             first == acc.fr < 0
             ts    == IF first THEN (at \div RU) * RU ELSE acc.ts
             d     == RoundDiv(at - ts, TU)
             sym   == IF d >= 0 /\ d <= SMAX THEN 1 ELSE 2
             dl    == P.d[acc.k + 1]
         IN [acc EXCEPT !.off = @ + 1, !.k = @ + 1, !.ts = ts + dl * TU, !.p = Push(@, s), !.bytes = @ + s,
                        !.fr = IF first THEN acc.off ELSE @, !.last = acc.off,
                        !.notes = @ \cup (IF first /\ P.ref # (rb + at \div RU) % RMOD THEN {"RefExact"} ELSE {})
                                    \cup (IF d # dl THEN {"DeltaExact"} ELSE {})
                                    \cup (IF d = dl /\ sym # s THEN {"SymbolExact"} ELSE {})]

ChunkScan(x, rb, P, b, acc, c) ==
  IF c.k = 0 THEN
    LET take == Min2(c.n, P.cnt - acc.off) IN
    IF take <= 0 THEN acc
    ELSE IF c.s = 0 THEN [acc EXCEPT !.off = @ + take, !.p = PushRun(@, 0, take)]
    ELSE FoldLeft(LAMBDA a, s : SymScan(x, rb, P, b, a, s), acc, [j \in 1 .. take |-> c.s])
  ELSE FoldLeft(LAMBDA a, s : SymScan(x, rb, P, b, a, s), acc, c.v)

Scan(x, rb, P) ==
  FoldLeft(LAMBDA a, c : ChunkScan(x, rb, P, Tn(x, P.base), a, c),
           [off |-> 0, k |-> 0, ts |-> -1, p |-> P0, fr |-> -1, last |-> -1, bytes |-> 0, notes |-> {}], P.ch)

\* What the exact specification has to say about the packets Ps of one build in state x (arrival times known
\* exactly).  Returns the names of the exactness clauses that do not hold:
\*   PackerExact  the chunk list is the one the greedy packer produces for these statuses
\*   RefExact     reference time = arrival of the first received status / RU (mod RMOD)
\*   DeltaExact   every delta = round-half-away((arrival - running quantised clock) / TU)
\*   SymbolExact  small-delta symbol iff the delta is in 0..SMAX
\*   TailExact    a packet ends with a received status; the last packet ends at the newest number recorded
\*   SplitExact   a further packet is started only because the next delta does not fit or the size limit is reached
\*   BaseExact    a further packet starts right after the previous one (or GAPMAX before its first received status)
BuildNotes(x, rb, Ps) ==
  LET sc == [k \in DOMAIN Ps |-> Scan(x, rb, Ps[k])]
      ok(k) == "abort" \notin sc[k].notes /\ sc[k].fr >= 0
      per(k) ==
        sc[k].notes
        \cup (IF ok(k) /\ Finish(sc[k].p) # Ps[k].ch THEN {"PackerExact"} ELSE {})
        \cup (IF ok(k) /\ (sc[k].last # Ps[k].cnt - 1 \/ (k = Len(Ps) /\ EndOf(x, Ps[k]) # x.end))
              THEN {"TailExact"} ELSE {})
        \cup (IF k > 1 /\ ok(k) /\ ok(k - 1) THEN
                LET m  == Tn(x, Ps[k].base) + sc[k].fr
                    e  == EndOf(x, Ps[k - 1])
                    d  == RoundDiv(x.arr[m][1] - sc[k - 1].ts, TU)
                    full == 20 + 2 * Len(sc[k - 1].p.chs) + sc[k - 1].bytes + MARGIN > MAXSIZE
                IN (IF d >= LMIN /\ d <= LMAX /\ ~full THEN {"SplitExact"} ELSE {})
                   \cup (IF Tn(x, Ps[k].base) # Max2(e, m - GAPMAX) THEN {"BaseExact"} ELSE {})
              ELSE {})
  IN UNION {per(k) : k \in DOMAIN Ps}
=============================================================================

SPECIFICATION Spec
CONSTANTS
  LMin = 100000
  LMax = 100000000
  IncT = 200000
  DecT = 200000
  MaxSteps = 2
  Mach = "rc"
  NegRtt = FALSE
INVARIANTS RIncBelowCap
CHECK_DEADLOCK FALSE

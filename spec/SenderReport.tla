--------------------------- MODULE SenderReport ---------------------------
(* Property-level specification of the RTCP sender report generator (C07).
   pkg/report/sender_stream.go + the tick body of pkg/report/sender_interceptor.go + internal/ntp.ToNTP.

   State over *true* quantities: RTP timestamps are true RTP time as a small signed offset from a base only the
   harness knows (the wire carries (base + offset) mod 2^32, reports are compared as signed residues relative to the
   base), the clock is integer milliseconds since the harness epoch (a whole second), the octet counter is the pair
   <<hi, lo>> of 16-bit halves (arithmetic modulo W^2 = 2^32), the packet counter stays below 2^31 in every run.

   One operator per linearization point:
     SFresh                                 BindLocalStream (newSenderStream)
     RtpStep(c, x, w, ts, len, now, k)      k consecutive writes (sequence numbers w, w+1, .., same timestamp, same
                                            payload length, same instant); k = 1 is one RTPWriter.Write
     ReportOut(c, x, now)                   senderStream.generateReport
   c = [rate |-> RTP clock rate in Hz, latest |-> SenderUseLatestPacket] *)
EXTENDS Integers, Sequences, TLC

CONSTANTS M,     \* sequence-number modulus (65536)
          W      \* base of the octet-counter pair (65536: the counter wraps at W * W = 2^32)
H == M \div 2

SFresh == [pkts |-> 0, oct |-> <<0, 0>>, refTs |-> 0, refMs |-> 0, lastSn |-> 0]

\* add n (0 <= n < 2^31) to the octet pair, modulo W * W
OctAdd(o, n) == LET lo == o[2] + (n % W)
                    hi == o[1] + (n \div W) + (lo \div W)
                IN <<hi % W, lo % W>>

\* the packet is the newest one sent so far (by sequence number, half-range rule)
Newer(c, x, w) == LET d == (w - x.lastSn) % M IN x.pkts = 0 \/ c.latest \/ (d > 0 /\ d < H)
\* the reference moves to the first packet of a frame only: a newest packet whose timestamp differs from the reference
\* (the first packet ever sent always sets it)
Moves(c, x, w, ts) == Newer(c, x, w) /\ (x.pkts = 0 \/ ts # x.refTs)

RtpStep(c, x, w, ts, len, now, k) ==
  LET y == IF Moves(c, x, w, ts) THEN [x EXCEPT !.refTs = ts, !.refMs = now] ELSE x
      z == IF Newer(c, x, w) THEN [y EXCEPT !.lastSn = (w + k - 1) % M] ELSE y
  IN [z EXCEPT !.pkts = x.pkts + k, !.oct = OctAdd(x.oct, k * len)]

\* (elapsed ms * rate) \div 1000 as seconds * rate + (ms remainder * rate) \div 1000 (the same value, 32-bit safe)
Scale(ms, rate) == (ms \div 1000) * rate + ((ms % 1000) * rate) \div 1000
RtpTime(c, x, now) == x.refTs + Scale(now - x.refMs, c.rate)
\* NTP: whole seconds since the harness epoch and the top 20 bits of the fraction
NtpSec(now)    == now \div 1000
NtpFrac20(now) == ((now % 1000) * 1048576) \div 1000

ReportOut(c, x, now) == [pkts |-> x.pkts, oct |-> x.oct, rtp |-> RtpTime(c, x, now), sec |-> NtpSec(now), frac |-> NtpFrac20(now)]
\* blk: the observed report [pkts, oct, rtp (signed residue relative to the base), sec, frac (top 20 bits)].
\* rtp: the code takes the integer part of a float64 product that is within 2^-20 of the exact value, so it is the exact
\*      floor or, when the exact value is integral, possibly one less.  Nothing is required before the first packet.
\* frac: float64 seconds near 2^32 have a resolution of 2^-21 s; with the two roundings before it the error is below one
\*      unit of 2^-20 s, so the top 20 bits differ from the exact ones by at most 2 (DESIGN.md C07; exactness is C20's job).
ReportAccept(c, x, now, blk) ==
  LET e == ReportOut(c, x, now) IN
  /\ blk.pkts = e.pkts /\ blk.oct = e.oct /\ blk.sec = e.sec
  /\ blk.frac - e.frac <= 2 /\ e.frac - blk.frac <= 2
  \* (a report instant BEFORE the reference - a packet written while the tick was in progress, a clock that stepped back -
  \* moves the timestamp back; the code truncates the negative product towards zero: the exact floor or one more)
  /\ (x.pkts > 0 => IF now >= x.refMs THEN (blk.rtp = e.rtp \/ blk.rtp = e.rtp - 1)
                                        ELSE (blk.rtp = e.rtp \/ blk.rtp = e.rtp + 1))

\* ---- deviation predicates (names used as tags in KNOWN_FINDINGS.jsonl) ----
\* the first packet of a stream carries the RTP timestamp 0 on the wire (z = wire value is zero)
FirstTimestampZero(x, z) == x.pkts = 0 /\ z
=============================================================================

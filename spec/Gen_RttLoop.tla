---------------------------- MODULE Gen_RttLoop ----------------------------
(* (G) scenario generator for the round-trip-time loop (RttLoop.tla) at the REAL constants (1/65536 s wire unit, the
   middle form repeats after 65536 s, A remembers 5 reports).  TLC enumerates every sequence of at most L network /
   endpoint actions after a warm-up, each action advancing the global time by a member of a boundary-value alphabet,
   and prints every sequence that ENDS with a report reaching A (what happens after the last delivery is not
   observed).  Each printed behaviour is a script for harness/zz_verif_rttloop_test.go; steps:

     [a |-> "sr",  i, ta]          A's sender-report tick at A-clock ta (the i-th SR)
     [a |-> "dsr", i, tb]          the i-th SR reaches B at B-clock tb
     [a |-> "rr",  i, tb]          B's receiver-report tick at B-clock tb (the i-th RR)
     [a |-> "drr", i, ta]          the i-th RR reaches A at A-clock ta; A's statistics are read
     [a |-> "xr",  i, ta]          an RRTR block is written through A at A-clock ta (the i-th)
     [a |-> "dxr", i, ta, v, h]    a DLRR sub-block echoing the i-th RRTR, delay v (1/65536 s, = B's specification of
                                   holding for h ms) reaches A at A-clock ta; A's statistics are read
   (unused fields are 0).  A-clock = global time, B-clock = global time + off; a script is [wrapin |-> seconds from A's
   epoch to the next zero of the middle form, steps |-> the sequence].  A variant (V below) fixes the pair ("rr" / "xr"),
   the depth L, the time steps dts, the holding times hs of the scripted DLRR side, off, wrapIn, the warm-up and the
   numbers of reports in flight; the variant is part of the initial state, so ONE TLC run enumerates a whole suite.

   The alphabet is relative to the state: the oldest / newest report not yet delivered (re-ordering, several in
   flight), the oldest / newest RRTR still remembered (and the one evicted last), and - near - the three time steps that put the next action
   one millisecond before, exactly at and one millisecond after the zero of the middle form.
   Warm-up pre > 0: SR 1 is sent, delivered and answered (RR 1 in flight), then pre - 1 further SRs are sent, so with
   pre = 5 A's history is full and ONE more SR evicts the report RR 1 names ("xr": pre RRTR blocks are written).
   Holding times stay on the millisecond grid of the hop specifications: 0 ms (DLSR = 0: "no SR yet" on the wire) and
   1 ms (DLSR = 65) bracket the one-unit edge, 999 / 1000 / 1001 ms bracket 65536 units. *)
EXTENDS RttLoop, Json
CONSTANTS Suite       \* which set of variants to enumerate (the variant is chosen in Init, so one TLC run covers a set)

\* a variant: [path, L, dts, hs, off, wrapIn, pre, near, maxOut, maxRep]
V(path, l, dts, hs, off, wrapIn, pre, near, maxOut, maxRep) ==
  [path |-> path, L |-> l, dts |-> dts, hs |-> hs, off |-> off, wrapIn |-> wrapIn, pre |-> pre, near |-> near,
   maxOut |-> maxOut, maxRep |-> maxRep]
Far == 30000          \* the zero of the middle form is 8.3 hours away
Day == 86400000
Variants ==
  CASE Suite = "quick" ->
         { V("rr", 4, {0, 1, 1000}, {}, 7777777, Far, 0, FALSE, 1, 1),      \* one loop, every order of its four actions
           V("rr", 4, {0, 1000}, {}, -3000, 1, 0, TRUE, 2, 1),               \* stamped just before / at / after the zero
           V("rr", 5, {0, 1000}, {}, -3000, 2, 0, FALSE, 2, 2),              \* two SRs and two RRs in flight, re-ordered, across the wrap
           V("rr", 3, {1, 1000}, {}, 0, Far, 5, FALSE, 6, 2),                \* the named SR is the oldest remembered / evicted
           V("xr", 3, {0, 1, 1000}, {0, 1, 1000}, 0, 1, 0, TRUE, 2, 0),
           V("xr", 2, {1, 1000}, {1}, 0, Far, 5, FALSE, 6, 0) }
    [] Suite = "thorough" ->
         { V("rr", 4, {0, 1, 999, 1000, 1001}, {}, Day, Far, 0, FALSE, 1, 1),           \* around one second = 65536 units
           V("rr", 4, {0, 1, 15, 16, 2000, 65536}, {}, 12345, Far, 0, FALSE, 1, 1),     \* around one unit x 1000, long holds
           V("rr", 5, {0, 1000}, {}, -3000, 2, 0, TRUE, 2, 1),                         \* every action just before / at / after the zero
           V("rr", 6, {0, 1000}, {}, 5, 3, 0, FALSE, 2, 2),
           V("rr", 7, {1000}, {}, -Day, 3, 0, FALSE, 3, 2),                             \* three SRs in flight, every interleaving
           V("rr", 4, {1, 1000}, {}, 5, Far, 5, FALSE, 7, 3),
           V("rr", 3, {0, 1000}, {}, 5, 2, 4, TRUE, 6, 2),
           V("xr", 3, {0, 1, 1000}, {0, 1, 1000}, 0, Far, 5, FALSE, 7, 0),
           V("xr", 3, {0, 1, 999, 1000, 1001}, {0, 1, 999, 1000, 1001, 2000}, 0, 2, 0, TRUE, 3, 0) }

VARIABLES vr, now, nout, dlv, nrep, got, hist
\* vr: the variant; nout: reports (SR or RRTR) sent; dlv: indices delivered to B; nrep: RRs sent; got: RR indices delivered to A
vars == <<vr, now, nout, dlv, nrep, got, hist>>

Ev(a, i, ta, tb, v, h) == [a |-> a, i |-> i, ta |-> ta, tb |-> tb, v |-> v, h |-> h]

Warm(v) ==
  IF v.pre = 0 THEN <<>>
  ELSE IF v.path = "rr"
  THEN << Ev("sr", 1, 0, 0, 0, 0), Ev("dsr", 1, 0, 10 + v.off, 0, 0), Ev("rr", 1, 0, 20 + v.off, 0, 0) >>
       \o [k \in 1 .. v.pre - 1 |-> Ev("sr", k + 1, 20 + 10 * k, 0, 0, 0)]
  ELSE [k \in 1 .. v.pre |-> Ev("xr", k, 10 * k, 0, 0, 0)]

Init == /\ vr \in Variants
        /\ now = (IF vr.pre = 0 THEN 0 ELSE 10 + 10 * vr.pre) /\ hist = Warm(vr)
        /\ nout = vr.pre
        /\ dlv = (IF vr.pre > 0 /\ vr.path = "rr" THEN {1} ELSE {})
        /\ nrep = (IF vr.pre > 0 /\ vr.path = "rr" THEN 1 ELSE 0) /\ got = {}

Steps == LET toWrap == 1000 * vr.wrapIn - now IN
         vr.dts \cup (IF vr.near /\ toWrap >= 1 THEN {toWrap - 1, toWrap, toWrap + 1} ELSE {})
Ends(S) == IF S = {} THEN {} ELSE {CHOOSE x \in S : \A y \in S : x <= y, CHOOSE x \in S : \A y \in S : x >= y}
Undelivered == {i \in 1 .. nout : i \notin dlv}
InFlight    == {j \in 1 .. nrep : j \notin got}
Remembered  == {i \in 1 .. nout : i > nout - K - 1}        \* the K remembered ones and the one evicted last
Sent(i)     == LET e == CHOOSE e \in {hist[k] : k \in DOMAIN hist} : e.a = "xr" /\ e.i = i IN e.ta

Do(e, t) == hist' = Append(hist, e) /\ now' = t /\ UNCHANGED vr

Next ==
  /\ Len(hist) < Len(Warm(vr)) + vr.L
  /\ \E dt \in Steps : LET t == now + dt IN
     IF vr.path = "rr" THEN
        \/ nout < vr.maxOut /\ Do(Ev("sr", nout + 1, t, 0, 0, 0), t) /\ nout' = nout + 1 /\ UNCHANGED <<dlv, nrep, got>>
        \/ \E i \in Ends(Undelivered) :
              Do(Ev("dsr", i, 0, t + vr.off, 0, 0), t) /\ dlv' = dlv \cup {i} /\ UNCHANGED <<nout, nrep, got>>
        \/ nrep < vr.maxRep /\ Do(Ev("rr", nrep + 1, 0, t + vr.off, 0, 0), t) /\ nrep' = nrep + 1
                            /\ UNCHANGED <<nout, dlv, got>>
        \/ \E j \in Ends(InFlight) :
              Do(Ev("drr", j, t, 0, 0, 0), t) /\ got' = got \cup {j} /\ UNCHANGED <<nout, dlv, nrep>>
     ELSE
        \/ nout < vr.maxOut /\ Do(Ev("xr", nout + 1, t, 0, 0, 0), t) /\ nout' = nout + 1 /\ UNCHANGED <<dlv, nrep, got>>
        \/ \E i \in Ends(Remembered) : \E h \in vr.hs :
              /\ h <= t - Sent(i)
              /\ Do(Ev("dxr", i, t, 0, DelayOf(h), h), t) /\ UNCHANGED <<nout, dlv, nrep, got>>

Observed == Len(hist) > Len(Warm(vr)) /\ hist[Len(hist)].a \in {"drr", "dxr"}
Leaf == IF Observed THEN PrintT(<<"TRACE", ToJson([wrapin |-> vr.wrapIn, steps |-> hist])>>) ELSE TRUE
=============================================================================

------------------------------ MODULE Handout ------------------------------
(* Ownership of what an interceptor hands OUT (the mirror image of Ownership.tla, which is about what it is handed):
   a report, feedback packet or NACK returned by an exported builder or passed to the bound RTCP writer belongs to the
   consumer from that moment on.  The producer goes on working (next report, next tick); whatever the consumer still
   holds must keep the content it had when it was handed out.

   Memory is a set of cells with a current content.  Produce writes a new content into a cell and hands the cell out.
   The allocation policy is the design decision: Fresh = a cell nobody holds (what the library does: every report is
   newly allocated); Reuse = one scratch cell used again and again (the tempting optimisation).  Intact is the property. *)
EXTENDS Integers, Sequences, FiniteSets
CONSTANTS Cells, Contents, Policy, MaxOut
VARIABLES mem,      \* cell -> current content
          held      \* sequence of [cell, snap]: what consumers hold and what it contained when handed out
vars == <<mem, held>>
Init == mem = [c \in Cells |-> 0] /\ held = <<>>
HeldCells == {held[i].cell : i \in DOMAIN held}
Produce(c, v) ==
  /\ Len(held) < MaxOut
  /\ IF Policy = "fresh" THEN c \notin HeldCells ELSE c = CHOOSE x \in Cells : TRUE
  /\ mem' = [mem EXCEPT ![c] = v]
  /\ held' = Append(held, [cell |-> c, snap |-> v])
\* a consumer drops what it holds (the cell may then be used again, e.g. through a pool)
Drop == held # <<>> /\ held' = Tail(held) /\ UNCHANGED mem
Next == (\E c \in Cells, v \in Contents : Produce(c, v)) \/ Drop
Spec == Init /\ [][Next]_vars
Intact == \A i \in DOMAIN held : mem[held[i].cell] = held[i].snap
=============================================================================

----------------------------- MODULE Gen_Sizes -----------------------------
(* (G) script generator for the container-size probes (C12): enumerates, per probed component, every combination of
     configuration (boundary values of the fields the component's bounds depend on, Cfgs)
   x stream pattern (number of streams, a stream bound without the negotiated feature, feedback period, SSRC flood; Pats)
   x L workload segments, each a workload kind followed by a lifecycle action (Wls x Thens, only the actions the
     component has: tick = report / generator tick, drain = feedback for everything + quiescent point).
   Every behaviour starts with a fixed in-order warm-up segment and ends with a mixed tail, so that the action under
   test meets a filled container and the state after it is exercised again.  Lengths, sampling period, seed and base
   sequence number are added by checks/c12_sizes.py; the Go probes expand a segment into packets from the seed. *)
EXTENDS Integers, Sequences, TLC, Json
CONSTANTS L
VARIABLES c, cfg, pat, hist
vars == <<c, cfg, pat, hist>>

History == {"rtpbuf", "nackresp", "nackgen", "twcc", "rfc8888", "rfc8888i", "cchist", "rtpfb", "jitter", "flexfec"}
Lifecycle == {"rrecv", "rsend", "stats", "pli", "attrs", "pacing", "gccleaky"}
Comps == History \cup Lifecycle

C0 == [size |-> 0, skip |-> 0, max |-> 0, maxsize |-> 0, twcc |-> 0, qsize |-> 0, rate |-> 0, overload |-> 0, nmedia |-> 0, nfec |-> 0]
Cfgs(k) ==
  CASE k = "rtpbuf" -> {[C0 EXCEPT !.size = s] : s \in {1, 2, 64, 1024, 32768}}
    [] k = "nackresp" -> {[C0 EXCEPT !.size = s] : s \in {1, 64, 1024, 32768}}
    [] k = "nackgen" -> {[C0 EXCEPT !.size = s, !.skip = p[1], !.max = p[2]] : s \in {64, 512, 32768}, p \in {<<0, 0>>, <<2, 1>>, <<0, 3>>}}
    [] k \in {"rfc8888", "rfc8888i"} -> {[C0 EXCEPT !.maxsize = s] : s \in {0, 28, 100, 1200}}   \* 28: no room for any block with 2 streams
    [] k \in {"cchist", "rtpfb"} -> {[C0 EXCEPT !.twcc = b] : b \in {0, 1}}
    [] k = "pacing" -> {[C0 EXCEPT !.qsize = 16, !.rate = 80000000], [C0 EXCEPT !.qsize = 64, !.rate = 80000000],
                        [C0 EXCEPT !.qsize = 16, !.rate = 100000, !.overload = 1]}
    [] k = "gccleaky" -> {[C0 EXCEPT !.rate = 80000000]}
    [] k = "flexfec" -> {[C0 EXCEPT !.nmedia = m, !.nfec = f] : m \in {1, 2, 5, 48}, f \in {1, 2}}
    [] OTHER -> {C0}
Filtered == {"nackgen", "nackresp", "flexfec", "pli"}       \* components that only keep state for streams with a feature
P(ns, dis, fb, flood, tick) == [ns |-> ns, dis |-> dis, fb |-> fb, flood |-> flood, tick |-> tick]
Pats(k) ==
  LET fbs == IF k \in {"cchist", "rtpfb"} THEN {0, 40} ELSE {0}
      floods == IF k \in {"rfc8888", "rfc8888i", "cchist", "rtpfb", "nackresp", "flexfec", "gccleaky"} THEN {0, 17} ELSE {0}
      ticks == IF k \in {"nackgen", "rfc8888", "stats", "twcc"} THEN {0, 35} ELSE {0}
      shapes == IF k \in {"rtpbuf", "twcc", "attrs"} THEN {<<1, -1>>}
                ELSE IF k = "jitter" THEN {<<1, -1>>, <<2, -1>>}
                ELSE IF k \in Filtered THEN {<<1, -1>>, <<2, -1>>, <<3, 2>>} ELSE {<<1, -1>>, <<3, -1>>}
  IN {P(s[1], s[2], fb, fl, tk) : s \in shapes, fb \in fbs, fl \in floods, tk \in ticks}
Wls(k) == IF k \in History THEN {"inorder", "loss", "burst", "reorder", "dup", "jump", "mix"} ELSE {"inorder", "mix"}
Thens(k) ==
  {"none", "unbind0", "rebind0", "fresh0", "unbindall"}
  \cup (IF k \in {"nackgen", "rfc8888", "stats", "twcc"} THEN {"tick"} ELSE {})
  \cup (IF k \in {"twcc", "rtpfb", "pacing", "gccleaky"} THEN {"drain"} ELSE {})
Seg(w, t) == [wl |-> w, then |-> t]
Warm == Seg("inorder", "none")
TailSeg == Seg("mix", "none")

Init == /\ c \in Comps /\ cfg \in Cfgs(c) /\ pat \in Pats(c) /\ hist = <<Warm>>
Next == /\ Len(hist) < 1 + L
        /\ \E w \in Wls(c), t \in Thens(c) : hist' = Append(hist, Seg(w, t))
        /\ UNCHANGED <<c, cfg, pat>>
Leaf == IF Len(hist) = 1 + L
        THEN PrintT(<<"TRACE", ToJson([c |-> c, cfg |-> cfg, pat |-> pat, segs |-> Append(hist, TailSeg)])>>) /\ FALSE
        ELSE TRUE
\* (-simulate: an invariant that prints and stays true, so that the walks continue)
LeafInv == Len(hist) = 1 + L => PrintT(<<"TRACE", ToJson([c |-> c, cfg |-> cfg, pat |-> pat, segs |-> Append(hist, TailSeg)])>>)
=============================================================================

-------------------------- MODULE Trace_Rfc8888 --------------------------
(* (T) validates ndjson traces recorded from pkg/rfc8888 (Recorder and SenderInterceptor) against Rfc8888.
   Events (clock values are MICROSECOND offsets from the harness's base time):
     {"a":"reset","level":"rec"|"icpt","ntp16":n}        new instance; n = NTP seconds of the base modulo 2^16
     {"a":"add","s":ssrc,"n":n16,"t":tUs,"ecn":e}        AddPacket / a packet read through the interceptor
     {"a":"build","now":tUs,"max":maxSize,"len":bytes,"rts_s":hi16,"rts_f":lo16,
      "blocks":[{"s":ssrc,"begin":n16,"m":[[received,ecn,offset],..]},..]}
                                                          BuildReport / the report written after a tick
   Blocks are compared as a set keyed by SSRC.  The begin number of an empty block is not compared (the property
   says nothing about it).  The ECN mark of a packet received more than once must be the first copy's, or CE when
   some copy carried CE.  The report timestamp may differ by one unit of 2^-16 s from the ideal value (float64
   NTP conversion, C20). *)
EXTENDS Rfc8888, Json, IOUtils
Trace == ndJsonDeserialize(IOEnv.VERIF_TRACE)
KnownSeq == ndJsonDeserialize(IOEnv.VERIF_KNOWN)
Known == {KnownSeq[i].tag : i \in DOMAIN KnownSeq}

VARIABLES l, ntp16, st, devs, taint
vars == <<l, ntp16, st, devs, taint>>

Init == l = 1 /\ ntp16 = 0 /\ st = <<>> /\ devs = {} /\ taint = ""

Ssrcs(e) == {e.blocks[i].s : i \in DOMAIN e.blocks}
LBlk(e, s) == e.blocks[CHOOSE i \in DOMAIN e.blocks : e.blocks[i].s = s]
WellFormed(e) == \A i, j \in DOMAIN e.blocks : e.blocks[i].s = e.blocks[j].s => i = j   \* one block per stream

EntryOK(le, ee) == /\ le[1] = ee.r /\ le[3] = ee.ato
                   /\ (le[2] = ee.ecn \/ (ee.ce /\ le[2] = CE))
ShapeOK(lb, eb) == Len(lb.m) = Len(eb.m) /\ (Len(eb.m) > 0 => lb.begin = Res(eb.begin))
BlockOK(lb, eb) == ShapeOK(lb, eb) /\ \A i \in DOMAIN eb.m : EntryOK(lb.m[i], eb.m[i])
Expected(e) == BuildOut(st, e.now, e.max)
BuildOK(e) ==
  LET exp == Expected(e) IN
  /\ WellFormed(e)
  /\ Ssrcs(e) = DOMAIN exp
  /\ \A s \in DOMAIN exp : BlockOK(LBlk(e, s), exp[s])
  /\ e.len = OutLen(exp)
  /\ (e.max >= HeaderLen(K(st)) => e.len <= e.max)            \* the size clause, on the logged length itself
  /\ RtsNear(<<e.rts_s, e.rts_f>>, Rts(ntp16, e.now))
OK(e) == IF e.a = "build" THEN BuildOK(e) ELSE e.a = "add"

\* compact description of the first differences (a sequence, so that values of different shape can be mixed)
MinOf(S) == CHOOSE x \in S : \A y \in S : x <= y
BlockDiff(s, lb, eb) ==
  IF ~ShapeOK(lb, eb)
  THEN <<<<"block", s, "expected begin/count", Res(eb.begin), Len(eb.m), "logged", lb.begin, Len(lb.m)>>>>
  ELSE LET bad == {i \in DOMAIN eb.m : ~EntryOK(lb.m[i], eb.m[i])} IN
       IF bad = {} THEN <<>>
       ELSE LET i == MinOf(bad) IN
            <<<<"entry", s, "seq", Res(eb.begin + i - 1), "expected", eb.m[i], "logged", lb.m[i],
                "differing entries", Cardinality(bad)>>>>
RECURSIVE BlocksDiff(_, _, _)
BlocksDiff(e, exp, S) == IF S = {} THEN <<>>
                         ELSE LET s == MinOf(S) IN BlockDiff(s, LBlk(e, s), exp[s]) \o BlocksDiff(e, exp, S \ {s})
Diff(e) ==
  IF e.a # "build" THEN <<"unknown event">>
  ELSE LET exp == Expected(e) IN
    (IF ~WellFormed(e) THEN <<"two blocks for one SSRC">> ELSE <<>>)
    \o (IF Ssrcs(e) # DOMAIN exp THEN <<<<"ssrcs expected", DOMAIN exp, "logged", Ssrcs(e)>>>> ELSE <<>>)
    \o (IF e.len # OutLen(exp) THEN <<<<"len expected", OutLen(exp), "logged", e.len, "max", e.max>>>> ELSE <<>>)
    \o (IF e.max >= HeaderLen(K(st)) /\ e.len > e.max THEN <<<<"len exceeds max", e.len, e.max>>>> ELSE <<>>)
    \o (IF ~RtsNear(<<e.rts_s, e.rts_f>>, Rts(ntp16, e.now))
        THEN <<<<"rts expected", Rts(ntp16, e.now), "logged", <<e.rts_s, e.rts_f>>>>>> ELSE <<>>)
    \o (IF WellFormed(e) THEN BlocksDiff(e, exp, Ssrcs(e) \cap DOMAIN exp) ELSE <<>>)

StepState(e) ==
  IF e.a = "add" THEN RecAdd(st, e.s, e.n, e.t, e.ecn)
  ELSE IF e.a = "build" THEN BuildStep(st, e.now, e.max)
  ELSE st

NewDevs(e) ==
  (IF e.a = "add" /\ DupArrival(Get(st, e.s), e.n, e.t, e.ecn) THEN {"C08.DupArrival"} ELSE {})
  \cup (IF e.a = "build" /\ AtoWraps16(st, e.now) THEN {"C08.AtoWraps16"} ELSE {})
  \cup (IF e.a = "build" /\ OddBudget(st, e.max) THEN {"C08.OddBudget"} ELSE {})

Next ==
  /\ l <= Len(Trace)
  /\ LET e == Trace[l] IN
     IF e.a = "reset" THEN
        /\ ntp16' = e.ntp16
        /\ st' = <<>> /\ devs' = {} /\ taint' = "" /\ l' = l + 1
     ELSE IF taint # "" THEN l' = l + 1 /\ UNCHANGED <<ntp16, st, devs, taint>>
     ELSE IF OK(e) THEN
        /\ st' = StepState(e) /\ devs' = devs \cup NewDevs(e) /\ l' = l + 1 /\ UNCHANGED <<ntp16, taint>>
     ELSE LET k == (devs \cup NewDevs(e)) \cap Known IN
        IF k # {} THEN /\ PrintT(<<"KNOWNDEV", l, CHOOSE t \in k : TRUE>>)
                       /\ taint' = (CHOOSE t \in k : TRUE) /\ l' = l + 1 /\ UNCHANGED <<ntp16, st, devs>>
        ELSE PrintT(<<"MISMATCH", l, "diff", Diff(e), "devs", devs \cup NewDevs(e)>>) /\ FALSE

HW == TLCSet(1, IF TLCGet(1) < l THEN l ELSE TLCGet(1))
ASSUME TLCSet(1, 0)
Post == PrintT(<<"HW", TLCGet(1), Len(Trace)>>) /\ TLCGet(1) = Len(Trace) + 1
=============================================================================

--------------------------- MODULE MC_IntervalPli ---------------------------
(* (M) exhaustive check of the interval-PLI specification at small constants: every history of MaxSteps calls/ticks
   (the loop's Take steps are free), with bookkeeping that is independent of the specification operators:
     sup    SSRCs bound with pli support and not unbound since
     reqs   forced requests accepted before Close, in call order
     out    what the loop wrote: <<kind, bag>> *)
EXTENDS IntervalPli
CONSTANTS SSRC, MaxSteps, Periodic, Variant
VARIABLES x, out, reqs, sup, steps
vars == <<x, out, reqs, sup, steps>>
Cfg == [periodic |-> Periodic]

Pli      == <<[t |-> "nack", p |-> "pli"]>>
NackOnly == <<[t |-> "nack", p |-> ""]>>
FBs      == {Pli, NackOnly}
Forces   == {<<>>, <<1>>, <<2, 2>>, <<3>>}

Init == x = Fresh /\ out = <<>> /\ reqs = <<>> /\ sup = {} /\ steps = 0

W(kind, bags) == [i \in 1 .. Len(bags) |-> [k |-> kind, b |-> bags[i]]]

BindW == ~x.started /\ x' = BindWriterStep(x) /\ UNCHANGED <<out, reqs, sup>>
Bind(s, fbs) == /\ ~Calls_MustWait(x, fbs)                 \* a call that has to wait is not enabled yet
                /\ x' = BindRemoteStep(x, s, fbs)
                /\ sup' = (IF SupportsPli(fbs) THEN sup \cup {s} ELSE sup)
                /\ reqs' = (IF SupportsPli(fbs) /\ ~x.closed THEN Append(reqs, <<s>>) ELSE reqs)
                /\ UNCHANGED out
Unbind(s) == /\ x' = (IF Variant = "nounbind" THEN x ELSE UnbindStep(x, s))
             /\ sup' = sup \ {s} /\ UNCHANGED <<out, reqs>>
Force(ss) == /\ ~MustWait(x) /\ x' = ForceStep(x, ss)
             /\ reqs' = (IF x.closed THEN reqs ELSE Append(reqs, ss)) /\ UNCHANGED <<out, sup>>
Tick == TickEnabled(Cfg, x) /\ out' = out \o W("tick", TickOut(x)) /\ UNCHANGED <<x, reqs, sup>>
Take == TakeEnabled(x) /\ out' = out \o W("forced", TakeOut(x)) /\ x' = TakeStep(x) /\ UNCHANGED <<reqs, sup, steps>>
Close == x' = CloseStep(x) /\ UNCHANGED <<out, reqs, sup>>

Next == \/ /\ steps < MaxSteps /\ steps' = steps + 1
           /\ \/ BindW \/ Close \/ Tick
              \/ \E s \in SSRC, fbs \in FBs : Bind(s, fbs)
              \/ \E s \in SSRC : Unbind(s)
              \/ \E ss \in Forces : Force(ss)
        \/ Take
Spec == Init /\ [][Next]_vars /\ WF_vars(Take)

\* ---- what the module promises ----
TypeOK == /\ Len(x.pend) <= Cap
          /\ x.running => x.started /\ ~x.closed
\* the registered set is exactly the set of pli-capable streams that are currently bound
RegisteredIsSupported == x.streams = sup
IsTick == steps' = steps + 1 /\ Len(out') >= Len(out) /\ x' = x /\ reqs' = reqs /\ sup' = sup /\ TickEnabled(Cfg, x)
\* a tick writes one compound naming every bound pli-capable stream exactly once, or nothing
TickExact == [][ (Tick /\ IsTick) => out' = IF sup = {} THEN out ELSE Append(out, [k |-> "tick", b |-> [s \in sup |-> 1]]) ]_vars
TickOnlySupported == \A i \in DOMAIN out : out[i].k = "tick" => DOMAIN out[i].b \subseteq SSRC
\* forced PLIs are written once each, in request order, naming exactly the requested SSRCs (with multiplicity)
Forced   == SelectSeq(out, LAMBDA o : o.k = "forced")
NonEmpty == SelectSeq(reqs, LAMBDA r : r # <<>>)
ForcedFifo == /\ Len(Forced) <= Len(NonEmpty)
              /\ \A i \in DOMAIN Forced : Forced[i].b = BagOf(NonEmpty[i])
\* no compound is ever empty
NoEmptyCompound == \A i \in DOMAIN out : DOMAIN out[i].b # {}
NothingAfterClose == [][ x.closed => out' = out ]_vars
NoWriteWithoutWriter == ~x.started => out = <<>>
NoTickWithoutInterval == ~Periodic => \A i \in DOMAIN out : out[i].k = "forced"
\* a forced PLI is written as soon as the loop takes it: a pending request does not stay pending while the loop runs
PendingServed == (x.running /\ x.pend # <<>>) ~> (x.pend = <<>> \/ x.closed)
=============================================================================

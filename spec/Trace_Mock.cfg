INIT Init
NEXT Next
CONSTRAINT HW
POSTCONDITION Post
CHECK_DEADLOCK FALSE

SPECIFICATION Spec
CONSTANTS
  BurstFloor = 3
  Kind = "leaky"
  Producers <- P2
  NP = 2
  Rates <- R12
  Ival = 2
  MaxRC = 1
  Clocked = FALSE
  MaxT = 0
  AcceptAll = FALSE
  CopyOnAccept = TRUE
  Registered <- S1
INVARIANTS TypeOK Fifo ContentOK WriterOK RealTimeOrder
PROPERTIES Live
CHECK_DEADLOCK FALSE

--------------------------- MODULE Trace_RttLoop ---------------------------
(* (T) validates ndjson traces recorded by harness/zz_verif_rttloop_test.go (real report.SenderInterceptor + real
   stats.Interceptor on side A, real report.ReceiverInterceptor on side B, the harness as the network) against
   RttLoop.tla.  Events (ta: A-clock ms, tb: B-clock ms; see the harness for the fields):
     reset{wrapin,sf}   sr{i,ta,n,ok,sec,hi,lo,f20}   dsr{i,tb}   rr{i,tb,n,ok,lh,ll,dlsr}   drr{i,ta,fed,out}
     xr{i,ta,n,ok,sec,hi,lo,f20}   dxr{i,ta,v,h,out}          out = [rrtt, rtot, rn, srtt, stot, sm] (us, counts)

   Every event is checked against the hop that produced it, fed with what was LOGGED on the wire before it:
     C07   the NTP time of a sender report is the one SenderReport.tla states for A's clock reading
     C06   LSR / DLSR of a receiver report are what ReceiverReport.tla accepts for the SR B was handed and B's clock
     C19   A's statistics after a report are what Stats.tla computes from the logged LSR / DLSR (LastRR / DLRR)
           and A's history - the single-hop expectation
     LOOP  the end-to-end property of RttLoop.tla from the SCRIPTED instants only: one more measurement of
           (ta_report - ta_stamp) - (tb_report - tb_arrival) within [-u, 2u) +- Tol, or unchanged figures
     HARNESS  the logged forms are inconsistent with each other (not a statement about the code)
   A divergence is printed as <<"RTTLOOP", l, hop, ...>> and the trace is skipped to its end (the state has diverged);
   TLC does not stop, so one run surveys all traces.  The first diverging hop is the one named.
   sf = 1 marks a trace recorded with the sender-report interceptor registered BEFORE the statistics interceptor: the
   statistics then never see a sender report leave (Chain.BindRTCPWriter hands the loop the writer built so far), the
   loop does not close and no round-trip time is expected at all. *)
EXTENDS RttLoop, Json, IOUtils
CONSTANT Tol                     \* microseconds of conversion error granted to the code (C19 / C20)
Trace == ndJsonDeserialize(IOEnv.VERIF_TRACE)

VARIABLES l, c, s, net, prev, taint
\* net: [outs: SRs sent [t, mid, arr (B-clock arrival, "no" = -1 with has = FALSE)], xouts: RRTRs sent [t, mid],
\*       reps: RRs sent [lsr, dlsr, tb, of (index of the SR B held), ok], held]
vars == <<l, c, s, net, prev, taint>>

ZeroObs == [rrtt |-> 0, rtot |-> 0, rn |-> 0, srtt |-> 0, stot |-> 0, sm |-> 0]
Net0 == [outs |-> <<>>, xouts |-> <<>>, reps |-> <<>>, held |-> 0]
Init == l = 1 /\ c = [wrapIn |-> 0, sf |-> 0] /\ s = LInit /\ net = Net0 /\ prev = ZeroObs /\ taint = ""

MaxOf(a, b) == IF a > b THEN a ELSE b
WireMid(e) == <<e.hi, e.lo>>
\* the logged forms of one NTP time agree with each other (the middle form is bits 16..47 of seconds.fraction)
WireConsistent(e) == e.hi = (e.sec - c.wrapIn) % SecMod /\ e.lo = e.f20 \div 16

\* ---- hop C07: the NTP time on the wire against A's clock reading ----
SrAccept(e) == /\ e.ok /\ e.n = 1 /\ e.sec = SRm!NtpSec(e.ta)
               /\ e.f20 - SRm!NtpFrac20(e.ta) <= 2 /\ SRm!NtpFrac20(e.ta) - e.f20 <= 2
\* the RRTR time is written by the harness with exact integer arithmetic
XrExact(e) == e.ok /\ e.n = 1 /\ e.sec = SRm!NtpSec(e.ta) /\ e.f20 = SRm!NtpFrac20(e.ta)

\* ---- hop C19: the figures against Stats.tla fed with the logged report ----
\* (scenarios are shorter than 1000 s; a logged figure beyond that is compared as "different" without 32-bit arithmetic on it)
Sane(g) == \A v \in {g.rrtt, g.rtot, g.srtt, g.stot} : v > -1000000000 /\ v < 1000000000
StatsMatch(s2, g) ==
  LET a == s2.a IN
  /\ Sane(g)
  /\ g.rn = a.rn /\ g.sm = a.sm
  /\ STm!NearDur(g.rrtt, a.rrtt, Tol) /\ STm!NearDur(g.rtot, a.rtot, Tol * MaxOf(1, a.rn))
  /\ STm!NearDur(g.srtt, a.srtt, Tol) /\ STm!NearDur(g.stot, a.stot, Tol * MaxOf(1, a.sm))

\* ---- LOOP: from scripted instants only ----
Window(q) == {i \in DOMAIN q : i > Len(q) - K}
NoAlias(q, i) == \A j \in Window(q) : ~Aliased(q[i].t, q[j].t)
\* p = "rr": g/prev fields rrtt, rtot, rn ; p = "xr": srtt, stot, sm
LoopCheck(p, expect, D, g) ==
  LET rtt == IF p = "rr" THEN g.rrtt ELSE g.srtt
      n   == IF p = "rr" THEN g.rn ELSE g.sm
      pn  == IF p = "rr" THEN prev.rn ELSE prev.sm
  IN /\ (IF p = "rr" THEN g.srtt = prev.srtt /\ g.stot = prev.stot /\ g.sm = prev.sm
                     ELSE g.rrtt = prev.rrtt /\ g.rtot = prev.rtot /\ g.rn = prev.rn)
     /\ IF expect THEN n = pn + 1 /\ LoopNear(rtt, D, Tol) ELSE g = prev

Diverge(hop, exp, e) == /\ PrintT(<<"RTTLOOP", l, hop, "expected", exp, "logged", e>>)
                        /\ taint' = hop /\ l' = l + 1 /\ UNCHANGED <<c, s, net, prev>>
Go(s2, net2, prev2) == s' = s2 /\ net' = net2 /\ prev' = prev2 /\ l' = l + 1 /\ UNCHANGED <<c, taint>>

Next ==
  /\ l <= Len(Trace)
  /\ LET e == Trace[l] IN
     IF e.a = "reset" THEN
        /\ c' = [wrapIn |-> e.wrapin, sf |-> e.sf] /\ s' = LInit /\ net' = Net0 /\ prev' = ZeroObs /\ taint' = "" /\ l' = l + 1
     ELSE IF taint # "" THEN l' = l + 1 /\ UNCHANGED <<c, s, net, prev, taint>>
     ELSE IF e.a = "sr" THEN
        IF ~SrAccept(e) THEN Diverge("C07", NtpOf(e.ta), e)
        ELSE IF ~WireConsistent(e) THEN Diverge("HARNESS", Mid(c, [sec |-> e.sec, frac |-> e.f20]), e)
        ELSE Go(IF c.sf = 1 THEN s        \* registered behind the sender-report interceptor, A's statistics do not see the SR leave
                ELSE ASend("rr", c, s, e.ta, [sec |-> e.sec, frac |-> e.f20]),
                [net EXCEPT !.outs = Append(@, [t |-> e.ta, mid |-> WireMid(e), arr |-> 0, has |-> FALSE])], prev)
     ELSE IF e.a = "dsr" THEN
        Go(BRecv("rr", s, net.outs[e.i].mid, e.tb),
           [net EXCEPT !.outs[e.i].arr = e.tb, !.outs[e.i].has = TRUE, !.held = e.i], prev)
     ELSE IF e.a = "rr" THEN
        LET blk == [lsr |-> <<e.lh, e.ll>>, dlsr |-> e.dlsr] IN
        IF ~(e.ok /\ e.n = 1 /\ BAccept("rr", s, e.tb, blk)) THEN Diverge("C06", BOut("rr", s, e.tb), e)
        ELSE Go(BReported("rr", s),
                [net EXCEPT !.reps = Append(@, [lsr |-> blk.lsr, dlsr |-> blk.dlsr, tb |-> e.tb, of |-> net.held])], prev)
     ELSE IF e.a = "drr" THEN
        LET r  == net.reps[e.i]
            s2 == ARecv("rr", s, r.lsr, r.dlsr, e.ta)
            i  == r.of
            q  == net.outs
            expect == /\ c.sf = 0 /\ i > 0 /\ (\E k \in Window(q) : q[k].t = q[i].t)
                      /\ ~HeldBelowUnit(r.dlsr) /\ ~StampedAtZero(c, q[i].t)
            D  == IF i > 0 THEN (e.ta - q[i].t) - (r.tb - q[i].arr) ELSE 0
        IN IF ~e.fed THEN Diverge("HARNESS", "a report to deliver", e)
           ELSE IF ~StatsMatch(s2, e.out) THEN Diverge("C19", Obs("rr", s2), e)
           ELSE IF (i = 0 \/ NoAlias(q, i)) /\ ~LoopCheck("rr", expect, D, e.out)
                THEN Diverge("LOOP", [expect |-> expect, D |-> D, prev |-> prev], e)
           ELSE Go(s2, net, e.out)
     ELSE IF e.a = "xr" THEN
        IF ~XrExact(e) \/ ~WireConsistent(e) THEN Diverge("HARNESS", NtpOf(e.ta), e)
        ELSE Go(ASend("xr", c, s, e.ta, [sec |-> e.sec, frac |-> e.f20]),
                [net EXCEPT !.xouts = Append(@, [t |-> e.ta, mid |-> WireMid(e)])], prev)
     ELSE IF e.a = "dxr" THEN
        LET q  == net.xouts
            i  == e.i
            s2 == ARecv("xr", s, q[i].mid, e.v, e.ta)
            expect == /\ (\E k \in Window(q) : q[k].t = q[i].t) /\ ~HeldBelowUnit(e.v) /\ ~StampedAtZero(c, q[i].t)
            D  == (e.ta - q[i].t) - e.h
        IN IF e.v # DelayOf(e.h) THEN Diverge("HARNESS", DelayOf(e.h), e)
           ELSE IF ~StatsMatch(s2, e.out) THEN Diverge("C19", Obs("xr", s2), e)
           ELSE IF NoAlias(q, i) /\ ~LoopCheck("xr", expect, D, e.out)
                THEN Diverge("LOOP", [expect |-> expect, D |-> D, prev |-> prev], e)
           ELSE Go(s2, net, e.out)
     ELSE Diverge("HARNESS", "a known event", e)

HW == TLCSet(1, IF TLCGet(1) < l THEN l ELSE TLCGet(1))
ASSUME TLCSet(1, 0)
Post == PrintT(<<"HW", TLCGet(1), Len(Trace)>>) /\ TLCGet(1) = Len(Trace) + 1
=============================================================================

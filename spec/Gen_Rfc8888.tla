--------------------------- MODULE Gen_Rfc8888 ---------------------------
(* (G) behaviour generator for C08: every sequence of L actions over a boundary-value alphabet that is
   *relative to the specification state* (distance to the highest number received per stream, age of the
   logged arrivals, size limits around the header/padding boundaries), at the real modulus.  Each complete
   behaviour is printed as one JSON script; the Go harness executes it on the real Recorder / SenderInterceptor
   and the recorded trace is validated by Trace_Rfc8888.
     SeqD   sequence deltas, coded: 1 2 5 = +1 +2 +5, 0 = duplicate of the highest, 101 103 = -1 -3,
            200 = wrap (forward to the next multiple of M when that is less than M/2 away, else +(M/2 - 1))
     ClkA   clock advance (MICROSECONDS) before an arrival;  ClkB  clock advance before a report; the fine values
            sit just below / at / just above k/1024 s for k = 1, 8189, 8190, 8191, 8192 (k * 976.5625 us)
     Sizes  maximum report sizes;  PastSizes  sizes of reports built 1 us *before* the latest arrival
     NS     number of SSRCs;  Jump  extra gap in the warm-up (so that the size limit cuts the block) *)
EXTENDS Rfc8888, Json
CONSTANTS NS, Base, L, SeqD, ClkA, ClkB, Sizes, PastSizes, Jump
VARIABLES st, clk, hist
vars == <<st, clk, hist>>

Ev(a, s, n, t, ecn, now, max) == [a |-> a, s |-> s, n |-> n, t |-> t, ecn |-> ecn, now |-> now, max |-> max]
AddEv(s, n, t, ecn) == Ev("add", s, n, t, ecn, 0, 0)
BuildEv(now, max)   == Ev("build", 0, 0, 0, 0, now, max)

BaseOf(s) == (Base + 7 * (s - 1)) % M
\* warm-up: two packets per stream with one number missing in between (plus Jump)
Warm == [i \in 1 .. 2 * NS |->
          LET s == (i + 1) \div 2 IN
          IF i % 2 = 1 THEN AddEv(s, BaseOf(s), 10000 * i, 0)
          ELSE AddEv(s, (BaseOf(s) + 2 + Jump) % M, 10000 * i, 2)]
RECURSIVE Run(_, _, _)
Run(s0, evs, i) == IF i > Len(evs) THEN s0
                   ELSE Run(RecAdd(s0, evs[i].s, evs[i].n, evs[i].t, evs[i].ecn), evs, i + 1)

Target(x, c) ==
  IF c = 0 THEN x.last
  ELSE IF c < 100 THEN x.last + c
  ELSE IF c < 200 THEN x.last - (c - 100)
  ELSE LET r == M - (x.last % M) IN IF r < H THEN x.last + r ELSE x.last + H - 1

Init == /\ st = Run(<<>>, Warm, 1)
        /\ clk = 10000 * 2 * NS
        /\ hist = Warm
N == Len(Warm) + L
MaxClk == 2000000000                          \* every clock value stays below 2^31 microseconds
Step == \/ \E s \in 1 .. NS, c \in SeqD, d \in ClkA :
            LET n == Target(st[s], c) % M
                tm == clk + d
                ecn == Len(hist) % 4
            IN  /\ tm <= MaxClk
                /\ st' = RecAdd(st, s, n, tm, ecn) /\ clk' = tm
                /\ hist' = Append(hist, AddEv(s, n, tm, ecn))
        \/ \E ms \in Sizes, d \in ClkB :
            /\ clk + d <= MaxClk
            /\ st' = BuildStep(st, clk + d, ms) /\ clk' = clk + d
            /\ hist' = Append(hist, BuildEv(clk + d, ms))
        \/ \E ms \in PastSizes :
            /\ st' = BuildStep(st, clk - 1, ms) /\ UNCHANGED clk
            /\ hist' = Append(hist, BuildEv(clk - 1, ms))
Final == Append(hist, BuildEv(clk, 1200))
\* after L actions one closing report; (the closing step exists so that a random walk prints exactly one behaviour)
Next == IF Len(hist) < N THEN Step
        ELSE Len(hist) = N /\ hist' = Final /\ UNCHANGED <<st, clk>>
\* exhaustive mode (CONSTRAINT): print and cut at depth L
Leaf == IF Len(hist) = N THEN PrintT(<<"TRACE", ToJson(Final)>>) /\ FALSE ELSE TRUE
\* simulation mode (INVARIANT): print the walk when it is complete
LeafInv == IF Len(hist) = N + 1 THEN PrintT(<<"TRACE", ToJson(hist)>>) ELSE TRUE
=============================================================================

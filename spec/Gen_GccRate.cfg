INIT Init
NEXT Next
CONSTANTS
  LMin = 100000
  LMax = 100000000
  IncT = 200000
  DecT = 200000
  L = 3
  Mode = "loss"
  Wide = FALSE
CONSTRAINT Leaf
CHECK_DEADLOCK FALSE

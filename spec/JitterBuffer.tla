--------------------------- MODULE JitterBuffer ---------------------------
(* Property-level specification of pkg/jitterbuffer (C18): PriorityQueue and JitterBuffer.

   The buffer is a bag of entries [n |-> wire sequence number, id |-> packet identity, ts |-> RTP
   timestamp]; identities are unique, so the bag is a set of records.  The property speaks about
   numbers "modulo 2^16", so entries carry wire residues (0 .. M-1); M is a constant so that (M) can
   scale it down.  Functional style, one pair of operators per exported method:
       XOut(..)   the SET of results the method may return (a result is [id, err]); it is a
                  singleton except when several buffered packets carry the same sequence number
                  (the property allows either duplicate)
       XStep(..)  the successor state given the result that was returned
       XEv(..)    (JitterBuffer only) the listener events fired, in order
   Results: Ok(id) = the very packet object pushed under identity id, Err(class) with class
       "buffering"  ErrPopWhileBuffering       "underrun"  ErrBufferUnderrun
       "invalid"    ErrInvalidOperation         "notfound"  ErrNotFound

   What the property states is followed literally (order of pops at the playout head, identity,
   at-most-once, failed pops change nothing, refusal while buffering, emptiness after Clear).  What it
   is silent about is modelled as the code does it and not judged: list order = plain uint16 order
   (PriorityQueue.Pop / PopAtTimestamp take the lowest raw number), PopAtSequence advances the head by
   one, SetPlayoutHead skips, Clear(true) resets minStartCount to the default and keeps the playout
   head, the events. *)
EXTENDS Integers, FiniteSets, Sequences, TLC

CONSTANT M                       \* sequence-number modulus (65536 in the code)

Entry(n, id, ts) == [n |-> n, id |-> id, ts |-> ts]
Ok(id)  == [id |-> id, err |-> ""]
Err(s)  == [id |-> 0,  err |-> s]
IsOk(r) == r.err = ""
Ids(buf) == {e.id : e \in buf}

WithNum(buf, n) == {e \in buf : e.n = n}
WithTs(buf, ts) == {e \in buf : e.ts = ts}
MinNum(S)  == CHOOSE m \in {e.n : e \in S} : \A e \in S : m <= e.n
Lowest(S)  == {e \in S : e.n = MinNum(S)}       \* head of the sorted list; duplicates tie
Remove(buf, r) == IF IsOk(r) THEN {e \in buf : e.id # r.id} ELSE buf
Oks(S) == {Ok(e.id) : e \in S}

\* ------------------------------------------------------------------ PriorityQueue
PQPushStep(buf, e)   == buf \cup {e}
PQLength(buf)        == Cardinality(buf)
PQFindOut(buf, n)    == IF WithNum(buf, n) = {} THEN {Err("notfound")} ELSE Oks(WithNum(buf, n))
PQPopOut(buf)        == IF buf = {} THEN {Err("invalid")} ELSE Oks(Lowest(buf))
PQPopAtOut(buf, n)   == IF buf = {} THEN {Err("invalid")}
                        ELSE IF WithNum(buf, n) = {} THEN {Err("notfound")} ELSE Oks(WithNum(buf, n))
PQPopAtTsOut(buf, t) == IF buf = {} THEN {Err("invalid")}
                        ELSE IF WithTs(buf, t) = {} THEN {Err("notfound")} ELSE Oks(Lowest(WithTs(buf, t)))
PQPopStep(buf, r)    == Remove(buf, r)          \* the same for Pop, PopAt, PopAtTimestamp
PQClearStep(buf)     == {}

\* ------------------------------------------------------------------ JitterBuffer
\* configuration c: [min |-> WithMinimumPacketCount, defmin |-> 50 (value Clear(true) restores),
\*                   over |-> 100 (overflowLen, events only)]
\* state x: buf, st ("B" Buffering / "E" Emitting), head (playoutHead), ready (playoutReady),
\*          min (current minStartCount), last (lastSequence)
JBInit(c) == [buf |-> {}, st |-> "B", head |-> 0, ready |-> FALSE, min |-> c.min, last |-> 0]

Starts(x, e) == Cardinality(x.buf) + 1 >= x.min /\ x.st = "B"
JBPushStep(c, x, e) ==
  [x EXCEPT !.buf = @ \cup {e},
            !.head = IF ~x.ready /\ x.buf = {} THEN e.n ELSE @,   \* the first packet buffered
            !.last = e.n,
            !.st = IF Starts(x, e) THEN "E" ELSE @,
            !.ready = IF Starts(x, e) THEN TRUE ELSE @]
JBPushEv(c, x, e) ==
  (IF x.buf = {} THEN <<"startBuffering">> ELSE <<>>)
  \o (IF Cardinality(x.buf) > c.over THEN <<"overflow">> ELSE <<>>)
  \o (IF Starts(x, e) THEN <<"playing">> ELSE <<>>)

Gate(x, S) == IF x.st # "E" THEN {Err("buffering")} ELSE S
PopEv(x, r) == IF x.st = "E" /\ ~IsOk(r) THEN <<"underflow">> ELSE <<>>

JBPopOut(x)            == Gate(x, PQPopAtOut(x.buf, x.head))
JBPopStep(x, r)        == IF IsOk(r) THEN [x EXCEPT !.buf = Remove(@, r), !.head = (@ + 1) % M] ELSE x
JBPopAtSeqOut(x, n)    == Gate(x, PQPopAtOut(x.buf, n))
JBPopAtSeqStep(x, r)   == JBPopStep(x, r)                          \* head + 1 as the code does
JBPopAtTsOut(x, t)     == Gate(x, PQPopAtTsOut(x.buf, t))
JBPopAtTsStep(x, r)    == IF IsOk(r) THEN [x EXCEPT !.buf = Remove(@, r)] ELSE x
JBPeekOut(x, atHead)   == IF x.buf = {} THEN {Err("underrun")}
                          ELSE IF atHead /\ x.st = "E" THEN PQFindOut(x.buf, x.head)
                          ELSE PQFindOut(x.buf, x.last)
JBPeekAtSeqOut(x, n)   == PQFindOut(x.buf, n)
JBSetHeadStep(x, n)    == [x EXCEPT !.head = n]
JBPlayoutHead(x)       == x.head
\* Clear(true) also forgets the playout position: the next packet pushed starts a new playout (C11/C12: a stale head
\* named a packet that was just dropped; repaired in the code, see KNOWN_FINDINGS.jsonl "fixed:" 5635bb5)
JBClearStep(c, x, rst) == IF rst THEN [x EXCEPT !.buf = {}, !.last = 0, !.st = "B", !.min = c.defmin,
                                                 !.head = 0, !.ready = FALSE]
                          ELSE [x EXCEPT !.buf = {}]

\* ---- deviation predicates over (pre-state, action); names are the tags usable in KNOWN_FINDINGS.jsonl ----
ClearNonEmpty(buf)   == buf # {}                              \* "C18.ClearNonEmpty"
DupOfLowest(buf, n)  == buf # {} /\ n = MinNum(buf)            \* "C18.DupOfLowest"
=============================================================================

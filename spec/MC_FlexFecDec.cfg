INIT Init
NEXT NextFree
CONSTANTS
  M = 65536
  MaxK = 4
  MaxN = 3
  NB = 1
  Bases = {0, 65534}
  FBases = {1000, 65535}
  Gaps = {0}
  Window = 1
  Track = FALSE
  Lim <- BigLim
INVARIANTS ClosureReached NoWrongRecovery Clean GotSound BufOrdered
CHECK_DEADLOCK FALSE

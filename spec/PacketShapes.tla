---------------------------- MODULE PacketShapes ----------------------------
(* Abstract syntax of incoming packets with independent "declared vs. actual" knobs (C02).  The property singles
   out RTCP compounds that parse but whose fields disagree with each other, and RTP packets whose header fields
   disagree with the bytes present.  This module only defines the shape space; lib serialisers turn a shape into
   bytes (they must be able to write inconsistent fields, so they do not use pion/rtcp Marshal).
   The property for every shape is uniform (see Trace_Robust): no panic, the call returns, no more bytes reported
   than given, and a following well-formed probe packet is still handled. *)
EXTENDS Integers, Sequences, FiniteSets, TLC

\* ---- transport-wide CC feedback ---------------------------------------------------------------------
TwccCounts  == {0, 1, 3, 7, 14, 15, 21}
TwccChunks  == {"rl-recv", "rl-lost", "rl-over", "rl-max", "sv1", "sv2", "sv2-reserved", "sv1+rl", "none"}
TwccDeltas  == {"eq", "lt", "gt", "none", "large"}
TwccShapes  == [t : {"twcc"}, count : TwccCounts, chunks : TwccChunks, deltas : TwccDeltas, base : {0, 65530},
                trunc : {0, 1, 5}]
\* ---- RFC 8888 congestion control feedback -------------------------------------------------------------
CcfbShapes  == [t : {"ccfb"}, blocks : {0, 1, 2}, nrep : {0, 1, 2, 3, 16384, 65535}, actual : {"eq", "fewer", "none"},
                begin : {0, 65534}, known : {TRUE, FALSE}, trunc : {0, 2}]
\* ---- sender / receiver reports --------------------------------------------------------------------------
ReportShapes == [t : {"sr", "rr"}, rc : {0, 1, 2, 31}, actual : {0, 1, 2}, lenfield : {"ok", "small", "large"}, trunc : {0, 3}]
\* ---- extended reports -----------------------------------------------------------------------------------
XrShapes    == [t : {"xr"}, block : {"dlrr", "rrtr", "unknown", "zero"}, sub : {0, 1, 2, 3}, blen : {"ok", "small", "large"},
                trunc : {0, 1, 4}]
\* ---- NACK / PLI / FIR -------------------------------------------------------------------------------------
FbShapes    == [t : {"nack", "pli", "fir"}, items : {0, 1, 3}, ssrc : {"known", "foreign", "zero"}, lenfield : {"ok", "small", "large"},
                trunc : {0, 2, 6}]
\* ---- unstructured boundary cases --------------------------------------------------------------------------
RawShapes   == [t : {"raw"}, kind : {"empty", "one", "three", "hdr-only", "zeros", "ones", "len-zero", "len-huge", "ver0", "pad-bit", "garbage-tail"},
                n : {0, 4, 8, 64}]
RtcpShapes  == TwccShapes \cup CcfbShapes \cup ReportShapes \cup XrShapes \cup FbShapes \cup RawShapes

\* ---- incoming RTP -----------------------------------------------------------------------------------------
RtpShapes   == [t : {"rtp"}, cc : {0, 2, 15}, ccactual : {"eq", "fewer"}, x : {"none", "one-ok", "two-ok", "len-over", "len-zero", "id0", "id15", "profile-other",
                                                                                           "one-short", "two-short", "two-empty", "one-long"},
                pad : {"none", "ok", "zero", "over"}, plen : {0, 1, 20}, cut : {0, 1, 4, 11, 12}]
=============================================================================

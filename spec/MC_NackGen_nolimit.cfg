SPECIFICATION Spec
CONSTANTS
  M = 16
  SSRC = {1}
  Cfg <- CfgNoLimit
  MaxSteps = 7
INVARIANTS TypeOK LimitRespected
PROPERTIES TickSound TickComplete Independent
CHECK_DEADLOCK FALSE

----------------------------- MODULE Trace_Mem -----------------------------
(* (T) C12: long runs through the universal harness; after every phase of an equal-length workload the live heap is
   measured after forced collection ("heap" events: n = HeapAlloc bytes, len = HeapObjects).  Steady state: the growth
   between successive equal phases (after a warm-up phase) must stay below a slack that does not depend on the phase
   length; after Unbind/Close the heap must fall back to (near) the level before the streams were bound. *)
EXTENDS Integers, Sequences, FiniteSets, TLC, Json, IOUtils
Trace == ndJsonDeserialize(IOEnv.VERIF_TRACE)
KnownSeq == ndJsonDeserialize(IOEnv.VERIF_KNOWN)
Known == {KnownSeq[i].tag : i \in DOMAIN KnownSeq}
VARIABLES l, members, heaps, mode, taint
Range(f) == {f[i] : i \in DOMAIN f}
Has(k) == k \in Range(members)
Init == l = 1 /\ members = <<>> /\ heaps = <<>> /\ mode = "" /\ taint = ""
SlackBytes == 196608      \* 192 KiB: allocator / runtime noise measured on the unchanged tree is below 64 KiB
SlackObjs == 1500
\* heap events are numbered: 1 = baseline before binding, 2 = after warm-up phase, 3.. = after each further phase,
\* last = after Unbind + Close
Growth(a, b) == b.n - a.n
GrowthObjs(a, b) == b.len - a.len
PhaseOk(h) ==   \* evaluated when heap event h (index k >= 4) arrives: compare phases k-1 -> k
  LET k == Len(heaps) + 1 IN
  k < 4 \/ (Growth(heaps[k - 1], h) <= SlackBytes /\ GrowthObjs(heaps[k - 1], h) <= SlackObjs)
\* (at "final" the application has dropped the closed chain AND the readers / writers it still held of unbound streams: what
\* remains is what the interceptors keep alive themselves - goroutines, timers, registries.  An earlier version of the
\* harness kept the stale readers, the whole interceptor stayed reachable through them and the thorough tier, 60 000
\* packets per phase, saw the emptied maps of rtpfb: a false alarm, corrected in the harness, not by an allowance.)
FinalOk(h) == Growth(heaps[1], h) <= 2 * SlackBytes /\ GrowthObjs(heaps[1], h) <= 2 * SlackObjs
\* "unbound": measured while the interceptor is still open, after many streams were bound, used and unbound again - the heap
\* must be back near the level it had BEFORE they were bound (heap event 2), not at the level of the peak
\* (h.id = number of streams that were bound and unbound: the HARNESS keeps a few map entries per SSRC it has ever used -
\* counters, the last packet - which is allowed for at 512 bytes / 3 objects per stream; a stream's state in an
\* interceptor is a kilobyte or more)
UnboundOk(h) == /\ Len(heaps) >= 2
                /\ Growth(heaps[2], h) <= 2 * SlackBytes + 512 * h.id
                /\ GrowthObjs(heaps[2], h) <= 2 * SlackObjs + 3 * h.id
Accept(e) ==
  IF e.a = "heap" THEN IF e.kind = "final" THEN FinalOk(e) ELSE IF e.kind = "unbound" THEN UnboundOk(e) ELSE PhaseOk(e)
  ELSE IF e.a \in {"pre", "wire"} THEN TRUE
  ELSE IF e.a = "end" THEN ~e.aborted
  ELSE ~e.blocked /\ e.panic = ""
NoFeedback == mode \in {"nofeedback-inorder", "nofeedback-loss", "nofeedback-dup"}
LossOrDup == mode \in {"feedback-loss", "feedback-dup", "nofeedback-loss", "nofeedback-dup"}
\* ("feedback-rtcp": RTCP-heavy workload, no deviation predicate applies)
NewDevs(e) ==
  (IF Has("rtpfb") /\ NoFeedback THEN {"C12.RtpfbHistoryWithoutFeedback"} ELSE {})
  \cup (IF Has("jitter") /\ LossOrDup THEN {"C12.JitterBufferKeepsUnplayablePackets"} ELSE {})
  \cup (IF Has("stats") /\ e.a = "heap" /\ e.kind = "final" THEN {"C12.StatsKeepsRecorders"} ELSE {})
  \cup (IF Has("rfc8888") /\ e.a = "heap" /\ e.kind = "final" THEN {"C12.Rfc8888KeepsStreams"} ELSE {})
Next ==
  /\ l <= Len(Trace)
  /\ LET e == Trace[l] IN
     IF e.a = "reset" THEN members' = e.members /\ heaps' = <<>> /\ mode' = "" /\ taint' = "" /\ l' = l + 1
     ELSE IF taint # "" THEN l' = l + 1 /\ UNCHANGED <<members, heaps, mode, taint>>
     ELSE IF Accept(e) THEN
        /\ l' = l + 1 /\ heaps' = (IF e.a = "heap" THEN Append(heaps, e) ELSE heaps)
        /\ mode' = (IF e.a = "wait" /\ e.kind # "" THEN e.kind ELSE mode) /\ UNCHANGED <<members, taint>>
     ELSE LET k == NewDevs(e) \cap Known IN
        IF k # {} THEN /\ PrintT(<<"KNOWNDEV", l, CHOOSE t \in k : TRUE>>)
                       /\ taint' = (CHOOSE t \in k : TRUE) /\ l' = l + 1 /\ UNCHANGED <<members, heaps, mode>>
        ELSE /\ PrintT(<<"MISMATCH", l, "members", members, "mode", mode, "heaps", [i \in DOMAIN heaps |-> <<heaps[i].n, heaps[i].len>>], "now", <<e.n, e.len>>>>)
             /\ taint' = "?" /\ l' = l + 1 /\ UNCHANGED <<members, heaps, mode>>
HW == TLCSet(1, IF TLCGet(1) < l THEN l ELSE TLCGet(1))
ASSUME TLCSet(1, 0)
Post == PrintT(<<"HW", TLCGet(1), Len(Trace)>>) /\ TLCGet(1) = Len(Trace) + 1
=============================================================================

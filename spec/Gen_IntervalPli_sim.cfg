INIT Init
NEXT Next
CONSTANTS
  Cap = 1
  L = 2
  Periodic = TRUE
  Warms = {0}
INVARIANT LeafInv
CHECK_DEADLOCK FALSE

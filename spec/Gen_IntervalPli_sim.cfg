INIT Init
NEXT SimNext
CONSTANTS
  Cap = 1
  L = 2
  Periodic = TRUE
  Warms = {0}
  Sim = TRUE
INVARIANT LeafInv
CHECK_DEADLOCK FALSE

INIT Init
NEXT Next
CONSTANTS
  Cap = 1
  L = 2
  Periodic = TRUE
  Warm = 0
INVARIANT LeafInv
CHECK_DEADLOCK FALSE

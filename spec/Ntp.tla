-------------------------------- MODULE Ntp --------------------------------
(* Ideal specification of the NTP timestamp conversions (C20, second half), internal/ntp/ntp.go, over
   unbounded integers.  Checked with APALACHE (TLC's integers are 32-bit, a 64-bit NTP value does not fit).

   The check driver (checks/c20.py) records samples from the real code,

      t, t2, ref     instants in nanoseconds since 1970-01-01 (inputs; t2 is closer than 1 ms to t)
      n  = ToNTP(t)   back = ToTime(n)   n2 = ToNTP(t2)   m = ToNTP32(t)   back32 = ToTime32(m, ref)   (observed)

   and generates a module that EXTENDS this one and lists them as literal rows

      G0 == /\ Chk(1, wk, t, n, back, t2, n2, m, ref, back32) /\ Chk(2, ...) ...      Inv == G0 /\ G1 /\ ...

   Apalache (check --length=0 --inv=Inv --view=View --max-error=K) evaluates every clause for every row.  The two
   variables select a (sample, clause) pair, so that a counterexample names the sample index i and the clause c that
   the specification cannot explain:  c is a clause name, or "known:<tag>" for a divergence covered by a deviation
   predicate listed in KNOWN_FINDINGS.jsonl (wk = the tag C20.WindowEdgeRoundsUp is listed).

   Tolerances (derived; DESIGN.md section 7 C20):
     Tol64  = 4295 units of 2^-32 s = 1 us.  The statement grants the 64-bit conversion one microsecond ("converting
              back returns the original instant to within one microsecond").  The code computes float64 seconds since
              1900, which lie in [2^31, 2^32) for every instant 1970..2036; with a 53-bit significand the spacing
              there is 2^-21 s = 477 ns, so no implementation of that design can be closer to the ideal value than
              238 ns; demanding more than the statement's 1 us would be a false alarm.
     TolNs  = 1000 ns for ToTime(ToNTP(t)) against t (the statement).
     Tol32  = 15259 ns (2^-16 s rounded up, the resolution of the middle form) + TolNs: the middle form is a
              truncation of the 64-bit value, so its round trip inherits the 1 us the statement grants the 64-bit
              conversion on top of its own resolution.
   Monotonicity is "non-decreasing": two instants closer than the float64 spacing may map to the same value. *)
EXTENDS Integers

VARIABLES
  \* @type: Int;
  i,       \* index of the sample row looked at
  \* @type: Str;
  c        \* clause looked at

Two16 == 65536
Two32 == 4294967296
Two64 == Two32 * Two32
Epoch == 2208988800          \* seconds from 1900-01-01 to 1970-01-01
NS    == 1000000000
Tol64 == 4295
TolNs == 1000
Tol32 == 15259 + TolNs

\* @type: (Int) => Int;
Abs(x) == IF x < 0 THEN -x ELSE x
\* ideal 64-bit NTP value (32.32 fixed-point seconds since 1900) of an instant t >= 0, rounded down
\* @type: (Int) => Int;
IdealNTP(t) == ((t \div NS) + Epoch) * Two32 + (((t % NS) * Two32) \div NS)
\* the middle 32 bits of a 64-bit NTP value
\* @type: (Int) => Int;
Mid32(n) == (n \div Two16) % Two32
\* the 65536-second ("18 hour") window of a 64-bit NTP value: the 16 bits that the middle form drops at the top
\* @type: (Int) => Int;
Window(n) == n \div (Two16 * Two32)

\* ---- the clauses of C20 (NTP half) for one sample ----
\* monotone non-decreasing (both orders of the pair)
\* @type: (Int, Int, Int, Int) => Bool;
Monotone(t, n, t2, n2) == (t <= t2 => n <= n2) /\ (t2 <= t => n2 <= n)
\* converting back returns the original instant to within one microsecond
\* @type: (Int, Int) => Bool;
RoundTrip(t, back) == Abs(back - t) <= TolNs
\* the 64-bit value is a 64-bit value and is within 1 us of the ideal one
\* @type: (Int, Int) => Bool;
NearIdeal(t, n) == n >= 0 /\ n < Two64 /\ Abs(n - IdealNTP(t)) <= Tol64
\* the 32-bit form is the middle of the 64-bit form
\* @type: (Int, Int) => Bool;
Middle(n, m) == m = Mid32(n)
\* @type: (Int, Int) => Bool;
SameWindow(t, ref) == Window(IdealNTP(ref)) = Window(IdealNTP(t))
\* the middle form round-trips to within its resolution given a reference in the same window
\* @type: (Int, Int, Int) => Bool;
RoundTrip32(t, ref, back32) == SameWindow(t, ref) => Abs(back32 - t) <= Tol32

\* ---- deviation predicate (its name is the tag used in KNOWN_FINDINGS.jsonl) ----
\* The instant (or the reference) lies less than Tol64 before the end of its window.  ToNTP rounds to the nearest
\* float64 (which the 1 us tolerance permits) and may thereby land in the NEXT window; the 16 top bits that ToTime32
\* takes from the reference then do not belong to the 32 bits that ToNTP32 produced and the result is off by 65536 s.
\* @type: (Int) => Bool;
NearWindowEnd(x) == Window(IdealNTP(x) + Tol64) # Window(IdealNTP(x))
\* @type: (Int, Int) => Bool;
WindowEdgeRoundsUp(t, ref) == NearWindowEnd(t) \/ NearWindowEnd(ref)

\* The recorded finding as a NAMED as-found model: ToTime32 takes its 16 top bits from ToNTP(reference) - nref, as the code
\* computed it, rounding included - and its 32 middle bits from m; the result is the instant of THAT 64-bit value (to within
\* the microsecond of ToTime).  A row in the region is excused iff it is exactly this; any other result there is a violation.
\* @type: (Int) => Int;
IdealTime(n) == ((n \div Two32) - Epoch) * NS + ((n % Two32) * NS) \div Two32
\* @type: (Int, Int, Int) => Bool;
AsFound32(m, nref, back32) == Abs(back32 - IdealTime(Window(nref) * Two16 * Two32 + m * Two16)) <= TolNs

\* ---- one row: the (sample k, clause c) obligations ----
\* @type: (Int, Bool, Int, Int, Int, Int, Int, Int, Int, Int, Int) => Bool;
Chk(k, wk, t, n, back, t2, n2, m, ref, back32, nref) ==
  LET excused == wk /\ WindowEdgeRoundsUp(t, ref) /\ AsFound32(m, nref, back32) /\ NearIdeal(ref, nref) IN
  i = k =>
    /\ (c = "Monotone"    => Monotone(t, n, t2, n2))
    /\ (c = "RoundTrip"   => RoundTrip(t, back))
    /\ (c = "NearIdeal"   => NearIdeal(t, n) /\ NearIdeal(t2, n2))
    /\ (c = "Middle"      => Middle(n, m))
    /\ (c = "RoundTrip32" => RoundTrip32(t, ref, back32) \/ excused)
    /\ (c = "known:C20.WindowEdgeRoundsUp" => RoundTrip32(t, ref, back32) \/ ~excused)

Clauses == {"Monotone", "RoundTrip", "NearIdeal", "Middle", "RoundTrip32", "known:C20.WindowEdgeRoundsUp"}
Next == UNCHANGED <<i, c>>
View == <<i, c>>
=============================================================================

--------------------------- MODULE Gen_GccGroups ---------------------------
(* (G) acknowledgement sequences for the arrival-group accumulator (Mode = "groups") and the rate calculator
   (Mode = "rate") at the real constants: every sequence of L acknowledgements over a boundary alphabet that is
   RELATIVE TO THE SPECIFICATION STATE -
     groups: departure = the current group's departure + dd, arrival = the current group's arrival + da for
             dd, da around 0 and around the burst time (and Lost), after a first acknowledgement that is received or lost;
     rate:   arrival = the newest window entry's arrival + {-1, 0, 1} ms or the oldest entry's arrival + {W - 1, W, W + 1} ms
             (or Lost), sizes {0, 1200}.
   Each behaviour carries the outputs the specification predicts (field exp) so that a script is self-describing; the
   verdict is taken by Trace_GccGrow on the recorded trace. *)
EXTENDS GccGroups, Json
CONSTANTS L, Mode
VARIABLES g, r, hist
vars == <<g, r, hist>>
DD == {-1, 0, 1, BT, BT + 1, 2 * BT}
DA == {-1, 0, 1, BT, BT + 1}
LostMark == 7777777
Ev(id, dep, arr, sz) == [id |-> id, dep |-> dep, arr |-> arr, size |-> sz]
First == {Ev(1, 100000, 200000, 1200), Ev(1, 100000, Lost, 1200)}
Init == /\ hist \in {<<a>> : a \in (IF Mode = "groups" THEN First ELSE {Ev(1, 0, 1000, 1200), Ev(1, 0, Lost, 1200)})}
        /\ g = GroupStep(NoGroup, hist[1])
        /\ r = RateStep(RateFresh, hist[1])
NextGroups ==
  \E dd \in DD, da \in DA \cup {LostMark} :
     LET a == Ev(Len(hist) + 1, g.dep + dd,
                 IF da = LostMark THEN Lost ELSE IF g.arr = Lost THEN 200000 + da ELSE g.arr + da, 1200) IN
     /\ a.arr >= Lost /\ g' = GroupStep(g, a) /\ hist' = Append(hist, a) /\ UNCHANGED r
NextRate ==
  \E k \in {"n-1", "n0", "n1", "o-1", "o0", "o1", "lost"}, sz \in {0, 1200} :
     LET newest == IF r.h = <<>> THEN 1000 ELSE r.h[Len(r.h)].arr
         oldest == IF r.h = <<>> THEN 1000 ELSE r.h[1].arr
         arr == CASE k = "n-1" -> newest - 1 [] k = "n0" -> newest [] k = "n1" -> newest + 1
                  [] k = "o-1" -> oldest + W - 1 [] k = "o0" -> oldest + W [] k = "o1" -> oldest + W + 1
                  [] OTHER -> Lost
         a == Ev(Len(hist) + 1, 0, arr, sz) IN
     /\ (k = "lost" => sz = 1200)
     /\ r' = RateStep(r, a) /\ hist' = Append(hist, a) /\ UNCHANGED g
Next == Len(hist) < L + 1 /\ IF Mode = "groups" THEN NextGroups ELSE NextRate
Leaf == IF Len(hist) = L + 1 THEN PrintT(<<"TRACE", ToJson(hist)>>) /\ FALSE ELSE TRUE
=============================================================================

SPECIFICATION Spec
CONSTANTS
  Classes <- AllClasses
  MaxLen = 4
  NPackets = 3
  MaxInj = 1
INVARIANTS ExactlyOnceInOrder OnlyTwccAdded ErrorsSurface CloseOnce
CHECK_DEADLOCK FALSE

--------------------------- MODULE Gen_GccOveruse ---------------------------
(* (G) sample sequences for the overuse detector at the real constants: after the warm-up sample every sequence of L
   samples over an alphabet relative to the specification state: the raw estimate is chosen so that the scaled estimate
   (numDeltas x estimate) lies just above / at / below the threshold in force, far above it, at zero, or mirrored below
   the negative threshold; the threshold is 6 ms or 12.5 ms; the elapsed time since the previous sample is 4, 6, 11 or
   21 ms (the 10 ms overuse time is crossed by the first over-threshold sample, whose duration counts half, or after two
   or three samples). *)
EXTENDS GccOveruse, Json
CONSTANTS L
VARIABLES nd, d, hist
vars == <<nd, d, hist>>
Ev(e, th, dl) == [est |-> e, th |-> th, delta |-> dl]
Init == nd = 1 /\ d = DetStep(DetFresh, Compare(0, 0, 12500), 0) /\ hist = <<Ev(0, 12500, 4000000)>>
Next ==
  /\ Len(hist) < L + 1
  /\ \E th \in {6000, 12500}, k \in {"over", "far", "at", "zero", "under", "atneg"}, dl \in {4000000, 6000000, 11000000, 21000000} :
       LET m == Min2(nd + 1, MaxDeltas)
           q == th \div m
           e == CASE k = "over" -> q + 1 [] k = "far" -> q + 50 [] k = "at" -> q
                  [] k = "zero" -> 0 [] k = "under" -> -(q + 1) [] OTHER -> -q
           c == Compare(nd, e, th)
           dur == IF c.use = "overuse" THEN DurAfter(d, dl) ELSE 0 IN
       /\ nd' = nd + 1 /\ d' = DetStep(d, c, dur) /\ hist' = Append(hist, Ev(e, th, dl))
Leaf == IF Len(hist) = L + 1 THEN PrintT(<<"TRACE", ToJson(hist)>>) /\ FALSE ELSE TRUE
=============================================================================

INIT Init
NEXT Next
CONSTANTS
  L = 1
CONSTRAINT Leaf
CHECK_DEADLOCK FALSE

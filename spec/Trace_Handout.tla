--------------------------- MODULE Trace_Handout ---------------------------
(* (T) side trace of the in-package harnesses: every object the code under test handed out during a script (a report
   returned by an exported builder, an RTCP packet passed to the bound writer) is rendered when it is handed out
   ("emit") and again at the end of the script ("end"), after the producer has gone on working.  Handout!Intact
   requires both renderings to agree.  One reset event per script, in script order. *)
EXTENDS Integers, Sequences, TLC, Json, IOUtils
Trace == ndJsonDeserialize(IOEnv.VERIF_TRACE)
VARIABLES l
Init == l = 1
Accept(e) == e.a = "reset" \/ e.emit = e.end
Next ==
  /\ l <= Len(Trace)
  /\ LET e == Trace[l] IN
     IF Accept(e) THEN l' = l + 1
     ELSE PrintT(<<"MISMATCH", l, "handed out", e.emit, "later", e.end>>) /\ l' = l + 1
HW == TLCSet(1, IF TLCGet(1) < l THEN l ELSE TLCGet(1))
ASSUME TLCSet(1, 0)
Post == PrintT(<<"HW", TLCGet(1), Len(Trace)>>) /\ TLCGet(1) = Len(Trace) + 1
=============================================================================

SPECIFICATION Spec
CONSTANTS
  Cells <- C2
  Values <- V2
  Retain = "ref"
  MaxCalls = 3
INVARIANTS NonInterference
CHECK_DEADLOCK FALSE

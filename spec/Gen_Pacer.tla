----------------------------- MODULE Gen_Pacer -----------------------------
(* (G) single-producer script generator for C17: every sequence of L actions over an alphabet that is relative to the
   specification state (packet sizes at the edges of the current burst allowance), at the real constants.
     write(s, bytes)   bytes on the wire: header only, +1, 1212, 1472, and - when the burst is the 1500-byte floor -
                       one byte below the burst, exactly the burst, one byte above it (the machine must refuse that one)
     setrate(r)        a different rate
     sleep(ms)         an idle gap of one tick / several ticks
     quiesce           wait until everything accepted has been released
   for every initial rate and tick interval.  Streams: 1 and 2 are bound; for the gcc pacers 9 has no registered writer.
   The harness executes each script in real time on the real pacer; Trace_Pacer validates the recorded trace. *)
EXTENDS Pacer, Json
CONSTANTS Kind, L, Rates, Ivals
VARIABLES st, hist
vars == <<st, hist>>
RatesTB == {100, 1000, 2500, 50000}        \* bits per ms
RatesGcc == {100, 1000, 50000}
Iv15 == {1, 5}
Iv5 == {5}
Streams == IF IsTB(Kind) THEN {1, 2} ELSE {1, 2, 9}
B == st.burst \div 8
Sizes == {12, 13, 1212, 1472} \cup (IF IsTB(Kind) /\ B <= 1532 THEN {B - 1, B, B + 1} ELSE {1532})
Ev(a, s, bytes, rate, ms, refuse) ==
  [a |-> a, s |-> s, bytes |-> bytes, rate |-> rate, ms |-> ms, refuse |-> refuse, rate0 |-> hist[1].rate0, ival |-> st.ival]
Init == \E r \in Rates, i \in Ivals :
          /\ st = [New(Kind, r, i) EXCEPT !.streams = {1, 2}]
          /\ hist = <<[a |-> "new", s |-> 0, bytes |-> 0, rate |-> r, ms |-> 0, refuse |-> FALSE, rate0 |-> r, ival |-> i]>>
Next ==
  /\ Len(hist) < L + 1
  /\ \/ \E s \in Streams, n \in Sizes :
          /\ st' = IF MustRefuse(st, s, 8 * n) THEN st ELSE AcceptStep(st, Len(hist))
          /\ hist' = Append(hist, Ev("write", s, n, st.rate, 0, MustRefuse(st, s, 8 * n)))
     \/ \E r \in Rates \ {st.rate} :
          /\ st' = SetRateStep(st, r) /\ hist' = Append(hist, Ev("setrate", 0, 0, r, 0, FALSE))
     \/ \E k \in {1, 3} :
          /\ hist' = Append(hist, Ev("sleep", 0, 0, st.rate, k * st.ival, FALSE)) /\ UNCHANGED st
     \/ /\ st.q # <<>> /\ st' = [st EXCEPT !.q = <<>>]
        /\ hist' = Append(hist, Ev("quiesce", 0, 0, st.rate, 0, FALSE))
Leaf == IF Len(hist) = L + 1 THEN PrintT(<<"TRACE", ToJson(hist)>>) /\ FALSE ELSE TRUE
=============================================================================

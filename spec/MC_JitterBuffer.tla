------------------------- MODULE MC_JitterBuffer -------------------------
(* (M) exhaustive check of the jitter-buffer specification at scaled-down constants: numbers modulo M
   (8), minimum start count 1..3, every sequence of at most MaxSteps state-changing operations
   (Push of any number, successful Pop / PopAtSequence / PopAtTimestamp, SetPlayoutHead, Clear(b)).
   Operations that cannot change the state (failed pops, Peek, PeekAtSequence, PriorityQueue.Find) are
   not steps: their clauses are invariants quantified over ALL their arguments in every reachable state.
   The clauses of C18 are stated over the history variables `pushed` / `returned` / `cleared`, which the
   specification operators never read. *)
EXTENDS JitterBuffer
CONSTANTS MaxSteps, Mins, DefMin, Over
VARIABLES c,         \* configuration (chosen in Init)
          x,         \* JitterBuffer state
          pushed,    \* sequence of all entries ever pushed; identity = index
          returned,  \* successful pops: [k |-> "pop"/"popseq"/"popts", id, n, ts, ep]
          cleared,   \* identities that were buffered when some Clear was called
          ep,        \* playout-head epoch: +1 whenever the head is moved other than by a pop at the head
          first,     \* [n, ep]: number of the first packet buffered of the current playout (-1: none yet) and its epoch
          steps
vars == <<c, x, pushed, returned, cleared, ep, first, steps>>
\* the per-state clauses about results (MC_JitterBuffer_ops.cfg) depend on x only: the history is hidden there
OpsView == <<c, x, steps, Len(pushed)>>

Nums  == 0 .. M - 1
TsOf(n) == n \div 2                     \* two neighbouring numbers share a timestamp
TSs   == {TsOf(n) : n \in Nums}
Last(s) == s[Len(s)]

Init == /\ c \in {[min |-> m, defmin |-> DefMin, over |-> Over] : m \in Mins}
        /\ x = JBInit(c)
        /\ pushed = <<>> /\ returned = <<>> /\ cleared = {} /\ ep = 0 /\ first = [n |-> -1, ep |-> 0] /\ steps = 0

Ret(k, r, n, t) == [k |-> k, id |-> r.id, n |-> n, ts |-> t, ep |-> ep]

Push(n) == LET e == Entry(n, Len(pushed) + 1, TsOf(n)) IN
           /\ x' = JBPushStep(c, x, e) /\ pushed' = Append(pushed, e)
           /\ first' = (IF x.buf = {} /\ ~x.ready THEN [n |-> n, ep |-> ep] ELSE first)
           /\ UNCHANGED <<c, returned, cleared, ep>>
Pop == \E r \in JBPopOut(x) : IsOk(r)
           /\ x' = JBPopStep(x, r) /\ returned' = Append(returned, Ret("pop", r, x.head, -1))
           /\ UNCHANGED <<c, pushed, cleared, ep, first>>
PopSeq(n) == \E r \in JBPopAtSeqOut(x, n) : IsOk(r)
           /\ x' = JBPopAtSeqStep(x, r)
           /\ returned' = Append(returned, Ret(IF n = x.head THEN "pop" ELSE "popseq", r, n, -1))
           /\ ep' = (IF n = x.head THEN ep ELSE ep + 1)
           /\ UNCHANGED <<c, pushed, cleared, first>>
PopTs(t) == \E r \in JBPopAtTsOut(x, t) : IsOk(r)
           /\ x' = JBPopAtTsStep(x, r) /\ returned' = Append(returned, Ret("popts", r, -1, t))
           /\ UNCHANGED <<c, pushed, cleared, ep, first>>
SetHead(n) == x' = JBSetHeadStep(x, n) /\ ep' = ep + 1 /\ UNCHANGED <<c, pushed, returned, cleared, first>>
Clear(b) == x' = JBClearStep(c, x, b) /\ cleared' = cleared \cup Ids(x.buf)
            /\ ep' = (IF b THEN ep + 1 ELSE ep)        \* Clear(true) forgets the playout position: a new playout starts
            /\ UNCHANGED <<c, pushed, returned, first>>

Next == /\ steps < MaxSteps /\ steps' = steps + 1
        /\ \/ \E n \in Nums : Push(n) \/ PopSeq(n) \/ SetHead(n)
           \/ Pop
           \/ \E t \in TSs : PopTs(t)
           \/ \E b \in BOOLEAN : Clear(b)
Spec == Init /\ [][Next]_vars

\* ------------------------------------------------------------------ sanity
TypeOK == /\ x.head \in Nums /\ x.last \in Nums /\ x.st \in {"B", "E"}
          /\ \A e \in x.buf : e.id \in DOMAIN pushed /\ pushed[e.id] = e
          /\ (x.st = "E" => x.ready)

\* every result set a method may return in state x (pops, peeks, finds), with the number asked for (-1: by timestamp)
AllOuts == {<<"pop", x.head, JBPopOut(x)>>}
           \cup {<<"popseq", n, JBPopAtSeqOut(x, n)>> : n \in Nums}
           \cup {<<"popts", -1, JBPopAtTsOut(x, t)>> : t \in TSs}
           \cup {<<"peek", IF b /\ x.st = "E" THEN x.head ELSE x.last, JBPeekOut(x, b)>> : b \in BOOLEAN}
           \cup {<<"peekseq", n, JBPeekAtSeqOut(x, n)>> : n \in Nums}
           \cup {<<"qfind", n, PQFindOut(x.buf, n)>> : n \in Nums}
           \cup {<<"qpopat", n, PQPopAtOut(x.buf, n)>> : n \in Nums}
           \cup {<<"qpopts", -1, PQPopAtTsOut(x.buf, t)>> : t \in TSs}
           \cup {<<"qpop", -1, PQPopOut(x.buf)>>}
IsPop(k) == k \in {"pop", "popseq", "popts"}

\* ------------------------------------------------------------------ the clauses of C18
\* each returned packet is the very object pushed with the number (timestamp) asked for
VeryObject == \A i \in DOMAIN returned : LET r == returned[i] IN
                 /\ r.id \in DOMAIN pushed
                 /\ (r.k \in {"pop", "popseq"} => pushed[r.id].n = r.n)
                 /\ (r.k = "popts" => pushed[r.id].ts = r.ts)
\* never returned twice
AtMostOnce == \A i, j \in DOMAIN returned : returned[i].id = returned[j].id => i = j
\* successive successful pops at the playout head (within one head epoch) return consecutive numbers mod M ...
HeadPops(e) == SelectSeq(returned, LAMBDA r : r.k = "pop" /\ r.ep = e)
Consecutive == \A e \in 0 .. ep : LET s == HeadPops(e) IN
                 \A i \in 1 .. Len(s) - 1 : s[i + 1].n = (s[i].n + 1) % M
\* ... starting at the first packet buffered
StartsAtFirst == HeadPops(first.ep) # <<>> => HeadPops(first.ep)[1].n = first.n
\* any result of any pop / peek / find is a currently buffered packet with the number asked for; the only
\* nondeterminism is among duplicates of one number
NumOf(id) == (CHOOSE e \in x.buf : e.id = id).n
ResultsFromBuf == \A o \in AllOuts :
                    /\ o[3] # {}
                    /\ \A r \in o[3] : IsOk(r) => /\ r.id \in Ids(x.buf)
                                                  /\ (o[2] >= 0 => NumOf(r.id) = o[2])
                    /\ \A r1, r2 \in o[3] : r1 # r2 => IsOk(r1) /\ IsOk(r2) /\ NumOf(r1.id) = NumOf(r2.id)
\* after Clear nothing buffered earlier is buffered (hence, with ResultsFromBuf, returnable) ...
ClearedGone == Ids(x.buf) \cap cleared = {}
ClearEmpties == [][ \A b \in BOOLEAN : x' = JBClearStep(c, x, b) => x'.buf = {} ]_vars
\* ... and nothing returned was cleared before
ReturnedNotCleared == [][ returned' # returned => Last(returned').id \notin cleared ]_vars
\* a failed pop leaves the buffer (and the playout head) unchanged
FailedPopNoChange ==
  /\ \A r \in JBPopOut(x) : ~IsOk(r) => JBPopStep(x, r) = x
  /\ \A n \in Nums : \A r \in JBPopAtSeqOut(x, n) : ~IsOk(r) => JBPopAtSeqStep(x, r) = x
  /\ \A t \in TSs : \A r \in JBPopAtTsOut(x, t) : ~IsOk(r) => JBPopAtTsStep(x, r) = x
  /\ \A n \in Nums : \A r \in PQPopAtOut(x.buf, n) : ~IsOk(r) => PQPopStep(x.buf, r) = x.buf
\* a pop for a number that is not buffered fails
AbsentFails == \A n \in Nums : WithNum(x.buf, n) = {} =>
                 /\ \A r \in JBPopAtSeqOut(x, n) \cup JBPeekAtSeqOut(x, n) \cup PQFindOut(x.buf, n) : ~IsOk(r)
                 /\ (n = x.head => \A r \in JBPopOut(x) : ~IsOk(r))
\* a successful pop removes exactly the returned packet
PopRemovesOne == [][ returned' # returned =>
                       x'.buf = {e \in x.buf : e.id # Last(returned').id} /\ Last(returned').id \in Ids(x.buf) ]_vars
\* popping before playback starts is refused; playback starts when the minimum count is reached
RefusedWhileBuffering == x.st = "B" => \A o \in AllOuts : IsPop(o[1]) => o[3] = {Err("buffering")}
StartRule == [][ /\ (x.st = "B" /\ x'.st = "E" => Cardinality(x'.buf) >= x.min)
                 /\ (x.st = "B" /\ x'.st = "B" /\ x'.buf # {} => Cardinality(x'.buf) < x'.min)
                 /\ (x.st = "E" /\ x'.st = "B" => x'.buf = {}) ]_vars
=============================================================================

SPECIFICATION Spec
CONSTANTS
  M = 8
  W = 4
  Rate = 1000
  Latest = FALSE
  T0 = 7
  MaxSteps = 5
INVARIANTS ReachWrap
CHECK_DEADLOCK FALSE

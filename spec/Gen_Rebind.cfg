INIT Init
NEXT Next
CONSTANTS
  LH = 2
  LB = 1
  KnobSet <- KnobsPair
  KindSet <- KindsAll
CONSTRAINT Leaf
CHECK_DEADLOCK FALSE

SPECIFICATION Spec
CONSTANTS
  M = 16
  Hist = 4
  Cap = 5
  JS = 256
  Rate = 1000
  MaxSteps = 5
  Deltas <- DeltasAll
  Moves <- MovesLoss
INVARIANTS AsFoundAlways
CHECK_DEADLOCK FALSE

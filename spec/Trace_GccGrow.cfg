INIT Init
NEXT Next
CONSTANTS
  BT = 5000
  W = 500
  OT = 10000000
  MaxDeltas = 60
  MaxTh = 600000
CONSTRAINT HW
POSTCONDITION Post
CHECK_DEADLOCK FALSE

--------------------------- MODULE Gen_FbDecode ---------------------------
(* (G) behaviour generator for C09 at the real constants (M = 65536, LRU of 250).
   A behaviour = warm-up runs (N0 transport-wide packets starting at Base, so that Base near 65536 wraps and
   N0 > 250 leaves evicted packets in flight; three RFC 8888 packets on SSRC 2) followed by L actions over an
   alphabet that is RELATIVE TO THE SPECIFICATION STATE (oldest / newest remembered number, report cursor):
     Mode "cc":     La send actions (next / skip one number / re-send the oldest remembered / RFC 8888 packet),
                    then ONE feedback drawn from the full abstract syntax:
                    every chunk type and symbol size, one or two chunks, status count = total / total - 1
                    (padded vector, run length beyond the count) / first symbol of the last chunk only,
                    base before / at / inside / after the remembered range; CCFB blocks with every metric form.
     Mode "rtpfb":  L actions, each a send or a (possibly compound) feedback relative to the report cursor:
                    overlapping, duplicated, already reported, not yet sent ranges.
   Each complete behaviour is printed as one JSON script; the Go harnesses execute it on the real code and the
   recorded trace is validated by Trace_FbDecode. *)
EXTENDS FbDecode, Json
CONSTANTS Mode, Base, N0, La, L
VARIABLES lru, h, nextW, nextQ, nact, hist
vars == <<lru, h, nextW, nextQ, nact, hist>>

NoFb == <<>>
Step(a, r, wire, at, fbs) ==
  [a |-> a, ssrc |-> r.ssrc, seq |-> r.seq, tw |-> r.tw, twcc |-> r.twcc, ext |-> r.twcc, n |-> r.n, size |-> r.size,
   dep |-> r.dep, gap |-> r.gap, wire |-> wire, at |-> at, fbs |-> fbs]
Run(ssrc, seq, tw, twcc, n, size, dep, gap) ==
  [ssrc |-> ssrc, seq |-> seq, tw |-> tw, twcc |-> twcc, n |-> n, size |-> size, dep |-> dep, gap |-> gap]
NoRun == Run(0, 0, 0, FALSE, 0, 0, 0, 0)

Warm1 == Run(1, 65500, Base % M, TRUE, N0, 1000, 0, 1000)
Warm2 == Run(2, 65534, 0, FALSE, 3, 400, N0 * 1000, 1000)
T0 == (N0 + 3) * 1000           \* departure clock after the warm-up

Init == /\ lru = AdRun(AdRun(Ad0, Warm1), Warm2)
        /\ h = HRun(HRun(H0, Warm1), Warm2)
        /\ nextW = (Base + N0) % M /\ nextQ = (65534 + 3) % M /\ nact = 0
        /\ hist = <<Step("run", Warm1, FALSE, 0, NoFb), Step("run", Warm2, FALSE, 0, NoFb)>>

\* ------------------------------------------------------------------ sends
Now == T0 + 1000 * (Len(hist) - 2)
OldestW == LET S == {i \in 1 .. Len(lru.ord) : lru.ord[i][1] = 0} IN lru.ord[CHOOSE i \in S : \A j \in S : j <= i][2]
NewestW == (nextW + M - 1) % M
SendRuns ==
  { Run(1, (65500 + N0 + nact) % M, nextW, TRUE, 1, 700 + nact, Now, 0),              \* next number
    Run(1, (65500 + N0 + nact) % M, (nextW + 1) % M, TRUE, 1, 710 + nact, Now, 0),    \* skip one number
    Run(1, 100 + nact, OldestW, TRUE, 1, 720 + nact, Now, 0),                         \* re-send the oldest remembered
    Run(2, nextQ, 0, FALSE, 1, 730 + nact, Now, 0) }                                  \* RFC 8888 stream
DoSend(r) == /\ lru' = AdRun(lru, r) /\ h' = HRun(h, r)
             /\ nextW' = (IF r.twcc /\ r.tw # OldestW THEN (r.tw + 1) % M ELSE nextW)
             /\ nextQ' = (IF r.twcc THEN nextQ ELSE (nextQ + 1) % M)
             /\ hist' = Append(hist, Step("run", r, FALSE, 0, NoFb))

\* ------------------------------------------------------------------ TWCC feedback from the abstract syntax
Rl(s, l) == [t |-> "rl", sym |-> s, len |-> l, syms |-> <<>>]
V1(q)    == [t |-> "v1", sym |-> 0, len |-> 0, syms |-> q]
V2(q)    == [t |-> "v2", sym |-> 0, len |-> 0, syms |-> q]
ChunkKinds == { Rl(0, 2), Rl(1, 3), Rl(2, 2),
                V1(<<1, 1, 0, 1, 0, 0, 0, 0, 0, 0, 0, 0, 0, 0>>), V1(<<0, 1, 1, 1, 1, 1, 1, 1, 1, 1, 1, 1, 1, 1>>),
                V2(<<1, 2, 0, 2, 1, 0, 0>>), V2(<<2, 0, 1, 1, 2, 1, 2>>), V2(<<1, 0, 0, 0, 0, 0, 0>>) }
ChunkLists == {<<c>> : c \in ChunkKinds} \cup {<<c, d>> : c \in ChunkKinds, d \in ChunkKinds}
\* the statuses for which the wire parser (pion/rtcp) expects a delta: run lengths clamped to the status count,
\* every symbol of a vector chunk
RECURSIVE WireSyms(_, _, _, _)
WireSyms(cs, j, done, cnt) ==
  IF j > Len(cs) THEN <<>>
  ELSE LET c == cs[j] IN
       IF c.t = "rl"
       THEN LET k == Min(Max(cnt - done, 0), c.len) IN
            (IF IsDelta(c.sym) THEN [x \in 1 .. k |-> c.sym] ELSE <<>>) \o WireSyms(cs, j + 1, done + k, cnt)
       ELSE SelectSeq(c.syms, IsDelta) \o WireSyms(cs, j + 1, done + Len(c.syms), cnt)
DeltaVal(j, ty) == IF ty = 1 THEN ((j * 37) % 250) + 1
                   ELSE IF j % 2 = 1 THEN 256 + 11 * j ELSE 0 - (3 * j + 1)
Twcc(b, cnt, ref, cs) ==
  LET ws == WireSyms(cs, 1, 0, cnt) IN
  [k |-> "twcc", base |-> b % M, count |-> cnt, ref |-> ref, chunks |-> cs,
   deltas |-> [j \in 1 .. Len(ws) |-> DeltaVal(j, ws[j])], dtypes |-> ws, rts |-> 0, blocks |-> <<>>]
Counts(cs) == LET t == SumLen(cs, 1)  ll == ChunkLen(cs[Len(cs)]) IN {t, t - 1, t - (ll - 1)}
TwccBasesCc == {OldestW + M - 2, OldestW, NewestW + M - 2, NewestW, NewestW + 1}
TwccFbsCc == UNION {{Twcc(b, cnt, 3, cs) : cnt \in Counts(cs)} : b \in TwccBasesCc, cs \in ChunkLists}

\* ------------------------------------------------------------------ CCFB feedback
Mb(r, e, a) == [r |-> r, ecn |-> e, ato |-> a]
MbLists == { <<Mb(1, 0, 0), Mb(0, 0, 0), Mb(1, 1, 1023), Mb(1, 2, 8191), Mb(1, 3, 8190)>>,
             <<Mb(0, 0, 0)>>, <<Mb(1, 1, 5), Mb(1, 0, 8191)>> }
Ccfb(rts, bs) == [k |-> "ccfb", base |-> 0, count |-> 0, ref |-> 0, chunks |-> <<>>, deltas |-> <<>>, dtypes |-> <<>>,
                  rts |-> rts, blocks |-> bs]
Block(s, b, q) == [ssrc |-> s, begin |-> b % M, mbs |-> q]
FirstQ == 65534
CcfbFbsCc ==
  {Ccfb(20 * 65536 + 77, <<Block(2, b, q)>>) : b \in {FirstQ - 1, FirstQ, nextQ + M - 1, nextQ}, q \in MbLists}
  \cup {Ccfb(21 * 65536 + 40000, <<Block(3, FirstQ, q), Block(2, FirstQ + 1, q)>>) : q \in MbLists}

\* ------------------------------------------------------------------ feedback relative to the report cursor (rtpfb)
CursorW == IF h.next < Len(h.pk) /\ h.pk[h.next + 1].twcc THEN h.pk[h.next + 1].tw ELSE NewestW
CursorQ == LET S == {i \in h.next + 1 .. Len(h.pk) : ~h.pk[i].twcc} IN
           IF S = {} THEN nextQ ELSE h.pk[CHOOSE i \in S : \A j \in S : i <= j].seq
SmallLists == { <<Rl(1, 2)>>, <<Rl(0, 1), Rl(1, 1)>>, <<Rl(2, 3)>>, <<V2(<<1, 0, 2, 0, 0, 0, 0>>)>>,
                <<V1(<<0, 1, 1, 0, 0, 0, 0, 0, 0, 0, 0, 0, 0, 0>>)>>, <<Rl(0, 2), V2(<<0, 2, 1, 1, 0, 0, 0>>)>> }
SmallCounts(cs) == LET t == SumLen(cs, 1)  ll == ChunkLen(cs[Len(cs)]) IN
                   IF cs[Len(cs)].t = "rl" THEN {t, t - 1} ELSE {t - ll + 2, t - ll + 3}
TwccFbsH == UNION {{Twcc(b, cnt, 5, cs) : cnt \in {c \in SmallCounts(cs) : c > 0}} :
                     b \in {CursorW + M - 1, CursorW, CursorW + 1, NewestW, NewestW + 1}, cs \in SmallLists}
CcfbFbsH == {Ccfb(30 * 65536 + 1234, <<Block(2, b, q)>>) : b \in {CursorQ + M - 1, CursorQ, CursorQ + 1},
                q \in {<<Mb(1, 1, 100), Mb(0, 0, 0), Mb(1, 0, 8191)>>, <<Mb(0, 0, 0), Mb(1, 2, 0)>>}}
CompoundsH == {<<Twcc(CursorW, 2, 5, <<Rl(1, 2)>>), Twcc(CursorW + 1, 2, 6, <<Rl(0, 1), Rl(2, 1)>>)>>,
               <<Twcc(CursorW, 3, 5, <<Rl(1, 3)>>), Twcc(CursorW, 1, 5, <<V2(<<1, 0, 0, 0, 0, 0, 0>>)>>)>>,
               <<Twcc(CursorW + 1, 1, 5, <<Rl(2, 1)>>), Ccfb(30 * 65536, <<Block(2, CursorQ, <<Mb(1, 3, 7)>>)>>)>>}

DoFb(fbs) == /\ hist' = Append(hist, Step("fb", NoRun, TRUE, Now, fbs))
             /\ h' = HAfter(HFeedAll(h, fbs, 1))
             /\ UNCHANGED <<lru, nextW, nextQ>>

Next ==
  /\ nact < L /\ nact' = nact + 1
  /\ IF Mode = "cc"
     THEN IF nact < La THEN \E r \in SendRuns : DoSend(r)
          ELSE \/ \E fb \in TwccFbsCc : DoFb(<<fb>>)
               \/ \E fb \in CcfbFbsCc : DoFb(<<fb>>)
     ELSE \/ \E r \in {r \in SendRuns : r.tw # (nextW + 1) % M} : DoSend(r)
          \/ \E fb \in TwccFbsH \cup CcfbFbsH : DoFb(<<fb>>)
          \/ \E fbs \in CompoundsH : DoFb(fbs)

Leaf == IF nact = L THEN PrintT(<<"TRACE", ToJson(hist)>>) /\ FALSE ELSE TRUE
=============================================================================

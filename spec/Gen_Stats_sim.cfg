INIT Init
NEXT Next
CONSTANTS
  M = 65536
  K = 5
  Base = 65534
  OBase = 65535
  Pre = 0
  L = 6
INVARIANT LeafInv
CHECK_DEADLOCK FALSE

SPECIFICATION Spec
CONSTANTS
  Cap = 1
  SSRC = {1, 2}
  MaxSteps = 5
  Periodic = FALSE
  Variant = "spec"
INVARIANTS TypeOK RegisteredIsSupported TickOnlySupported ForcedFifo NoEmptyCompound NoWriteWithoutWriter NoTickWithoutInterval
PROPERTIES TickExact NothingAfterClose PendingServed
CHECK_DEADLOCK FALSE

------------------------------ MODULE RttLoop ------------------------------
(* GROWTH (composition across C07, C06, C19, C20): the RTCP round-trip-time loop as ONE specification.

     A (media sender)                                         B (media receiver)
     report.SenderInterceptor + stats.Interceptor             report.ReceiverInterceptor
       SendSR at t0 ------------------ d1 -------------------> DeliverSR   (B remembers the middle 32 NTP bits
                                                                             and ITS OWN clock reading)
       DeliverRR  <------------------- d2 -------------------- SendRR after holding the SR for h  (LSR, DLSR)
       statistics: round-trip time = now - LSR - DLSR
     and the same through extended reports: RRTR block written through A, DLRR sub-block (LastRR, DLRR) read by A.

   Nothing of the four hops is specified again.  The hop specifications are INSTANCEd and composed:
     SRm  SenderReport.tla     NtpSec / NtpFrac20: the NTP time a sender report carries for A's clock reading   (C07)
     RRm  ReceiverReport.tla   SrStep, ReportOut, ReportAccept, Dlsr: what B remembers of an SR and reports      (C06)
     STm  Stats.tla            OutRtcpStep, InRtcpStep, RttOf, RttAdd, NearDur: A's history and its RTT figures   (C19)
     Ntp.tla                   Mid32 (the middle form), here on the (seconds, fraction) pair because TLC's       (C20)
                               integers are 32-bit: Mid(c, n) below is Ntp!Mid32 of the 64-bit value
                               (epochSeconds + n.sec) * 2^32 + n.frac * 2^12.
   What this module ADDS is the glue the single-hop specifications leave open:
     Mid      which 32 bits of A's NTP time travel in LSR / LastRR (16 bits of seconds: the form repeats after SecMod s)
     Resolve  Stats.tla names the echoed sender report by its INSTANT; on the wire it is named by its middle form, so
              A can only take the newest remembered report with that middle form (zero means "none" on the wire)
   and the END-TO-END property, which no hop states:  RTT reported by A  =  d1 + d2  within the wire resolution.

   Clocks are integer milliseconds, as in the three hop specifications: `ta` is a reading of A's clock (offset from A's
   epoch, a whole second), `tb` a reading of B's clock.  B's clock only ever enters as a DIFFERENCE of two of its own
   readings (RRm!Dlsr) and A's only through A's own readings, so the offset between the clocks cannot matter; the
   model-checking configuration makes the offset a free choice and the property does not mention it.

   Resolution (derivation of the bound).  One wire unit u = 2^-16 s = 15625/1024 us.
     reported = (ta_rr - t0) - DLSR * u                         Stats!RttOf with the instant of the named SR
     ta_rr - t0 = d1 + h + d2                                   the loop
     DLSR = floor(h / u) + e,   e \in {-1, 0, 1}                ReceiverReport!ReportAccept grants the code +-1 unit
     =>  reported - (d1 + d2) = h - DLSR * u  \in  [-u, 2u)     ( [0, u) when DLSR is the exact floor )
   The low 16 bits of the fraction that LSR drops do NOT enter: A looks the full 64-bit time of the SR up in its own
   history, LSR only selects the entry.  The code's float64 conversions add what C20 / C19 grant them (2 us, Trace_RttLoop).

   No measurement (and no wrong one) when: B has not seen an SR (LSR = DLSR = 0), the named SR is no longer among the
   K remembered ones, DLSR = 0 (B reported in the same 1/65536 s in which the SR arrived: on the wire that is "no SR
   yet", RFC 3550 6.4.1), or the SR was stamped in the very 1/65536 s at which the middle form is zero (LSR = 0 is
   "none" as well).  If two remembered SRs are a multiple of SecMod seconds apart they are indistinguishable on the
   wire (18.2 h at the real constants): the property is conditional on that not being the case.               *)
EXTENDS Integers, Sequences, FiniteSets, TLC

CONSTANTS K,        \* sender reports / RRTR times A remembers (5 in the code)
          SecMod    \* the middle form keeps the NTP seconds modulo SecMod (65536 in the code: 18.2 hours)

SRm == INSTANCE SenderReport   WITH M <- 65536, W <- 65536
RRm == INSTANCE ReceiverReport WITH M <- 65536, Hist <- 8192, Cap <- 16777215, JS <- 256
STm == INSTANCE Stats          WITH M <- 65536, K <- K

Ssrc   == 1      \* the media stream A sends (abstract syntax of Stats.tla)
Remote == 9      \* SSRC B's reports are sent from (no meaning)

\* ------------------------------------------------------------------ wire forms (glue)
\* c = [wrapIn |-> seconds from A's epoch to the next instant at which the middle form is zero]
\* the NTP time of A's clock reading ta as SenderReport.tla states it: seconds since A's epoch, top 20 bits of the fraction
NtpOf(ta) == [sec |-> SRm!NtpSec(ta), frac |-> SRm!NtpFrac20(ta)]
\* Ntp!Mid32 on that pair: <<seconds mod SecMod, top 16 bits of the fraction>>
Mid(c, n) == <<(n.sec - c.wrapIn) % SecMod, n.frac \div 16>>
NoMid == <<0, 0>>                                  \* LSR / LastRR zero: "none"
\* the instant of the newest remembered report whose middle form is m (ts: instants, ms: their middle forms, aligned)
Resolve(ts, ms, m) ==
  IF m = NoMid \/ ~(\E i \in DOMAIN ms : ms[i] = m) THEN -1
  ELSE ts[CHOOSE i \in DOMAIN ms : ms[i] = m /\ \A j \in DOMAIN ms : ms[j] = m => j <= i]

\* ------------------------------------------------------------------ abstract packets of Stats.tla
Pk(t, ss, ntp, rp) == [t |-> t, ss |-> ss, ms |-> 0, n |-> 0, ntp |-> ntp, pc |-> 0, oc |-> 0, rp |-> rp]
Rep(t, d)     == [s |-> Ssrc, lost |-> 0, frac |-> 0, hi |-> 0, jit |-> 0, lsr |-> t, dlsr |-> d]
SrPkt(t)      == Pk("sr", Ssrc, t, <<>>)
RrPkt(t, d)   == Pk("rr", Remote, -1, <<Rep(t, d)>>)
RrtrPkt(t)    == Pk("xr", Ssrc, t, <<>>)
DlrrPkt(t, d) == Pk("xr", Remote, -1, <<Rep(t, d)>>)

\* ------------------------------------------------------------------ the two endpoints
\* a   A's statistics for the stream (Stats.tla)          asr / axr  middle forms of the remembered SR / RRTR times,
\* b   B's receiver stream (ReceiverReport.tla)                      aligned with a.srs / a.rrtrs
\* bx  the extended-report responder at B: the same two operators (remember middle form + own clock, report delay)
LInit == [a |-> STm!Fresh(Ssrc, 90000), asr |-> <<>>, axr |-> <<>>, b |-> RRm!RFresh, bx |-> RRm!RFresh]

\* p \in {"rr", "xr"}: the sender-report / receiver-report pair or the RRTR / DLRR pair
\* A writes an SR (the sender-report interceptor's tick) or an RRTR block at its clock reading ta; n = NTP time on the wire
ASend(p, c, s, ta, n) ==
  IF p = "rr" THEN [s EXCEPT !.a = STm!OutRtcpStep(@, <<SrPkt(ta)>>),   !.asr = STm!Push(@, Mid(c, n))]
  ELSE             [s EXCEPT !.a = STm!OutRtcpStep(@, <<RrtrPkt(ta)>>), !.axr = STm!Push(@, Mid(c, n))]
\* B reads it at ITS clock reading tb; m = the middle form it carries
BRecv(p, s, m, tb) ==
  IF p = "rr" THEN [s EXCEPT !.b = RRm!SrStep(@, m, tb)] ELSE [s EXCEPT !.bx = RRm!SrStep(@, m, tb)]
BState(p, s) == IF p = "rr" THEN s.b ELSE s.bx
\* what B reports at its clock reading tb: the two fields of the loop
BOut(p, s, tb) == LET o == RRm!ReportOut(BState(p, s), tb) IN [lsr |-> o.lsr, dlsr |-> o.dlsr]
\* an observed (lsr, dlsr) pair is one ReceiverReport.tla accepts (everything else of the block taken as specified)
BAccept(p, s, tb, blk) ==
  RRm!ReportAccept(BState(p, s), tb, [RRm!ReportOut(BState(p, s), tb) EXCEPT !.lsr = blk.lsr, !.dlsr = blk.dlsr])
BReported(p, s) == IF p = "rr" THEN [s EXCEPT !.b = RRm!ReportStep(@)] ELSE s
\* the delay B's specification reports after holding for h ms (used for the DLRR value of generated scenarios)
DelayOf(h) == RRm!Dlsr([hasSr |-> TRUE, srMs |-> 0], h)
\* A reads a reception report / DLRR sub-block carrying (lsr, dlsr) at its clock reading ta
ARecv(p, s, lsr, dlsr, ta) ==
  IF p = "rr" THEN [s EXCEPT !.a = STm!InRtcpStep(@, <<RrPkt(Resolve(s.a.srs, s.asr, lsr), dlsr)>>, ta)]
  ELSE             [s EXCEPT !.a = STm!InRtcpStep(@, <<DlrrPkt(Resolve(s.a.rrtrs, s.axr, lsr), dlsr)>>, ta)]

\* what A's Getter shows of the loop: [rtt, tot, n] of the path (exact durations of Stats.tla)
Obs(p, s) == IF p = "rr" THEN [rtt |-> s.a.rrtt, tot |-> s.a.rtot, n |-> s.a.rn]
             ELSE             [rtt |-> s.a.srtt, tot |-> s.a.stot, n |-> s.a.sm]

\* ------------------------------------------------------------------ the end-to-end property
\* r: an exact duration of Stats.tla ([us, fr] = us - fr * 15625/1024 microseconds), D: the ideal d1 + d2 in ms.
\* r - D in units of 1/1024 us, and the resolution bound  -u <= r - D < 2u  (u = 15625/1024 us)
ErrQ(r, D) == 1024 * (r.us - 1000 * D) - 15625 * r.fr
WithinResolution(r, D) ==
  IF r.us - 1000 * D > 20000 \/ 1000 * D - r.us > 20000 THEN FALSE        \* (r.fr stands for up to 15.6 ms; 32-bit guard)
  ELSE -15625 <= ErrQ(r, D) /\ ErrQ(r, D) < 2 * 15625
\* the same for a figure v logged in whole microseconds, tol us of conversion error on either side
LoopNear(v, D, tol) ==
  IF v - 1000 * D > 1000 \/ 1000 * D - v > 1000 THEN FALSE
  ELSE -15625 - 1024 * tol <= 1024 * (v - 1000 * D) /\ 1024 * (v - 1000 * D) < 2 * 15625 + 1024 * tol

\* ---- named conditions under which the wire format yields no measurement ----
\* the report was stamped in the 1/65536 s in which the middle form is zero
StampedAtZero(c, ta) == Mid(c, NtpOf(ta)) = NoMid
\* B held the report for less than one wire unit
HeldBelowUnit(dlsr) == dlsr = 0
\* instants t1, t2 whose middle forms coincide although they differ (a multiple of SecMod seconds apart)
Aliased(t1, t2) == t1 # t2 /\ (t1 - t2) % (1000 * SecMod) = 0
=============================================================================

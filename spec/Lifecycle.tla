----------------------------- MODULE Lifecycle -----------------------------
(* Generic lifecycle automaton of a feedback-generating interceptor (C11), parameterised by a feature profile
   transcribed from the code (DESIGN.md appendix A.1):
     Handoff        readers hand packets to the loop goroutine over an unbuffered channel (twcc, rfc8888)
     SendSelects    that channel send also selects on the close channel (twcc: yes, rfc8888: no)
     PerStream      per-stream state dropped by Unbind (nack, reports)   vs. never dropped (rfc8888)
   One action per linearization point: call and return of every interface call are separate steps so that
   TLC interleaves Close/Unbind with traffic and with the loop goroutine. *)
EXTENDS Integers, FiniteSets, Sequences, TLC

CONSTANTS Streams, Handoff, SendSelects, PerStream, MaxTicks, MaxReads

VARIABLES closed,     \* the close channel is closed
          loop,       \* "none" | "running" | "exited"
          closeCall,  \* "idle" | "called" | "returned"
          bound,      \* streams with per-stream state
          seen,       \* streams the loop knows about (hand-off profiles: every SSRC ever seen)
          reads,      \* read calls in progress: sequence of [s, pc]  pc: "sending" | "done"
          nreads, ticks,
          emits,      \* emissions: sequence of [about (set of streams), afterClose (BOOLEAN)]
          unbound     \* streams whose Unbind has returned, with the number of emissions about them since
vars == <<closed, loop, closeCall, bound, seen, reads, nreads, ticks, emits, unbound>>

Init == /\ closed = FALSE /\ loop = "none" /\ closeCall = "idle" /\ bound = {} /\ seen = {}
        /\ reads = <<>> /\ nreads = 0 /\ ticks = 0 /\ emits = <<>> /\ unbound = [s \in {} |-> 0]

BindRTCPWriter == /\ loop = "none" /\ ~closed /\ loop' = "running"
                  /\ UNCHANGED <<closed, closeCall, bound, seen, reads, nreads, ticks, emits, unbound>>
BindStream(s) == /\ s \notin bound /\ bound' = bound \cup {s}
                 /\ unbound' = [t \in DOMAIN unbound \ {s} |-> unbound[t]]
                 /\ UNCHANGED <<closed, loop, closeCall, seen, reads, nreads, ticks, emits>>
UnbindStream(s) == /\ s \in bound /\ bound' = bound \ {s}
                   /\ seen' = IF PerStream THEN seen \ {s} ELSE seen
                   /\ unbound' = (s :> 0) @@ unbound
                   /\ UNCHANGED <<closed, loop, closeCall, reads, nreads, ticks, emits>>

\* a packet is read on stream s: without hand-off the state is updated in the reader, with hand-off it is sent
ReadCall(s) == /\ s \in bound /\ nreads < MaxReads /\ nreads' = nreads + 1
               /\ IF Handoff THEN reads' = Append(reads, [s |-> s, pc |-> "sending"]) /\ UNCHANGED seen
                             ELSE reads' = Append(reads, [s |-> s, pc |-> "done"]) /\ seen' = seen \cup {s}
               /\ UNCHANGED <<closed, loop, closeCall, bound, ticks, emits, unbound>>
\* the loop receives the hand-off (rendezvous)
LoopRecv(i) == /\ Handoff /\ loop = "running" /\ reads[i].pc = "sending"
               /\ reads' = [reads EXCEPT ![i].pc = "done"] /\ seen' = seen \cup {reads[i].s}
               /\ UNCHANGED <<closed, loop, closeCall, bound, nreads, ticks, emits, unbound>>
\* the reader gives up because the interceptor is closed (only if its send selects on close)
ReadAbort(i) == /\ Handoff /\ SendSelects /\ closed /\ reads[i].pc = "sending"
                /\ reads' = [reads EXCEPT ![i].pc = "done"]
                /\ UNCHANGED <<closed, loop, closeCall, bound, seen, nreads, ticks, emits, unbound>>

About == IF PerStream /\ ~Handoff THEN seen \cap bound ELSE seen
LoopTick == /\ loop = "running" /\ ~closed /\ ticks < MaxTicks /\ ticks' = ticks + 1
            /\ emits' = IF About = {} THEN emits ELSE Append(emits, [about |-> About, afterClose |-> closeCall = "returned"])
            /\ unbound' = [s \in DOMAIN unbound |-> unbound[s] + (IF s \in About THEN 1 ELSE 0)]
            /\ UNCHANGED <<closed, loop, closeCall, bound, seen, reads, nreads>>
LoopExit == /\ loop = "running" /\ closed /\ loop' = "exited"
            /\ UNCHANGED <<closed, closeCall, bound, seen, reads, nreads, ticks, emits, unbound>>

CloseCall == /\ closeCall = "idle" /\ closeCall' = "called" /\ closed' = TRUE
             /\ UNCHANGED <<loop, bound, seen, reads, nreads, ticks, emits, unbound>>
CloseRet == /\ closeCall = "called" /\ loop # "running" /\ closeCall' = "returned"      \* wg.Wait()
            /\ UNCHANGED <<closed, loop, bound, seen, reads, nreads, ticks, emits, unbound>>

Internal == LoopTick \/ LoopExit \/ CloseRet \/ \E i \in DOMAIN reads : LoopRecv(i) \/ ReadAbort(i)
Next == \/ BindRTCPWriter \/ CloseCall \/ Internal
        \/ \E s \in Streams : BindStream(s) \/ UnbindStream(s) \/ ReadCall(s)
Spec == Init /\ [][Next]_vars /\ WF_vars(LoopExit) /\ WF_vars(CloseRet)
             /\ \A i \in 1 .. MaxReads : WF_vars(i \in DOMAIN reads /\ (LoopRecv(i) \/ ReadAbort(i)))

\* P1: nothing is emitted after Close has returned      P2: Close returns only after the loop has finished
P1 == \A i \in DOMAIN emits : ~emits[i].afterClose
P2 == closeCall = "returned" => loop # "running"
\* P3: every read returns (liveness), in particular reads concurrent with or after Close
Returned(i) == i \in DOMAIN reads /\ (reads[i].pc = "done" \/ (loop = "none" /\ ~closed))
P3 == \A i \in 1 .. MaxReads : [](i \in DOMAIN reads => <>Returned(i))
\* P4: after Unbind has returned, at most one further emission about that stream
P4 == \A s \in DOMAIN unbound : unbound[s] <= 1
CloseReturns == (closeCall = "called") ~> (closeCall = "returned")
=============================================================================

----------------------------- MODULE PacketDump -----------------------------
(* Growth specification (no listed property states this): which packets pkg/packetdump dumps, through which formatter,
   to which stream and in which order, given the configured filters.
   packet_dumper.go, default_packet_logger.go, filter.go, format.go, option.go, sender_/receiver_interceptor.go.

   Packets are descriptors  [t, a, b, pl]:
     RTP    t = "rtp",  a = payload type, b = sequence number, pl = payload bytes
     RTCP   t \in {"rr", "sdes", "pli", "nack"}, a = the SSRC the packet is about, b = lost packet id (nack) or 0, pl = <<>>
   Configuration c (one dumper = one direction):
     rf    RTPFilter(packet)                "all" | "none" | "even"  (payload type even)
     cf    RTCPFilter(compound)             "all" | "none" | "hasfb" (the compound contains a PLI or NACK)
     pf    RTCPPerPacketFilter(packet)      "all" | "none" | "fb"    (the packet is a PLI or NACK)
     rfmt  RTP formatters configured        "text" | "bin" | "both" | "def" (none: the default text formatter)
     cfmt  RTCP formatters configured       "text" | "bin" | "both" | "def"
   A dump is a record [k, st, p]:  k = formatter kind ("rb"/"rt" RTP binary/text, "cb"/"ct" RTCP binary/text, "def" default
   text formatter), st = the stream ("rtp"/"rtcp" writer) that receives the formatter's result, p = the packets the
   formatter was given, AS THEY WERE WHEN THE CALL WAS MADE.

   One operator per call: CallDumps(c, x, call) is the sequence of dumps the call [a |-> "rtp"|"rtcp", p |-> packets] causes;
   dumps of successive calls appear in call order (one logger goroutine, rendezvous hand-off); Close ends dumping; the
   packets are handed on to the next reader/writer unchanged whatever the filters say (Forward). *)
EXTENDS Integers, FiniteSets, Sequences, TLC

IsFb(p) == p.t \in {"pli", "nack"}
AcceptRtp(k, p)       == k = "all" \/ (k = "even" /\ p.a % 2 = 0)
AcceptCompound(k, ps) == k = "all" \/ (k = "hasfb" /\ \E i \in DOMAIN ps : IsFb(ps[i]))
AcceptPkt(k, p)       == k = "all" \/ (k = "fb" /\ IsFb(p))

Dump(k, st, ps) == [k |-> k, st |-> st, p |-> ps]
HasBin(f)  == f \in {"bin", "both"}
TextPart(f, kind, st, ps) ==
  IF f \in {"text", "both"} THEN <<Dump(kind, st, ps)>>
  ELSE IF f = "def" THEN <<Dump("def", st, <<>>)>>          \* default formatter: only "something was written" is observable
  ELSE <<>>

\* RTP: filter once per packet; binary formatter, then text formatter, once each
DumpsRtp(c, p) ==
  IF ~AcceptRtp(c.rf, p) THEN <<>>
  ELSE (IF HasBin(c.rfmt) THEN <<Dump("rb", "rtp", <<p>>)>> ELSE <<>>) \o TextPart(c.rfmt, "rt", "rtp", <<p>>)

\* RTCP: compound filter once per compound; binary formatter once per packet that passes the per-packet filter, in
\* compound order; then the text formatter ONCE with the whole compound (the per-packet filter does not apply to it)
DumpsRtcp(c, ps) ==
  IF ~AcceptCompound(c.cf, ps) THEN <<>>
  ELSE LET B[i \in 0 .. Len(ps)] ==
             IF i = 0 THEN <<>>
             ELSE B[i - 1] \o (IF HasBin(c.cfmt) /\ AcceptPkt(c.pf, ps[i]) THEN <<Dump("cb", "rtcp", <<ps[i]>>)>> ELSE <<>>)
       IN B[Len(ps)] \o TextPart(c.cfmt, "ct", "rtcp", ps)

Open   == [closed |-> FALSE]
CloseStep(x) == [x EXCEPT !.closed = TRUE]
CallDumps(c, x, call) ==
  IF x.closed THEN <<>>                                   \* nothing is dumped after Close
  ELSE IF call.a = "rtp" THEN DumpsRtp(c, call.p[1])
  ELSE DumpsRtcp(c, call.p)
\* a burst of calls: dumps in call order
BurstDumps(c, x, calls) ==
  LET F[i \in 0 .. Len(calls)] == IF i = 0 THEN <<>> ELSE F[i - 1] \o CallDumps(c, x, calls[i]) IN F[Len(calls)]
\* what the next reader / writer is handed, and what the caller's slice holds afterwards: exactly the call's packets
Forward(call) == call.p

\* the formatter callbacks that are invoked (the default formatter is not a callback of the user)
Callbacks(ds) == LET s == SelectSeq(ds, LAMBDA d : d.k # "def") IN [i \in DOMAIN s |-> [k |-> s[i].k, p |-> s[i].p]]

\* ---- behaviours a user may not expect; the specification follows the code, the names are for reports ----
\* ErrBothBinaryAndDeprecatedFormat is tested before the options are applied, so it is never returned: both formatters run
BothFormattersAccepted(c) == c.rfmt = "both" \/ c.cfmt = "both"
\* the text formatter sees packets the per-packet filter rejected
TextIgnoresPerPacketFilter(c, ps) == c.cfmt \in {"text", "both", "def"} /\ \E i \in DOMAIN ps : ~AcceptPkt(c.pf, ps[i])
=============================================================================

SPECIFICATION Spec
CONSTANTS
  Streams <- S2
  Handoff = TRUE
  SendSelects = FALSE
  PerStream = FALSE
  MaxTicks = 2
  MaxReads = 2
INVARIANTS P1 P2
PROPERTIES P3
CHECK_DEADLOCK FALSE

-------------------------- MODULE Trace_IntervalPli --------------------------
(* (T) validates ndjson traces recorded from pkg/intervalpli (GeneratorInterceptor through its public interface, the loop
   stepped through the verif gate "intervalpli.tick") against IntervalPli.  Events:
     {"a":"reset","periodic":bool}                     new instance (interval > 0 or not)
     {"a":"bindw"}                                     BindRTCPWriter returned
     {"a":"bind","s":ssrc,"fb":[{"t":..,"p":..}..]}    BindRemoteStream returned
     {"a":"unbind","s":ssrc} {"a":"unbindl","s":ssrc}  UnbindRemoteStream / UnbindLocalStream returned
     {"a":"force","ss":[ssrc..]}                       ForcePLI returned
     {"a":"run","tick":bool,"w":[[ssrc..]..],"q":n}    the loop ran from one observation point to the next: it executed one
                                                       ticker body first iff tick, wrote the compounds w (in order), and n
                                                       requests are still in the channel afterwards
     {"a":"close","w":[[ssrc..]..]}                    Close returned; w = compounds written since the previous event
     {"a":"end","w":[..]}                              compounds written after Close had returned
     {"a":"blocked","in":..}                           a call or the loop did not come back (never accepted) *)
EXTENDS IntervalPli, Json, IOUtils
CONSTANT Strict      \* TRUE only for the expectation probes: UnbindLocalStream does not touch streams registered by BindRemoteStream
Trace == ndJsonDeserialize(IOEnv.VERIF_TRACE)
KnownSeq == ndJsonDeserialize(IOEnv.VERIF_KNOWN)
Known == {KnownSeq[i].tag : i \in DOMAIN KnownSeq}

VARIABLES l, cfg, x, devs, taint
vars == <<l, cfg, x, devs, taint>>

Init == l = 1 /\ cfg = [periodic |-> TRUE] /\ x = Fresh /\ devs = {} /\ taint = ""

Bags(w) == [i \in DOMAIN w |-> BagOf(w[i])]
IsPrefix(a, b) == Len(a) <= Len(b) /\ \A i \in DOMAIN a : a[i] = b[i]
NonEmptyReqs(p) == LET F[i \in 0 .. Len(p)] == IF i = 0 THEN <<>> ELSE F[i - 1] \o ReqOut(p[i]) IN F[Len(p)]

\* number of requests the loop took during a run event
Took(e) == Len(x.pend) - e.q

Accept(e) ==
  IF e.a \in {"bindw", "bind", "unbind", "unbindl", "force"} THEN TRUE
  ELSE IF e.a = "run" THEN
     /\ x.running
     /\ e.tick => TickEnabled(cfg, x)
     /\ Took(e) \in 0 .. Len(x.pend)
     /\ Bags(e.w) = RunOut(x, e.tick, Took(e))
  ELSE IF e.a = "close" THEN
     \* between the call and the return of Close the loop may still run ticker bodies (each names the registered set) and
     \* take pending requests in order; without a loop nothing is written
     IF ~x.running THEN e.w = <<>>
     ELSE LET tb   == IF TickEnabled(cfg, x) THEN TickOut(x) ELSE <<>>
              rest == SelectSeq(Bags(e.w), LAMBDA b : tb = <<>> \/ b # tb[1])
              req  == SelectSeq(NonEmptyReqs(x.pend), LAMBDA b : tb = <<>> \/ b # tb[1])
          IN IsPrefix(rest, req)
  ELSE IF e.a = "end" THEN x.closed /\ e.w = <<>>
  ELSE FALSE

StepState(e) ==
  IF e.a = "bindw" THEN BindWriterStep(x)
  ELSE IF e.a = "bind" THEN BindRemoteStep(x, e.s, e.fb)
  ELSE IF e.a = "unbind" THEN UnbindStep(x, e.s)
  ELSE IF e.a = "unbindl" THEN (IF Strict THEN x ELSE UnbindStep(x, e.s))
  ELSE IF e.a = "force" THEN ForceStep(x, e.ss)
  ELSE IF e.a = "run" THEN RunStep(x, Took(e))
  ELSE IF e.a = "close" THEN CloseStep(x)
  ELSE x

NewDevs(e) == {}

Next ==
  /\ l <= Len(Trace)
  /\ LET e == Trace[l] IN
     IF e.a = "reset" THEN
        /\ cfg' = [periodic |-> e.periodic]
        /\ x' = Fresh /\ devs' = {} /\ taint' = "" /\ l' = l + 1
     ELSE IF taint # "" THEN l' = l + 1 /\ UNCHANGED <<cfg, x, devs, taint>>
     ELSE IF Accept(e) THEN
        /\ x' = StepState(e) /\ devs' = devs \cup NewDevs(e) /\ l' = l + 1 /\ UNCHANGED <<cfg, taint>>
     ELSE LET k == (devs \cup NewDevs(e)) \cap Known IN
        IF k # {} THEN /\ PrintT(<<"KNOWNDEV", l, CHOOSE t \in k : TRUE>>)
                       /\ taint' = (CHOOSE t \in k : TRUE) /\ l' = l + 1 /\ UNCHANGED <<cfg, x, devs>>
        ELSE /\ PrintT(<<"MISMATCH", l, "event", e, "state", x>>)
             /\ taint' = "mismatch" /\ l' = l + 1 /\ UNCHANGED <<cfg, x, devs>>      \* survey mode: go on with the next trace

HW == TLCSet(1, IF TLCGet(1) < l THEN l ELSE TLCGet(1))
ASSUME TLCSet(1, 0)
Post == PrintT(<<"HW", TLCGet(1), Len(Trace)>>) /\ TLCGet(1) = Len(Trace) + 1
=============================================================================

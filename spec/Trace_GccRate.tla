--------------------------- MODULE Trace_GccRate ---------------------------
(* (T) validates traces recorded from the numeric stages of pkg/gcc against the growth specifications GccRate.tla and
   GccKalman.tla (and, for the wiring of delay_based_bwe.go, GccGroups.tla).  These specifications describe behaviour that
   property C16 does not state: a divergence is printed as <<"GROWTH", line, kind, ...>> (checks/c16.py turns it into a
   NOTE), the rest of that trace is skipped, and validation continues - this module never rejects a trace.  Hazards of
   the code as read that occur in a trace are counted (TLC registers 2 .. 6, printed by the postcondition).

     reset  {lvl, init, min, max}
     lupd   {lost, n, now, b, avg, stl, sti, std}      updateLossEstimate with n results of which `lost` have no arrival
                                                        time, at virtual time now (us); afterwards: bitrate, floor(1e9
                                                        averageLoss), and which of lastLossUpdate / lastIncrease /
                                                        lastDecrease were stamped
     lget   {w, out, oavg, b}                          getEstimate(w): returned TargetBitrate / AverageLoss, bitrate kept
     rrecv  {r, lr}   rrtt {d, lrtt}                   onReceivedRate / updateRTT (us) and the field afterwards
     rds    {usage, st, now, emit, otarget, ostate, ousage, im, om, target, state, stu, ema}
                                                        onDelayStats(sample with Usage, State = st): number of DelayStats
                                                        handed to the writer, its TargetBitrate / State / Usage, the four
                                                        pass-through fields in and out; afterwards: target, state, whether
                                                        lastUpdate was stamped, the decrease-rate EMA
     kal    {m, pest, est, ret, gain, pee, ee, pmu, mu, q, finite}      one kalman.updateEstimate
     wbatch {acks, out: [{m, lrd, usage, state, target, exact}], lr}    one feedback through the real delayController *)
EXTENDS GccGroups, GccKalman, Json, IOUtils
Trace == ndJsonDeserialize(IOEnv.VERIF_TRACE)

VARIABLES l, ls, rc, cfg, g, pg, r, taint
vars == <<l, ls, rc, cfg, g, pg, r, taint>>
NoCfg == [min |-> 0, max |-> 0]
Init == /\ l = 1 /\ ls = LossFresh(0) /\ rc = RcFresh(0) /\ cfg = NoCfg /\ g = NoGroup /\ pg = NoGroup /\ r = RateFresh
        /\ taint = ""

Bump(k) == TLCSet(k, TLCGet(k) + 1)
Diverge(kind, exp, got) == /\ PrintT(<<"GROWTH", l, kind, "expected", exp, "logged", got>>)
                           /\ taint' = kind /\ l' = l + 1 /\ UNCHANGED <<ls, rc, cfg, g, pg, r>>
MapSeq(s, Op(_)) == [i \in 1 .. Len(s) |-> Op(s[i])]

\* ---- loss-based estimator ----------------------------------------------------------------------------------------------
LUpd(e) ==
  IF e.n = 0
  THEN IF e.b = ls.b /\ e.avg = ls.avg /\ ~e.stl /\ ~e.sti /\ ~e.std
       THEN l' = l + 1 /\ UNCHANGED <<ls, rc, cfg, g, pg, r, taint>>
       ELSE Diverge("loss-empty-report", ls, <<e.b, e.avg, e.stl, e.sti, e.std>>)
  ELSE
  LET iv == LossAvgIv(ls, e.lost, e.n, e.now)
      exact == LossExact(ls, e.lost, e.n, e.now)
      inc == LossIncs(ls, e.lost, e.n, e.now, e.avg)
      dec == LossDecs(ls, e.lost, e.n, e.now, e.avg, exact)
      div == LossDecIv(ls.b, e.lost, e.n, e.avg) IN
  IF ~e.stl THEN Diverge("loss-stamp", TRUE, e.stl)
  ELSE IF ~(iv.lo <= e.avg /\ e.avg <= iv.hi) THEN Diverge("loss-average", iv, e.avg)
  ELSE IF ~(e.sti = inc /\ (dec = "amb" \/ e.std = (dec = "yes")))
  THEN Diverge("loss-decision", <<"increase", inc, "decrease", dec, "average", e.avg, "state", ls>>, <<e.sti, e.std>>)
  ELSE IF ~(IF e.sti THEN e.b = LossIncTo(ls.b) ELSE IF e.std THEN div.lo <= e.b /\ e.b <= div.hi ELSE e.b = ls.b)
  THEN Diverge("loss-bitrate", IF e.sti THEN <<"increase", LossIncTo(ls.b)>> ELSE IF e.std THEN <<"decrease", div>>
                               ELSE <<"unchanged", ls.b>>, e.b)
  ELSE /\ ls' = LossAfter(ls, e.lost, e.n, e.now, e.avg, exact, e.sti, e.std, e.b)
       /\ l' = l + 1 /\ UNCHANGED <<rc, cfg, g, pg, r, taint>>

LGet(e) ==
  LET x == LossGetB(ls, e.w) IN
  IF e.out = x /\ e.b = x /\ e.oavg = ls.avg
  THEN /\ ls' = LossGet(ls, e.w) /\ l' = l + 1 /\ UNCHANGED <<rc, cfg, g, pg, r, taint>>
       /\ IF HzLossBelowFloor(ls, e.w) THEN Bump(2) ELSE TRUE
  ELSE Diverge("loss-get", <<x, ls.avg>>, <<e.out, e.b, e.oavg>>)

\* ---- rate controller -----------------------------------------------------------------------------------------------------
RRecv(e) == IF e.lr = e.r THEN rc' = RcRecv(rc, e.r) /\ l' = l + 1 /\ UNCHANGED <<ls, cfg, g, pg, r, taint>>
            ELSE Diverge("rc-received-rate", e.r, e.lr)
RRtt(e) == IF e.lrtt = e.d THEN rc' = RcRtt(rc, e.d) /\ l' = l + 1 /\ UNCHANGED <<ls, cfg, g, pg, r, taint>>
           ELSE Diverge("rc-rtt", e.d, e.lrtt)
EmaOf(x) == EmaCore(x)
Quiet(e) == e.emit = 0 /\ e.target = rc.target /\ ~e.stu /\ (rc.ema.wild \/ EmaOf(e.ema) = rc.ema)
EmittedOk(e, s2) == /\ e.emit = 1 /\ e.otarget = e.target /\ e.ostate = s2 /\ e.ousage = e.usage /\ e.om = e.im /\ e.stu
RDs(e) ==
  LET s2 == IF rc.init THEN RTrans(e.st, e.usage) ELSE "increase"
      iv == RcIncIv(rc, e.now)
      dto == IF rc.recv = RUndef THEN cfg.min ELSE Clamp(RcDecTo(rc), cfg.min, cfg.max)
      next == [rc EXCEPT !.init = TRUE, !.st = e.state, !.target = e.target, !.tu = IF e.stu THEN e.now ELSE rc.tu,
                         !.ema = IF rc.ema.wild THEN rc.ema ELSE EmaOf(e.ema)] IN
  IF e.state # s2 THEN Diverge("rc-state", s2, e.state)
  ELSE IF ~rc.init \/ s2 = "hold"
  THEN IF Quiet(e) THEN rc' = next /\ l' = l + 1 /\ UNCHANGED <<ls, cfg, g, pg, r, taint>>
       ELSE Diverge(IF rc.init THEN "rc-hold" ELSE "rc-first-sample", <<"no emission", rc.target>>, <<e.emit, e.target, e.stu>>)
  ELSE IF ~EmittedOk(e, s2) THEN Diverge("rc-emission", <<1, e.target, s2, e.usage, e.im>>, <<e.emit, e.otarget, e.ostate, e.ousage, e.om>>)
  ELSE IF s2 = "increase"
  THEN IF ~(rc.ema.wild \/ EmaOf(e.ema) = rc.ema) THEN Diverge("rc-ema-on-increase", rc.ema, e.ema)
       ELSE IF ~iv.def
       THEN /\ Bump(5) /\ rc' = next /\ l' = l + 1 /\ UNCHANGED <<ls, cfg, g, pg, r, taint>>     \* int(NaN): nothing to compare
       ELSE IF ~(Clamp(iv.lo, cfg.min, cfg.max) <= e.target /\ e.target <= Clamp(iv.hi, cfg.min, cfg.max))
       THEN Diverge("rc-increase", <<iv, "band", EmaBand(rc.ema, rc.recv), "state", rc>>, e.target)
       ELSE /\ rc' = next /\ l' = l + 1 /\ UNCHANGED <<ls, cfg, g, pg, r, taint>>
            /\ IF HzIncLowers(rc, next) THEN Bump(4) ELSE TRUE
            /\ IF HzIncBeyondCap(rc, next) THEN Bump(6) ELSE TRUE
  ELSE IF e.target # dto THEN Diverge("rc-decrease", <<dto, "state", rc>>, e.target)
       ELSE IF ~EmaAccept(rc.ema, rc.recv, e.ema) THEN Diverge("rc-ema", EmaUpd(rc.ema, rc.recv), e.ema)
       ELSE /\ rc' = [next EXCEPT !.ema = IF rc.ema.wild \/ rc.recv = RUndef \/ rc.recv < 0 THEN [rc.ema EXCEPT !.wild = TRUE, !.z = FALSE]
                                               ELSE EmaOf(e.ema)]
            /\ l' = l + 1 /\ UNCHANGED <<ls, cfg, g, pg, r, taint>>
            /\ IF HzDecRaises(rc, next) THEN Bump(3) ELSE TRUE

\* ---- kalman ---------------------------------------------------------------------------------------------------------------
Kal(e) == IF KalAccept(e) THEN l' = l + 1 /\ UNCHANGED <<ls, rc, cfg, g, pg, r, taint>>
          ELSE Diverge("kalman", <<"finite, clamp, gain range, gain, estimate, error, inert", KalWhy(e)>>, e)

\* ---- wiring of the delay controller ----------------------------------------------------------------------------------------
AckG(a) == [id |-> a.id, dep |-> a.dep, arr |-> a.arr]
AckR(a) == [arr |-> IF a.arr = Lost THEN Lost ELSE a.arr \div 1000, size |-> a.size]
RECURSIVE RateFold(_, _, _)
RateFold(rr, acks, out) == IF acks = <<>> THEN <<rr, out>>
                           ELSE RateFold(RateStep(rr, Head(acks)), Tail(acks), out \o RateOut(rr, Head(acks)))
\* slopeEstimator.onArrivalGroup: the first group is only remembered; then measurement = inter-group delay variation and
\* LastReceiveDelta = inter-arrival time of consecutive groups
RECURSIVE Pairs(_, _)
Pairs(prev, gs) ==
  IF gs = <<>> THEN <<>>
  ELSE LET b == Head(gs) IN
       (IF ~prev.init THEN <<>>
        ELSE <<[wild |-> prev.arr = Lost \/ b.arr = Lost, m |-> (b.arr - prev.arr) - (b.dep - prev.dep), lrd |-> b.arr - prev.arr]>>)
       \o Pairs([init |-> TRUE, ids |-> b.ids, dep |-> b.dep, arr |-> b.arr], Tail(gs))
LastGroup(prev, gs) == IF gs = <<>> THEN prev ELSE LET b == gs[Len(gs)] IN [init |-> TRUE, ids |-> b.ids, dep |-> b.dep, arr |-> b.arr]
RECURSIVE SubSeqOk(_, _)
SubSeqOk(out, ps) ==
  IF out = <<>> THEN TRUE
  ELSE IF ps = <<>> THEN FALSE
  ELSE IF Head(ps).wild \/ (Head(out).exact /\ Head(out).m = Head(ps).m /\ Head(out).lrd = Head(ps).lrd)
  THEN SubSeqOk(Tail(out), Tail(ps)) ELSE SubSeqOk(out, Tail(ps))
\* the overuse detector hands State = 0 (increase) to the controller, so an emitted sample is in the state the table gives
\* from increase, is never hold, and carries a clamped target
WireOut(o) == /\ o.state = RTrans("increase", o.usage) /\ o.state # "hold"
              /\ cfg.min <= o.target /\ o.target <= cfg.max
WBatch(e) ==
  LET f == GroupFold(g, MapSeq(e.acks, AckG), <<>>)
      ps == Pairs(pg, f[2])
      rf == RateFold(r, MapSeq(e.acks, AckR), <<>>) IN
  IF ~SubSeqOk(e.out, ps) THEN Diverge("wire-measurements", ps, e.out)
  ELSE IF ~(\A i \in 1 .. Len(e.out) : WireOut(e.out[i])) THEN Diverge("wire-emission", cfg, e.out)
  ELSE IF ~(rf[2] = <<>> \/ RateMatches(rf[2][Len(rf[2])], e.lr)) THEN Diverge("wire-rate", rf[2], e.lr)
  ELSE g' = f[1] /\ pg' = LastGroup(pg, f[2]) /\ r' = rf[1] /\ l' = l + 1 /\ UNCHANGED <<ls, rc, cfg, taint>>

Next ==
  /\ l <= Len(Trace)
  /\ LET e == Trace[l] IN
     IF e.a = "reset" THEN
        /\ ls' = LossFresh(e.init) /\ rc' = RcFresh(e.init) /\ cfg' = [min |-> e.min, max |-> e.max]
        /\ g' = NoGroup /\ pg' = NoGroup /\ r' = RateFresh /\ taint' = "" /\ l' = l + 1
     ELSE IF taint # "" THEN l' = l + 1 /\ UNCHANGED <<ls, rc, cfg, g, pg, r, taint>>
     ELSE IF e.a = "inconclusive" THEN taint' = "inconclusive" /\ l' = l + 1 /\ UNCHANGED <<ls, rc, cfg, g, pg, r>>
     ELSE IF e.a = "lupd" THEN LUpd(e)
     ELSE IF e.a = "lget" THEN LGet(e)
     ELSE IF e.a = "rrecv" THEN RRecv(e)
     ELSE IF e.a = "rrtt" THEN RRtt(e)
     ELSE IF e.a = "rds" THEN RDs(e)
     ELSE IF e.a = "kal" THEN Kal(e)
     ELSE IF e.a = "wbatch" THEN WBatch(e)
     ELSE Diverge("unknown-event", "", e.a)

HW == TLCSet(1, IF TLCGet(1) < l THEN l ELSE TLCGet(1))
ASSUME TLCSet(1, 0) /\ TLCSet(2, 0) /\ TLCSet(3, 0) /\ TLCSet(4, 0) /\ TLCSet(5, 0) /\ TLCSet(6, 0)
Post == /\ PrintT(<<"HAZARDS", "loss-below-floor", TLCGet(2), "decrease-raises", TLCGet(3), "increase-lowers", TLCGet(4),
                   "increase-undefined", TLCGet(5), "increase-beyond-cap", TLCGet(6)>>)
        /\ PrintT(<<"HW", TLCGet(1), Len(Trace)>>) /\ TLCGet(1) = Len(Trace) + 1
=============================================================================

----------------------------- MODULE Trace_Conc -----------------------------
(* (T) C10: concurrent programs executed under the Go race detector.  The race detector's report (if any) is turned
   into a violation by the driver; this validator checks the recorded call results: no call deadlocked, none panicked,
   the program ran to its end and no goroutine of the library survived Close. *)
EXTENDS Integers, Sequences, FiniteSets, TLC, Json, IOUtils
Trace == ndJsonDeserialize(IOEnv.VERIF_TRACE)
VARIABLES l
Init == l = 1
Accept(e) == IF e.a \in {"reset", "pre", "wire"} THEN TRUE
             ELSE IF e.a = "end" THEN ~e.aborted /\ e.leaked = 0
             \* no lost update: the statistics counters equal the number of completed writes / reads of that SSRC
             ELSE IF e.a = "stats" THEN e.skipped \/ (e.n = e.nums[1] /\ e.len = e.nums[2])
             ELSE ~e.blocked /\ e.panic = ""
Next == /\ l <= Len(Trace)
        /\ IF Accept(Trace[l]) THEN l' = l + 1
           ELSE PrintT(<<"MISMATCH", l, "event", Trace[l].a>>) /\ l' = l + 1
HW == TLCSet(1, IF TLCGet(1) < l THEN l ELSE TLCGet(1))
ASSUME TLCSet(1, 0)
Post == PrintT(<<"HW", TLCGet(1), Len(Trace)>>) /\ TLCGet(1) = Len(Trace) + 1
=============================================================================

----------------------------- MODULE Trace_Conc -----------------------------
(* (T) C10: concurrent programs executed under the Go race detector.  The race detector's report (if any) is turned
   into a violation by the driver; this validator checks the recorded call results: no call deadlocked, none panicked,
   the program ran to its end and no goroutine of the library survived Close. *)
EXTENDS Integers, Sequences, FiniteSets, TLC, Json, IOUtils
Trace == ndJsonDeserialize(IOEnv.VERIF_TRACE)
VARIABLES l, sent
Init == l = 1 /\ sent = <<>>
\* free-running retransmission integrity (C04 under real concurrency): a packet the chain injects on the media SSRC with the
\* media payload type is a retransmission and must be identical to the application packet that went out with that number;
\* with RTX (SSRC + 1000, payload type 97) the original number is the 2-byte prefix and the rest is the original payload
Key(p) == <<p.ssrc, p.seq>>
SameMedia(p, q) == p.pl = q.pl /\ p.ts = q.ts /\ p.m = q.m /\ p.csrc = q.csrc
\* (a header-extension member between the responder and the transport stamps every packet that passes, retransmissions
\* included, with a fresh transport-wide number: the value of that one extension, id 7 in these programs, is not compared)
NoTwcc(p) == [p EXCEPT !.xs = SelectSeq(p.xs, LAMBDA x : x.id # 7)]
RetxOk(e) ==
  IF e.t # "rtp" \/ e.app \/ e.failed THEN TRUE
  ELSE IF e.pkt.pt = 96 /\ e.pkt.ssrc = e.s
       THEN Key(e.pkt) \in DOMAIN sent => NoTwcc(sent[Key(e.pkt)]) = NoTwcc(e.pkt)
  ELSE IF e.pkt.pt = 97 /\ e.pkt.ssrc = e.s + 1000 /\ Len(e.pkt.pl) >= 2
       THEN LET osn == e.pkt.pl[1] * 256 + e.pkt.pl[2]  k == <<e.s, osn>> IN
            k \in DOMAIN sent => (SubSeq(e.pkt.pl, 3, Len(e.pkt.pl)) = sent[k].pl /\ e.pkt.ts = sent[k].ts /\ e.pkt.m = sent[k].m)
  ELSE TRUE
Accept(e) == IF e.a \in {"reset", "pre"} THEN TRUE
             \* a pacer update or rate-change callback after Close has returned comes from a goroutine Close did not wait for
             ELSE IF e.a = "wire" THEN RetxOk(e) /\ (e.t \in {"pacer", "callback"} => ~e.closed)
             ELSE IF e.a = "end" THEN ~e.aborted /\ e.leaked = 0
             \* no lost update: the statistics counters equal the number of completed writes / reads of that SSRC
             ELSE IF e.a = "stats" THEN e.skipped \/ (e.n = e.nums[1] /\ e.len = e.nums[2])
             \* Close returns only after the goroutines of the chain have finished: none of them is still inside the (slow) RTCP
             \* transport when it comes back - the first Close and every later one
             \* (a Close inside a parallel role or a sequence hands its flag up to the enclosing event)
             ELSE ~e.blocked /\ e.panic = "" /\ ("busy" \in DOMAIN e => ~e.busy)
Step(e) == IF e.a = "reset" THEN <<>>
           ELSE IF e.a = "wire" /\ e.t = "rtp" /\ e.app /\ ~e.failed /\ ~e.pkt.p
                   /\ (e.pkt.seq \in 1000 .. 1060 \/ e.pkt.seq \in 30000 .. 30010)    \* the numbers the programs ask to be retransmitted
                THEN [k \in DOMAIN sent \cup {Key(e.pkt)} |-> IF k = Key(e.pkt) THEN e.pkt ELSE sent[k]]
           ELSE sent
Next == /\ l <= Len(Trace)
        /\ sent' = Step(Trace[l])
        /\ IF Accept(Trace[l]) THEN l' = l + 1
           ELSE PrintT(<<"MISMATCH", l, "event", Trace[l].a>>) /\ l' = l + 1
HW == TLCSet(1, IF TLCGet(1) < l THEN l ELSE TLCGet(1))
ASSUME TLCSet(1, 0)
Post == PrintT(<<"HW", TLCGet(1), Len(Trace)>>) /\ TLCGet(1) = Len(Trace) + 1
=============================================================================

SPECIFICATION Spec
CONSTANTS
  Progs <- RtpfbFixed
INVARIANTS NoRace NoLostUpdate
PROPERTIES Termination
CHECK_DEADLOCK FALSE

-------------------------- MODULE MC_TwccRecRun --------------------------
(* The lemma behind the "recrun" trace event: at the real constants, the closed form RecRun(w, n, t, dt) equals n
   iterated RecordSteps on a fresh recorder - for runs that start near 0, near the 16-bit wrap and in the middle, with
   increasing, equal and decreasing arrival times. *)
EXTENDS Twcc
Ws == {0, 1, 65000, 65530, 65535, 32768}
Ns == 1 .. 24
Dts == {0, 250, 70000, -300}
ASSUME \A w \in Ws, n \in Ns, dt \in Dts : RecRun(w, n, 20000000, dt) = RecIter(w, n, 20000000, dt)
\* (a longer run, once)
ASSUME RecRun(65500, 100, 20000000, -300) = RecIter(65500, 100, 20000000, -300)
VARIABLE z
Init == z = 0
Next == UNCHANGED z
=============================================================================

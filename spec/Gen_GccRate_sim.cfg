INIT Init
NEXT SimNext
CONSTANTS
  LMin = 100000
  LMax = 100000000
  IncT = 200000
  DecT = 200000
  L = 40
  Mode = "loss"
  Wide = TRUE
INVARIANT LeafInv
CHECK_DEADLOCK FALSE

SPECIFICATION Spec
CONSTANTS
  Streams <- S2
  Handoff = TRUE
  SendSelects = FALSE
  PerStream = FALSE
  MaxTicks = 2
  MaxReads = 2
INVARIANTS P4
PROPERTIES CloseReturns
CHECK_DEADLOCK FALSE

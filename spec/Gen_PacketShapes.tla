-------------------------- MODULE Gen_PacketShapes --------------------------
(* (G) TLC enumerates the whole shape space of PacketShapes (one initial state per shape). *)
EXTENDS PacketShapes, Json
CONSTANTS Which
VARIABLES shape
Init == shape \in (IF Which = "rtcp" THEN RtcpShapes ELSE RtpShapes)
Next == FALSE /\ shape' = shape
Leaf == PrintT(<<"TRACE", ToJson(shape)>>) /\ FALSE
=============================================================================

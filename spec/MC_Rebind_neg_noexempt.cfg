SPECIFICATION Spec
CONSTANTS
  Streams <- S2
  S = 1
  Inputs <- I2
  MaxSteps = 6
  Forget = ""
  Exempt <- NoExempt
INVARIANTS TwoRun
CHECK_DEADLOCK FALSE

INIT Init
NEXT Next
CONSTANTS
  Which = "rtcp"
CONSTRAINT Leaf
CHECK_DEADLOCK FALSE

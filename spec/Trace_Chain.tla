---------------------------- MODULE Trace_Chain ----------------------------
(* (T) validates traces of the universal chain harness (harness/zz_verif_univ_test.go) against the chain
   transparency property C01.  One event per interface call (with what reached the transport during the call)
   and one "wire" event per packet reaching the transport side. *)
EXTENDS Integers, Sequences, FiniteSets, TLC, Json, IOUtils
Trace == ndJsonDeserialize(IOEnv.VERIF_TRACE)
KnownSeq == ndJsonDeserialize(IOEnv.VERIF_KNOWN)
Known == {KnownSeq[i].tag : i \in DOMAIN KnownSeq}

VARIABLES l, base, members, lcfg, rcfg, okSeq, okTw, nW, cnt, closedSeen, devs, taint
vars == <<l, base, members, lcfg, rcfg, okSeq, okTw, nW, cnt, closedSeen, devs, taint>>

TwccExtId == 7
\* A PLI must name a remote stream that is bound - or is being bound: a forced PLI is written while BindRemoteStream
\* runs, i.e. shortly before the bind event of that stream is logged.
PliSsrcOk(ssrc) == \/ ssrc \in DOMAIN rcfg
                   \/ \E j \in l .. (IF l + 8 < Len(Trace) THEN l + 8 ELSE Len(Trace)) :
                         Trace[j].a = "bindm" /\ Trace[j].s = ssrc
Range(f) == {f[i] : i \in DOMAIN f}
Fn(f, k, d) == IF k \in DOMAIN f THEN f[k] ELSE d
Put(f, k, v) == [x \in DOMAIN f \cup {k} |-> IF x = k THEN v ELSE f[x]]
Has(k) == k \in Range(members)
MaxOf(S) == CHOOSE m \in S : \A x \in S : x <= m

Init == /\ l = 1 /\ base = 0 /\ members = <<>> /\ lcfg = <<>> /\ rcfg = <<>> /\ okSeq = <<>> /\ okTw = {} /\ nW = <<>>
        /\ cnt = [k \in {"bindw", "bindr", "bindl", "bindm", "unbindl", "unbindm", "close"} |-> 0]
        /\ closedSeen = FALSE /\ devs = {} /\ taint = ""

\* ---- what an application packet must look like on the transport side -------------------------------
ExtSet(p) == {<<p.xs[i].id, p.xs[i].d>> : i \in DOMAIN p.xs}
AddsTwcc(s) == Has("twcchdr") /\ Fn(lcfg, s, [twcc |-> 0]).twcc # 0
SameBut(p, q) ==       \* every header field and the payload identical, extensions aside
  /\ p.p = q.p /\ p.ps = q.ps /\ p.m = q.m /\ p.pt = q.pt /\ p.seq = q.seq /\ p.ts = q.ts
  /\ p.ssrc = q.ssrc /\ p.csrc = q.csrc /\ p.pl = q.pl
\* (the harness marks a packet "stale" when it reached the transport-side writer of an EARLIER binding of the stream: after
\* Unbind + Bind the application's packets must reach the writer the chain was given at the LATEST BindLocalStream)
WireOk(s, sent, got) ==
  /\ "stale" \notin DOMAIN got
  /\ IF AddsTwcc(s)
     THEN /\ SameBut(sent, got) /\ got.x
          /\ \E v \in {e \in ExtSet(got) : e[1] = lcfg[s].twcc} :
               /\ Len(v[2]) = 2
               /\ ExtSet(got) \ {v} = {e \in ExtSet(sent) : e[1] # lcfg[s].twcc}
     ELSE got = sent

\* ---- injected feedback must be explainable by successful reads only ----------------------------------
SumOk(x) ==
  CASE x.t = "rr"   -> x.hi \in Fn(okSeq, x.ssrc, {}) \cup {0}
    [] x.t = "nack" -> /\ Range(x.nums) \cap Fn(okSeq, x.ssrc, {}) = {}
                       /\ Fn(okSeq, x.ssrc, {}) # {}
                       /\ \A n \in Range(x.nums) : \E m \in okSeq[x.ssrc] : (m - n) % 65536 \in 1 .. 32767   \* behind a read number
    [] x.t = "twcc" -> Range(x.nums) \subseteq okTw
    [] x.t = "ccfb" -> Range(x.nums) \subseteq Fn(okSeq, x.ssrc, {})
    [] x.t = "pli"  -> PliSsrcOk(x.ssrc)
    [] OTHER -> TRUE

\* SumOk with the sets it consults passed in: SumOk(x) = SumOkWith(x, S, S, okTw, PliSsrcOk(x.ssrc)) with S = the numbers
\* read on x.ssrc.  Trace_Mock.tla (executions of the repository's own tests, where reads happen on MockStream's own goroutine)
\* uses it with `sure` = numbers the interceptor has certainly processed and `maybe` = numbers it may have processed.
SumOkWith(x, sure, maybe, tw, pliOk) ==
  CASE x.t = "rr"   -> x.hi \in maybe \cup {0}
    [] x.t = "nack" -> /\ Range(x.nums) \cap sure = {}
                       /\ maybe # {}
                       /\ \A n \in Range(x.nums) : \E m \in maybe : (m - n) % 65536 \in 1 .. 32767   \* behind a read number
    [] x.t = "twcc" -> Range(x.nums) \subseteq tw
    [] x.t = "ccfb" -> Range(x.nums) \subseteq maybe
    [] x.t = "pli"  -> pliOk
    [] OTHER -> TRUE

Accept(e) ==
  IF e.a = "wire" THEN
       /\ ~e.closed
       /\ (e.t = "rtcp" /\ ~e.app) => \A i \in DOMAIN e.sum : SumOk(e.sum[i])
  ELSE IF e.a = "pre" THEN TRUE
  ELSE /\ ~e.blocked /\ e.panic = ""
       /\ CASE e.a = "wrtp" ->
                 e.skipped \/ IF e.fail THEN e.err = 1 /\ e.wire = <<>>
                              ELSE e.err = 0 /\ Len(e.wire) = 1 /\ WireOk(e.s, e.pkt, e.wire[1])
            [] e.a = "wrtcp" ->
                 e.skipped \/ IF e.fail THEN e.err = 1 /\ e.wire = <<>>
                              ELSE e.err = 0 /\ Len(e.wire) = 1 /\ e.wire[1].n = 1
            [] e.a \in {"rrtp", "rrtcp"} ->
                 e.skipped \/ IF e.fail THEN e.err = 1 /\ e.n = 0
                              ELSE e.err = 0 /\ e.n = e.len /\ e.same
            [] e.a = "end" ->
                 /\ ~e.aborted /\ e.leaked = 0
                 /\ \A i \in DOMAIN e.probes :
                      LET p == e.probes[i] IN
                      /\ p.bindw = cnt["bindw"] /\ p.bindr = cnt["bindr"] /\ p.bindl = cnt["bindl"]
                      /\ p.bindm = cnt["bindm"] /\ p.unbindl = cnt["unbindl"] /\ p.unbindm = cnt["unbindm"]
                      /\ p.close = cnt["close"]
            [] OTHER -> TRUE

Step(e) ==
  /\ members' = members
  /\ lcfg' = IF e.a = "bindl" THEN Put(lcfg, e.s, [twcc |-> e.twcc, rtx |-> e.rtx, fec |-> e.fec, nack |-> e.nack]) ELSE lcfg
  /\ rcfg' = IF e.a = "bindm" THEN Put(rcfg, e.s, [twcc |-> e.twcc, nack |-> e.nack]) ELSE rcfg
  \* effects are counted from the moment the call starts ("pre"): a report written by a background goroutine while
  \* the call is in progress may already account for it
  /\ okSeq' = IF e.a = "pre" /\ e.op = "rrtp" /\ ~e.fail THEN Put(okSeq, e.s, Fn(okSeq, e.s, {}) \cup {e.w}) ELSE okSeq
  /\ okTw' = IF e.a = "pre" /\ e.op = "rrtp" /\ ~e.fail /\ e.tw >= 0 THEN okTw \cup {e.tw} ELSE okTw
  /\ nW' = IF e.a = "pre" /\ e.op = "wrtp" THEN Put(nW, e.s, Fn(nW, e.s, 0) + 1) ELSE nW
  /\ cnt' = IF e.a \in DOMAIN cnt /\ e.a # "pre" /\ ~e.skipped THEN [cnt EXCEPT ![e.a] = @ + 1] ELSE cnt
  /\ closedSeen' = (closedSeen \/ e.a = "close")

\* close errors: checked against the probes listed in the end event (they say which probes had an error)
CloseErrsOk(e) ==
  e.a = "end" =>
    \A i \in DOMAIN Trace : (i < l /\ Trace[i].a = "close" /\ i > base) =>
        Range(Trace[i].errs) = {e.probes[j].id : j \in {k \in DOMAIN e.probes : e.probes[k].haserr}}

\* ---- known deviation: the gcc pacers route by header SSRC, so RTP injected by a member further from the
\* transport than the cc interceptor (FEC, RTX) is rejected and the error is joined into the application's result
Idx(k) == {i \in DOMAIN members : members[i] = k}
CcBelowInjector == \E i \in Idx("cc") : \E j \in Idx("flexfec") \cup Idx("nackresp") : j > i
\* ---- known deviation: with a stream that negotiated transport-cc the cc interceptor refuses (and drops) every
\* packet that does not already carry the extension, i.e. unless a header-extension member sits further from the transport
CcNeedsTwccExt(e) == e.a = "bindl" /\ e.twcc # 0 /\ \E i \in Idx("cc") : ~\E j \in Idx("twcchdr") : j > i
\* Both recorded findings as NAMED as-found behaviour of an application write (the trace is not abandoned):
\*   PacerRoutesBySSRC - a FEC member above the cc interceptor: the repair packets it injects are refused by the pacer and
\*     the error is joined into the result of the application's own, successful write: an error of the chain's own (class 2) reported, packet on the wire;
\*   CcNeedsTwccExt - a stream that negotiated transport-cc on a chain whose cc interceptor has no header-extension member
\*     above it: the packet is refused and dropped before it reaches the transport (whether or not the transport would
\*     have failed): an error of the chain's own reported, nothing on the wire.
FecAboveCc == \E i \in Idx("cc") : \E j \in Idx("flexfec") : j > i
NeedsExt(s) == s \in DOMAIN lcfg /\ lcfg[s].twcc # 0 /\ \E i \in Idx("cc") : ~\E j \in Idx("twcchdr") : j > i
AsFoundWrite(e) ==
  IF e.a # "wrtp" \/ e.skipped \/ e.blocked \/ e.panic # "" THEN {}
  ELSE (IF "C01.PacerRoutesBySSRC" \in Known /\ FecAboveCc /\ ~e.fail /\ e.err = 2 /\ Len(e.wire) = 1 /\ WireOk(e.s, e.pkt, e.wire[1])
        THEN {"C01.PacerRoutesBySSRC"} ELSE {})
       \cup (IF "C01.CcNeedsTwccExt" \in Known /\ NeedsExt(e.s) /\ e.err = 2 /\ e.wire = <<>>
             THEN {"C01.CcNeedsTwccExt"} ELSE {})
NewDevs(e) == IF e.a = "reset" \/ members = <<>> THEN {} ELSE AsFoundWrite(e)

Next ==
  /\ l <= Len(Trace)
  /\ LET e == Trace[l] IN
     IF e.a = "reset" THEN
        /\ members' = e.members /\ lcfg' = <<>> /\ rcfg' = <<>> /\ okSeq' = <<>> /\ okTw' = {} /\ nW' = <<>>
        /\ cnt' = [k \in DOMAIN cnt |-> 0] /\ closedSeen' = FALSE /\ devs' = {} /\ taint' = "" /\ l' = l + 1 /\ base' = l
     ELSE IF taint # "" THEN l' = l + 1 /\ UNCHANGED <<base, members, lcfg, rcfg, okSeq, okTw, nW, cnt, closedSeen, devs, taint>>
     ELSE IF Accept(e) /\ CloseErrsOk(e) THEN
        /\ Step(e) /\ devs' = devs /\ l' = l + 1 /\ UNCHANGED <<taint, base>>
     ELSE IF members # <<>> /\ AsFoundWrite(e) # {} THEN      \* exactly the recorded behaviour: announced once per trace, validation goes on
        /\ \A t \in AsFoundWrite(e) \ devs : PrintT(<<"KNOWNDEV", l, t>>)
        /\ Step(e) /\ devs' = devs \cup AsFoundWrite(e) /\ l' = l + 1 /\ UNCHANGED <<taint, base>>
     ELSE LET k == {} IN
        IF k # {} THEN /\ PrintT(<<"KNOWNDEV", l, CHOOSE t \in k : TRUE>>)
                       /\ taint' = (CHOOSE t \in k : TRUE) /\ l' = l + 1
                       /\ UNCHANGED <<base, members, lcfg, rcfg, okSeq, okTw, nW, cnt, closedSeen, devs>>
        ELSE /\ PrintT(<<"MISMATCH", l, "event", e.a, "members", members>>)
             /\ taint' = "?" /\ l' = l + 1 /\ UNCHANGED <<base, members, lcfg, rcfg, okSeq, okTw, nW, cnt, closedSeen, devs>>

HW == TLCSet(1, IF TLCGet(1) < l THEN l ELSE TLCGet(1))
ASSUME TLCSet(1, 0)
Post == PrintT(<<"HW", TLCGet(1), Len(Trace)>>) /\ TLCGet(1) = Len(Trace) + 1
=============================================================================

SPECIFICATION Spec
CONSTANTS
  M = 4
  MaxSteps = 5
  ClearDetaches = FALSE
  HeadInsertLE = TRUE
  HeadPopClearsPrev = TRUE
INVARIANTS NoHang IsAcyclic LengthIsReach SameContents PrevPointers NothingOutside OutRefines FindRefines LengthRefines
PROPERTIES FailedUnchanged
CHECK_DEADLOCK FALSE

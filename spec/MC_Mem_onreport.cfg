SPECIFICATION Spec
CONSTANTS
  Cap = 3
  Policy = "onreport"
  MaxOps = 8
  Streams <- S2
INVARIANTS Bounded ReleasedOnUnbind
CHECK_DEADLOCK FALSE

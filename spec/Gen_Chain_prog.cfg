INIT Init
NEXT Next
CONSTANTS
  Kinds <- Rich
  MaxLen = 4
  L = 2
  Mode = "full"
CONSTRAINT Leaf
CHECK_DEADLOCK FALSE

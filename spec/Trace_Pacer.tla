---------------------------- MODULE Trace_Pacer ----------------------------
(* (T) validates traces recorded from pacing.Interceptor, gcc.LeakyBucketPacer and gcc.NoOpPacer (kinds "pacing", "leaky",
   "noop") and from the two gcc pacers as gcc.SendSideBWE wires them ("bwe-leaky", "bwe-noop": AddStream(info, writer)
   for streams with and without the transport-cc extension) against Pacer (C17).
   Every event carries t = milliseconds (floor) since the harness started the script, taken under the log's mutex, so
   the log order is consistent with real time.
     reset {kind, rate, ival}             rate in bits/ms, ival in ms
     addstream {s}                        BindLocalStream / AddStream with the harness writer of stream s
     call {p, g, s, bits, pkt}            goroutine g calls Write with packet p (s: the stream whose writer must get it)
     ret {p, ok}                          that Write returned (ok: no error = accepted)
     rel {s, bits, pkt, fail}             a packet reached the next writer of stream s (fail: the harness writer returned
                                          an injected error - the attempt is the packet's one delivery all the same)
     setrate_call {rate} / setrate_ret
     quiesce {pending, waited}            the harness waited >= 3 x the time the token model needs (+ slack, confirmed by
                                          a second, longer wait) for every accepted packet; pending = accepted - released
     close_call / close_ret {ok} / end
   The enqueue of an accepted packet is a SILENT step (Enq) somewhere between its call and its ret: for concurrent
   producers the order of acceptance is constrained only by real-time precedence.  Enq steps are interleaved with the
   logged events; the trace is accepted if some path consumes every event (high-water mark).  The search is pruned
   without losing a solution: an Enq is taken only when the next logged event needs it (a Write returns nil, or a packet
   that is still in flight is released), and packets in flight are enqueued in the order in which the trace releases
   them (any other order is refuted later by FIFO; unreleased packets go last).
   Checked on every path: rel = Head(q) with the content, stream and size the packet had at its call (FIFO, exactly
   once, intact, own writer); a refused packet is never released; the rate envelope at every release, cumulative
   from the start of the script as the property states it (upper bound: elapsed ms rounded up, the larger rate while a
   SetRate is in progress; it is NOT restarted at quiescent points: the limiter runs on ticker timestamps that may lag
   behind real time, so a bound over a later window only would not be sound);
   at quiesce while open nothing accepted is still queued (liveness). *)
EXTENDS Pacer, Json, IOUtils
Trace == ndJsonDeserialize(IOEnv.VERIF_TRACE)
KnownSeq == ndJsonDeserialize(IOEnv.VERIF_KNOWN)
Known == {KnownSeq[i].tag : i \in DOMAIN KnownSeq}

VARIABLES l, st, env, now, hi, infl, calls, devs, taint
vars == <<l, st, env, now, hi, infl, calls, devs, taint>>
\* hi = the largest rate that may be in effect (during a SetRate call the old or the new one); now = time credited so far
\* infl = packets whose Write has been called and that are neither enqueued nor returned;
\* calls[p] = index of p's call event

Put(f, k, v) == [x \in DOMAIN f \cup {k} |-> IF x = k THEN v ELSE f[x]]
Pk(p) == Trace[calls[p]]
\* index of the event that releases the packet with this content (Len(Trace) + 1 if none before the next reset)
RECURSIVE FindRel(_, _)
FindRel(i, pkt) == IF i > Len(Trace) THEN Len(Trace) + 1
                   ELSE IF Trace[i].a = "reset" THEN Len(Trace) + 1
                   ELSE IF Trace[i].a = "rel" /\ Trace[i].pkt.ts = pkt.ts /\ Trace[i].pkt = pkt THEN i
                   ELSE FindRel(i + 1, pkt)
RelPos(p) == FindRel(calls[p] + 1, Pk(p).pkt)     \* evaluated only when several packets are in flight

Init == /\ l = 1 /\ st = New("noop", 0, 1) /\ env = EnvStart(New("noop", 0, 1)) /\ now = 0 /\ hi = 0
        /\ infl = {} /\ calls = <<>> /\ devs = {} /\ taint = ""

\* time passes up to the end of the millisecond in which e was logged
Elapse(e) == IF e.t + 1 > now THEN e.t + 1 - now ELSE 0
EnvAt(e)  == EnvTime(env, hi, Elapse(e))
NowAt(e)  == Max(now, e.t + 1)

\* (the harness marks a release "stale" when the packet was handed to a next writer the stream had BEFORE it was bound again;
\* streams are bound again only at quiescent points, so every later packet belongs to the new writer)
RelOK(e) == /\ st.q # <<>>
            /\ "stale" \notin DOMAIN e
            /\ LET c == Pk(Head(st.q)) IN
               /\ c.pkt = e.pkt /\ c.s = e.s /\ c.bits = e.bits
               /\ (IsTB(st.kind) => EnvOK(EnvRelease(EnvAt(e), e.bits)))
QuiesceOK(e) == ~st.open \/ (st.q = <<>> /\ infl = {} /\ e.pending = 0)

\* deviations: evaluated in the state in which the event is judged
NewDevs(e) ==
  (IF e.a = "quiesce" /\ st.open /\ st.q # <<>> /\ AcceptedBeyondBurst(st, Pk(Head(st.q)).bits)
   THEN {"C17.AcceptedBeyondBurst"} ELSE {})          \* the head of the queue can never be paid for at this rate
  \cup (IF e.a = "ret" /\ e.ok /\ e.p \in DOMAIN calls /\ AcceptedUnroutable(st, Pk(e.p).s)
        THEN {"C17.AcceptedUnroutable"} ELSE {})

\* ---- the silent step: packet p is enqueued (only when the next logged event needs it) ----
EnqOK(p) ==
  /\ l <= Len(Trace) /\ taint = "" /\ p \in infl
  /\ LET e == Trace[l] IN
     \/ /\ e.a = "ret" /\ e.ok /\ e.p \in infl
        /\ LET first == IF infl = {e.p} THEN {}
                        ELSE {x \in infl : RelPos(x) < RelPos(e.p)} IN   \* released before e.p: enqueued before it
           IF first = {} THEN p = e.p
           ELSE p \in first /\ \A x \in first : RelPos(p) <= RelPos(x)
     \/ e.a = "rel" /\ st.q = <<>> /\ Pk(p).pkt = e.pkt
Enq(p) ==
  /\ EnqOK(p)
  /\ st' = AcceptStep(st, p) /\ infl' = infl \ {p}
  /\ UNCHANGED <<l, env, now, hi, calls, devs, taint>>

\* ---- one logged event: precondition and effect ----
Pre(e) ==
  CASE e.a = "call" -> e.p \notin DOMAIN calls
    [] e.a = "ret" -> e.p \in DOMAIN calls /\ (e.ok <=> e.p \notin infl)   \* accepted: enqueued inside the call;
                                                                          \* refused: never enqueued
    [] e.a = "rel" -> RelOK(e)
    [] e.a = "quiesce" -> QuiesceOK(e)
    [] e.a \in {"addstream", "setrate_call", "setrate_ret", "close_call", "close_ret", "end"} -> TRUE
    [] OTHER -> FALSE
Eff(e) ==
  CASE e.a = "addstream" ->
         /\ st' = AddStreamStep(st, e.s) /\ env' = EnvAt(e) /\ UNCHANGED <<hi, infl, calls>>
    [] e.a = "call" ->
         /\ calls' = Put(calls, e.p, l) /\ infl' = infl \cup {e.p} /\ env' = EnvAt(e) /\ UNCHANGED <<st, hi>>
    [] e.a = "ret" ->
         /\ infl' = infl \ {e.p} /\ env' = EnvAt(e) /\ UNCHANGED <<st, hi, calls>>
    [] e.a = "rel" ->
         /\ st' = [st EXCEPT !.q = Tail(@)]
         /\ env' = EnvRelease(EnvAt(e), e.bits) /\ UNCHANGED <<hi, infl, calls>>
    [] e.a = "setrate_call" ->
         \* the new rate may be in effect from the instant of the call: one extra millisecond of the increase
         /\ env' = EnvBurst(EnvTime(EnvAt(e), Max(0, e.rate - hi), 1), Burst(st.kind, e.rate, st.ival))
         /\ hi' = Max(hi, e.rate) /\ st' = SetRateStep(st, e.rate) /\ UNCHANGED <<infl, calls>>
    [] e.a = "setrate_ret" ->
         /\ env' = EnvAt(e) /\ hi' = st.rate /\ UNCHANGED <<st, infl, calls>>
    [] e.a = "close_call" -> st' = CloseStep(st) /\ env' = EnvAt(e) /\ UNCHANGED <<hi, infl, calls>>
    [] OTHER -> env' = EnvAt(e) /\ UNCHANGED <<st, hi, infl, calls>>

Diag(e) ==
  IF e.a = "rel" THEN
     IF st.q = <<>> THEN <<"rel: nothing is queued (duplicate, refused or unknown packet)", "seq", e.pkt.seq, "stream", e.s>>
     ELSE LET c == Pk(Head(st.q)) IN
          <<"rel: head of queue is packet", Head(st.q), "stream", c.s, "seq", c.pkt.seq, "released seq", e.pkt.seq,
            "on stream", e.s, "same content", c.pkt = e.pkt, "envelope cum/bmax/credit",
            EnvRelease(EnvAt(e), e.bits).cum, EnvAt(e).bmax, EnvAt(e).credit>>
  ELSE IF e.a = "quiesce" THEN <<"quiesce: still queued", st.q, "in flight", infl, "pending", e.pending, "waited ms", e.waited>>
  ELSE IF e.a = "ret" THEN <<"ret", e.p, e.ok, "in flight", infl>>
  ELSE <<e.a>>

Step ==
  /\ l <= Len(Trace)
  /\ LET e == Trace[l] IN
     IF e.a = "reset" THEN
        /\ st' = New(e.kind, e.rate, e.ival) /\ env' = EnvStart(New(e.kind, e.rate, e.ival)) /\ now' = 0 /\ hi' = e.rate
        /\ infl' = {} /\ calls' = <<>> /\ devs' = {} /\ taint' = "" /\ l' = l + 1
     ELSE IF taint # "" THEN l' = l + 1 /\ UNCHANGED <<st, env, now, hi, infl, calls, devs, taint>>
     ELSE IF Pre(e) THEN
        /\ Eff(e) /\ now' = NowAt(e)
        /\ devs' = devs \cup NewDevs(e) /\ l' = l + 1 /\ UNCHANGED taint
     ELSE IF e.a = "quiesce" THEN      \* the same on every path: a stall is a finding
        LET k == (devs \cup NewDevs(e)) \cap Known IN
        IF k # {} THEN /\ PrintT(<<"KNOWNDEV", l, CHOOSE t \in k : TRUE>>)
                       /\ taint' = (CHOOSE t \in k : TRUE) /\ l' = l + 1
                       /\ UNCHANGED <<st, env, now, hi, infl, calls, devs>>
        ELSE PrintT(<<"MISMATCH", l, Diag(e), "devs", devs \cup NewDevs(e)>>) /\ FALSE
     ELSE IF \E p \in infl : EnqOK(p) THEN FALSE      \* a silent step comes first
     ELSE PrintT(<<"DEAD", l, Diag(e)>>) /\ FALSE        \* this path cannot explain the event (another path may)

Next == Step \/ \E p \in infl : Enq(p)

HW == TLCSet(1, IF TLCGet(1) < l THEN l ELSE TLCGet(1))
ASSUME TLCSet(1, 0)
Post == PrintT(<<"HW", TLCGet(1), Len(Trace)>>) /\ TLCGet(1) = Len(Trace) + 1
=============================================================================

--------------------------- MODULE Gen_FlexFec ---------------------------
(* (G) batch generator for C14.  A behaviour is a sequence of L batches pushed through ONE encoder (coverage tables and
   the scratch pool are reused, the repair sequence counter runs on).  Each batch is an abstract descriptor
      [k, n, base, sh, ln]   k media packets, n repair packets, first sequence number, per-packet header shape id
                             and payload length class id (sequences of length k)
   over the boundary values of the mask fields (15 | 31 | 63 bits: k around 15, 46, 109) and of the coverage
   (n = 0, 1, 2, 3, k-1, k, k+1, 110).  Later batches are chosen RELATIVE to the previous one (same shape = table reuse,
   k or n off by one = table rebuild with stale bits to clear).  The check driver turns shape / length class ids into
   concrete header fields and payload bytes; Trace_FlexFec validates what the real code produced. *)
EXTENDS FlexFec, Json
CONSTANTS Ks, Bases, SPs, LPs, NumShapes, NumLens, L
VARIABLES hist
vars == <<hist>>

ApiAccepts(k, n) == k \in 1 .. 110 /\ n \in 0 .. 110          \* what the code's API takes (MaxMediaPackets / MaxFecPackets)
NSet(k) == {0, 1, 2, 3, k - 1, k, k + 1, 110} \cap 0 .. 110
\* per-packet patterns: 0 uniform, 1 cycle through every class, 2 the odd one last, 3 the odd one first, 4 stride 5
ShapeAt(sp, k, i) == CASE sp = 0 -> 0
                       [] sp = 1 -> (i - 1) % NumShapes
                       [] sp = 2 -> IF i = k THEN NumShapes - 1 ELSE 0
                       [] sp = 3 -> IF i = 1 THEN 3 % NumShapes ELSE (i % 2)
                       [] sp = 4 -> ((i - 1) * 5 + 2) % NumShapes
LenAt(lp, k, i)   == CASE lp = 0 -> 2 % NumLens
                       [] lp = 1 -> (i - 1) % NumLens
                       [] lp = 2 -> IF i = k THEN NumLens - 1 ELSE (i - 1) % 2
                       [] lp = 3 -> IF i = 1 THEN NumLens - 1 ELSE 0
                       [] lp = 4 -> ((i - 1) * 3 + 1) % NumLens
Batch(k, n, b, sp, lp) == [k |-> k, n |-> n, base |-> b,
                           sh |-> Mat([i \in 1 .. k |-> ShapeAt(sp, k, i)], k),
                           ln |-> Mat([i \in 1 .. k |-> LenAt(lp, k, i)], k)]
\* successors relative to the previous batch
RelK(k) == {k, k - 1, k + 1, 1, 109} \cap 1 .. 110
RelN(n) == {n, n - 1, n + 1, 1} \cap 0 .. 110

Init == hist = <<>>
Next == /\ Len(hist) < L
        /\ \E b \in Bases, sp \in SPs, lp \in LPs :
             IF hist = <<>>
             THEN \E k \in Ks : \E n \in NSet(k) :
                    ApiAccepts(k, n) /\ hist' = Append(hist, Batch(k, n, b, sp, lp))
             ELSE LET prev == hist[Len(hist)] IN
                  \E k \in RelK(prev.k) : \E n \in RelN(prev.n) :
                    ApiAccepts(k, n) /\ hist' = Append(hist, Batch(k, n, (prev.base + prev.k) % M, sp, lp))
Leaf == IF Len(hist) = L THEN PrintT(<<"TRACE", ToJson(hist)>>) /\ FALSE ELSE TRUE
=============================================================================

SPECIFICATION Spec
CONSTANTS
  M = 16
  SSRC = {1, 2}
  Cfg <- CfgLimit
  MaxSteps = 6
INVARIANTS TypeOK LimitRespected
PROPERTIES TickSound TickComplete Independent
CHECK_DEADLOCK FALSE

INIT RInit
NEXT RNext
CONSTANTS
  M = 16
  Size = 8
  Skip = 0
  IgnoreTooOld = TRUE
  StrictSpanTest = FALSE
  MaxSteps = 5
INVARIANT Refines
CHECK_DEADLOCK FALSE

--------------------------- MODULE MC_FlexFec ---------------------------
(* (M) exhaustive check of the FlexFEC-03 specification.
   Payload part (MC_FlexFec.cfg): every batch of up to MaxK packets drawn from Shapes x payloads of at most MaxLen
   bytes over the alphabet {0, 255}, two base sequence numbers (one wrapping), every n in 1 .. MaxN: the repair
   packets the specification builds parse back to the cover, and the FlexFEC-03 recovery procedure reconstructs
   every covered packet byte-for-byte from the repair packet and the other covered packets.
   Mask part (MC_FlexFec_mask.cfg): ALL k in 1 .. 110, n in 0 .. 110, no payloads. *)
EXTENDS FlexFec
CONSTANTS MaxK, MaxN, MaxLen, Shapes, Bases, MaskNs, Mutant
VARIABLES batch, base, kk, nn
vars == <<batch, base, kk, nn>>

Ssrc == <<28, 100, 0, 2>>
\* header templates (tiny, every header field that is XORed differs between some two templates)
Tpl(s) ==
  CASE s = 0 -> [p |-> FALSE, ps |-> 0, x |-> FALSE, m |-> FALSE, pt |-> 96, ts |-> <<0, 0, 0, 1>>, csrc |-> <<>>,
                 xp |-> 0, xs |-> <<>>]
    [] s = 1 -> [p |-> TRUE, ps |-> 2, x |-> FALSE, m |-> TRUE, pt |-> 127, ts |-> <<255, 0, 1, 0>>, csrc |-> <<>>,
                 xp |-> 0, xs |-> <<>>]
    [] s = 2 -> [p |-> FALSE, ps |-> 0, x |-> TRUE, m |-> FALSE, pt |-> 0, ts |-> <<0, 0, 0, 1>>,
                 csrc |-> << <<0, 0, 0, 9>> >>, xp |-> OneByteProfile, xs |-> <<[id |-> 1, d |-> <<255>>]>>]
    [] s = 3 -> [p |-> TRUE, ps |-> 1, x |-> TRUE, m |-> TRUE, pt |-> 96, ts |-> <<0, 128, 0, 0>>, csrc |-> <<>>,
                 xp |-> TwoByteProfile, xs |-> <<[id |-> 7, d |-> <<>>], [id |-> 2, d |-> <<0, 255, 0>>]>>]
Payloads == UNION {[1 .. len -> {0, 255}] : len \in 0 .. MaxLen}
Pkt(s, pl, seq) == [p |-> Tpl(s).p, ps |-> Tpl(s).ps, x |-> Tpl(s).x, m |-> Tpl(s).m, pt |-> Tpl(s).pt, seq |-> seq,
                    ts |-> Tpl(s).ts, ssrc |-> Ssrc, csrc |-> Tpl(s).csrc, xp |-> Tpl(s).xp, xs |-> Tpl(s).xs, pl |-> pl]

Init == batch = <<>> /\ base \in Bases /\ kk = 0 /\ nn = 0
Next == /\ Len(batch) < MaxK
        /\ \E s \in Shapes, pl \in Payloads : batch' = Append(batch, Pkt(s, pl, (base + Len(batch)) % M))
        /\ UNCHANGED <<base, kk, nn>>

\* two levels so that the 110 x 111 pairs are spread over TLC's workers; nn = -1: not chosen yet
InitMask == batch = <<>> /\ base = 0 /\ kk \in 1 .. 110 /\ nn = -1
NextMask == nn = -1 /\ nn' \in MaskNs /\ UNCHANGED <<batch, base, kk>>      \* MaskNs = 0 .. 110 for ALL pairs

WireOf(b) == Mat([i \in 1 .. Len(b) |-> Wire(b[i])], Len(b))
K == Len(batch)
\* the repair payload the specification builds; Mutant # "none" are deliberately wrong encoders (negative controls)
Built(W, S) ==
  LET good == RepairPayload(W, S, Ssrc, base) IN
  CASE Mutant = "none" -> good
    [] Mutant = "skipts" -> [good EXCEPT ![8] = IF Cardinality(S) > 1 THEN good[8] ^^ 1 ELSE good[8]]
    [] Mutant = "lenpayload" ->      \* length recovery from the payload length instead of the wire length
         LET x == XorSet(Mat([i \in 1 .. K |-> Zeros(12) \o batch[i].pl], K), S) IN
         [good EXCEPT ![3] = x[3], ![4] = x[4]]

\* ---- clauses ----
TypeOK == \A i \in 1 .. K : MediaOK(batch[i]) /\ Len(Wire(batch[i])) >= 12
\* each media packet is protected by at least one repair packet
EveryProtected == \A n \in 1 .. MaxN : K >= 1 => UNION {Cover(K, n, j) : j \in 0 .. n - 1} = 0 .. K - 1
\* the clauses for repair packet r of n over the batch (W = wire forms), evaluated with shared sub-terms
Clauses(W, n, r) ==
  LET S   == Covers(K, n)[r]
      f   == ParseFec(Built(W, S))
      tot == XorSet(W, S)
  IN [ \* the mask names exactly the packets combined, SSRC / SN base identify them
       mask |-> f.ok /\ f.mask = S /\ f.cnt = 1 /\ f.ssrc = Ssrc /\ f.snbase = base,
       \* XOR-decoding with all but one of the packets named in the mask reconstructs the missing one
       rec  |-> \A i \in S : Recover(f, W, i) = W[i + 1],
       \* the one-pass form used by the trace validator is the same function
       fast |-> \A i \in S : RecoverFast(f, tot, W, i) = Recover(f, W, i) ]
MaskExact     == LET W == WireOf(batch) IN \A n \in 1 .. MaxN : \A r \in 1 .. Min(K, n) : Clauses(W, n, r).mask
RecoveryOK    == LET W == WireOf(batch) IN \A n \in 1 .. MaxN : \A r \in 1 .. Min(K, n) : Clauses(W, n, r).rec
FastIsRecover == LET W == WireOf(batch) IN \A n \in 1 .. MaxN : \A r \in 1 .. Min(K, n) : Clauses(W, n, r).fast
Conform       == LET W == WireOf(batch) IN \A n \in 1 .. MaxN : \A r \in 1 .. Min(K, n) :
                   LET c == Clauses(W, n, r) IN c.mask /\ c.rec /\ c.fast
\* the clause evaluator used on observed packets accepts the specification's own repair packets
EvaluatorAccepts == \A n \in 1 .. MaxN : K >= 1 =>
               LET cfg == [fecssrc |-> <<0, 0, 0, 5>>, fecpt |-> 49, ssrc |-> Ssrc]
                   W == WireOf(batch)
                   reps == Mat([r \in 1 .. Min(K, n) |->
                             [p |-> FALSE, x |-> FALSE, csrc |-> <<>>, ssrc |-> cfg.fecssrc, pt |-> 49,
                              seq |-> (M - 1 + r - 1) % M, pl |-> Built(W, Covers(K, n)[r])]], Min(K, n)) IN
               BatchFails(cfg, batch, n, reps, M - 1) = {}

\* ---- mask part: all (k, n) ----
\* the covers of (kk, nn), evaluated once per state: C[r] = Cover(kk, nn, r - 1) for r = 1 .. nn
CoverAll == nn >= 1 =>
  LET C == Mat([r \in 1 .. nn |-> Cover(kk, nn, r - 1)], nn) IN
  /\ UNION {C[r] : r \in 1 .. nn} = 0 .. kk - 1                       \* every media packet is protected
  /\ \A r \in 1 .. nn : (C[r] # {}) = (r <= kk)                        \* the non-empty covers come first
  /\ Covers(kk, nn) = SubSeq(C, 1, Min(kk, nn))
  /\ Accepted(kk, nn) => \A r \in 1 .. Min(kk, nn) :
       LET S  == C[r]
           mb == MaskBytes(S)
           f  == ParseFec(Zeros(18) \o mb \o <<170>>) IN
       /\ \A i \in S : Nameable(i)
       /\ f.ok /\ f.mask = S /\ f.body = <<170>>                       \* the fields decode to exactly the cover
       /\ 18 + Len(mb) = (IF S \subseteq 0 .. 14 THEN 20 ELSE IF S \subseteq 0 .. 45 THEN 24 ELSE 32)
       /\ Cardinality(BytesToBits(mb) \cap KPositions) = 1              \* exactly one k-bit, on the last field
\* what cannot be accepted: with 110 packets some repair packet would have to name index 109
Unrepresentable == (kk > MaxMaskBits /\ nn >= 1) <=>
                     (kk >= 1 /\ nn >= 1 /\ \E j \in 0 .. nn - 1 : \E i \in Cover(kk, nn, j) : ~Nameable(i))
=============================================================================

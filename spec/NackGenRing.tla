---------------------------- MODULE NackGenRing ----------------------------
(* Implementation-shaped layer of the NACK receive log (pkg/nack/receive_log.go): a bitmap indexed by
   sequence number modulo Size, the highest number `end`, and the cursor `lastConsecutive`, all 16-bit wire values.
   TLC checks that it REFINES the property-level machine NackGen for every history: the missing set computed from the
   ring equals the residues of NackGen!Missing.  The two window tests that were repaired in the code (packets older than
   the window; full-span at Size = M/2) are switchable so that the original behaviour is kept as negative controls. *)
EXTENDS NackGen
CONSTANTS Size, Skip, IgnoreTooOld, StrictSpanTest, MaxSteps
VARIABLES bits, last, lc, started, abs, steps
rvars == <<bits, last, lc, started, abs, steps>>
Cfg == [size |-> Size, skip |-> Skip, max |-> 0]
U(x) == x % M                         \* uint16 arithmetic
Get(b, s) == b[s % Size]
FixLC(b, e, c) ==                     \* fixLastConsecutive: advance over received numbers up to end
  LET run == {k \in 0 .. Size : \A j \in 1 .. k : U(c + j) # U(e + 1) /\ Get(b, U(c + j)) /\
                                   \A i \in 1 .. j : U(c + i) # U(e + 1)} IN
  U(c + (CHOOSE k \in run : \A k2 \in run : k2 <= k))

RInit == /\ bits = [i \in 0 .. Size - 1 |-> FALSE] /\ last = 0 /\ lc = 0 /\ started = FALSE
         /\ abs = Fresh /\ steps = 0

Add(seq) ==
  /\ steps < MaxSteps /\ steps' = steps + 1
  /\ abs' = RecvStep(Cfg, abs, seq)
  /\ IF ~started
     THEN /\ bits' = [bits EXCEPT ![seq % Size] = TRUE] /\ last' = seq /\ lc' = seq /\ started' = TRUE
     ELSE LET diff == U(seq - last) IN
          IF diff = 0 THEN UNCHANGED <<bits, last, lc, started>>
          ELSE IF diff < H
               THEN LET cleared == [i \in 0 .. Size - 1 |->
                                      IF \E k \in 1 .. diff - 1 : U(last + k) % Size = i /\ k <= Size THEN FALSE ELSE bits[i]]
                        b2 == [cleared EXCEPT ![seq % Size] = TRUE]
                        lc2 == IF U(lc + 1) = seq THEN seq
                               ELSE IF U(seq - lc) > Size THEN FixLC(cleared, seq, U(seq - Size)) ELSE lc
                    IN /\ bits' = b2 /\ last' = seq /\ lc' = lc2 /\ UNCHANGED started
          ELSE IF IgnoreTooOld /\ U(last - seq) >= Size THEN UNCHANGED <<bits, last, lc, started>>
          ELSE IF U(lc + 1) = seq
               THEN /\ bits' = [bits EXCEPT ![seq % Size] = TRUE]
                    /\ lc' = FixLC([bits EXCEPT ![seq % Size] = TRUE], last, seq) /\ UNCHANGED <<last, started>>
          ELSE bits' = [bits EXCEPT ![seq % Size] = TRUE] /\ UNCHANGED <<last, lc, started>>

RNext == \E seq \in 0 .. M - 1 : Add(seq)
RSpec == RInit /\ [][RNext]_rvars

\* missingSeqNumbers as the code computes it
RingMissing ==
  IF ~started THEN {}
  ELSE LET until == U(last - Skip)
           span == U(until - lc) IN
       IF (IF StrictSpanTest THEN span >= H ELSE span > H) THEN {}
       ELSE {U(lc + k) : k \in {j \in 1 .. span : ~Get(bits, U(lc + j))}}

Refines == RingMissing = {Res(t) : t \in Missing(Cfg, abs)}
=============================================================================

----------------------------- MODULE Trace_Twcc -----------------------------
(* (T) validates ndjson traces recorded from pkg/twcc (Recorder and SenderInterceptor) against Twcc.  Events:
     {"a":"reset","lvl":"rec"|"icpt","rb":n}       new instance; arrival times are offsets from rb * 64 ms
     {"a":"rec","w":n16,"t0":us,"t1":us}           Record(w) with an arrival time in [t0, t1]
     {"a":"recrun","w":n16,"n":k,"t":us,"dt":us}   k Records of w, w+1, ... at t, t+dt, ... on the fresh recorder
     {"a":"build","fl":bool,"out":[P..]}           BuildFeedbackPacket returned these packets, each logged in the
                                                   structural form it has after rtcp Marshal + Unmarshal; fl (only
                                                   at interceptor level): a read was in flight when the feedback
                                                   was written, i.e. the NEXT rec event may in reality precede it:
        P = {"base","cnt","ref","fb","ch":[{"k","s","n","v"}..],"d":[ticks..],"wl","hl","rt"}
     {"a":"inconclusive","why":..}                 the driver could not order the rest of the trace (interceptor
                                                   level only); the trace is abandoned, never judged
   A build event is accepted iff Bad(state, rb, out) = {} (clauses W1-W3, T1, T2, C1, R1, K1 of Twcc.tla). *)
EXTENDS Twcc, Json, IOUtils
Trace == ndJsonDeserialize(IOEnv.VERIF_TRACE)
KnownSeq == ndJsonDeserialize(IOEnv.VERIF_KNOWN)
Known == {KnownSeq[i].tag : i \in DOMAIN KnownSeq}

VARIABLES l, rb, x, devs, taint, adv
vars == <<l, rb, x, devs, taint, adv>>
\* adv = 1: the next rec event of the trace has already been applied (it was in flight during a build, see fl)

Init == l = 1 /\ rb = 0 /\ x = Fresh0 /\ devs = {} /\ taint = "" /\ adv = 0

\* the rec event that follows the block of build events starting at i (0 if the block is followed by something else)
FloatingRec(i) ==
  IF \E j \in i + 1 .. Len(Trace) : Trace[j].a # "build"
  THEN LET j == CHOOSE j \in i + 1 .. Len(Trace) :
                   Trace[j].a # "build" /\ \A k \in i + 1 .. j - 1 : Trace[k].a = "build"
       IN IF Trace[j].a = "rec" THEN j ELSE 0
  ELSE 0

\* deviation predicates over (pre-state, event); names are the tags of KNOWN_FINDINGS.jsonl
NewDevs(e) == {}

Next ==
  /\ l <= Len(Trace)
  /\ LET e == Trace[l] IN
     IF e.a = "reset" THEN
        /\ rb' = e.rb /\ x' = Fresh0 /\ devs' = {} /\ taint' = "" /\ adv' = 0 /\ l' = l + 1
     ELSE IF taint # "" THEN l' = l + 1 /\ UNCHANGED <<rb, x, devs, taint, adv>>
     ELSE IF e.a = "inconclusive" THEN
        /\ PrintT(<<"INCONCLUSIVE", l>>) /\ taint' = "INCONCLUSIVE" /\ l' = l + 1 /\ UNCHANGED <<rb, x, devs, adv>>
     ELSE IF e.a = "recrun" THEN      \* n consecutive numbers on a fresh recorder (closed form, see Twcc!RecRun)
        IF x = Fresh0 /\ e.n >= 1 /\ e.n <= HMAX
        THEN x' = RecRun(e.w, e.n, e.t, e.dt) /\ l' = l + 1 /\ UNCHANGED <<rb, devs, taint, adv>>
        ELSE PrintT(<<"MISMATCH", l, "recrun outside its precondition">>) /\ FALSE
     ELSE IF e.a = "rec" THEN
        IF adv = 1 THEN l' = l + 1 /\ adv' = 0 /\ UNCHANGED <<rb, x, devs, taint>>
        ELSE /\ x' = RecordStep(x, e.w, e.t0, e.t1) /\ devs' = devs \cup NewDevs(e) /\ l' = l + 1
             /\ UNCHANGED <<rb, taint, adv>>
     ELSE \/ LET bad == Bad(x, rb, e.out) IN
             IF bad = {} THEN
                /\ x' = BuildStep(x, e.out) /\ devs' = devs \cup NewDevs(e) /\ l' = l + 1 /\ UNCHANGED <<rb, taint, adv>>
             ELSE LET k == (devs \cup NewDevs(e)) \cap Known IN
                IF k # {} THEN /\ PrintT(<<"KNOWNDEV", l, CHOOSE t \in k : TRUE>>)
                               /\ taint' = (CHOOSE t \in k : TRUE) /\ l' = l + 1 /\ UNCHANGED <<rb, x, devs, adv>>
                ELSE \* (a failure on a speculative order of an in-flight read is not by itself a mismatch)
                     PrintT(<<IF adv = 0 /\ ~e.fl THEN "MISMATCH" ELSE "BRANCHFAIL", l, "violated", bad,
                              "pending", x.pend, "end", x.end, "adv", adv, "devs", devs \cup NewDevs(e)>>) /\ FALSE
          \/ \* the read that was in flight had in fact been recorded before this build
             /\ e.fl /\ adv = 0 /\ FloatingRec(l) # 0
             /\ LET r == Trace[FloatingRec(l)] IN x' = RecordStep(x, r.w, r.t0, r.t1)
             /\ adv' = 1 /\ UNCHANGED <<l, rb, devs, taint>>

HW == TLCSet(1, IF TLCGet(1) < l THEN l ELSE TLCGet(1))
ASSUME TLCSet(1, 0)
Post == PrintT(<<"HW", TLCGet(1), Len(Trace)>>) /\ TLCGet(1) = Len(Trace) + 1
=============================================================================

INIT Init
NEXT Next
CONSTANTS
  LH = 3
  LB = 2
  KnobSet <- KnobsFull
  KindSet <- KindsAll
CONSTRAINT Leaf
CHECK_DEADLOCK FALSE

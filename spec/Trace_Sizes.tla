---------------------------- MODULE Trace_Sizes ----------------------------
(* (T) C12: validates the traces of the container-size probes (harness/sizes/zz_verif_sizelib_test.go.tpl and
   harness/<pkg>/zz_verif_size_test.go) against Sizes.tla.  Events:
     {"a":"reset","c":component,"cfg":{..},"full":bool,"fb":n,"flood":n}      new object under test
     {"a":"bind","s":ssrc,"en":bool}  {"a":"unbind","s":ssrc}  {"a":"close"}  lifecycle (always logged)
     {"a":"pkt","s":ssrc,"hs":header ssrc,"t":ideal number,"ok":bool}         one packet (full traces only)
     {"a":"fb","s":ssrc,"lo":..,"hi":..,"sent":[..],"lost":[..]}  {"a":"tick"}  {"a":"drain"}   (full traces only)
     {"a":"size","ph":"run"|"tick"|"drained"|"unb"|"rel","z":{container: REAL size},"h":{counters of the driver}}
   Every size sample is checked: size <= Bound(cfg, number of currently bound streams) - which is 0 for per-stream
   containers once everything is unbound ("unb", "rel") -, the structural facts (Shape), and equality with Exact where it
   is defined (lifecycle-determined containers always; history-determined ones in full traces, where TLC tracks the history
   state).  A failing clause is excused only by a deviation tag of Sizes.tla whose predicate holds in this trace, which
   covers that container and which is listed in KNOWN_FINDINGS.jsonl; everything else is a MISMATCH. *)
EXTENDS Sizes, Json, IOUtils
Trace == ndJsonDeserialize(IOEnv.VERIF_TRACE)
KnownSeq == ndJsonDeserialize(IOEnv.VERIF_KNOWN)
Known == {KnownSeq[i].tag : i \in DOMAIN KnownSeq}

VARIABLES l, comp, cfg, full, wl, bound, ever, nunb, st, devs, taint
vars == <<l, comp, cfg, full, wl, bound, ever, nunb, st, devs, taint>>

Range(f) == {f[i] : i \in DOMAIN f}
Put(f, k, v) == [x \in DOMAIN f \cup {k} |-> IF x = k THEN v ELSE f[x]]
Del(f, k) == [x \in DOMAIN f \ {k} |-> f[x]]
Has(r, k) == k \in DOMAIN r

InitSt == [bufs |-> <<>>, logs |-> <<>>, keys |-> {}, fb |-> EmptyFb, q |-> 0, cnt |-> <<>>]
Init == /\ l = 1 /\ comp = "" /\ cfg = <<>> /\ full = FALSE /\ wl = [fb |-> 0, flood |-> 0]
        /\ bound = <<>> /\ ever = {} /\ nunb = 0 /\ st = InitSt /\ devs = {} /\ taint = ""

nb == Cardinality(DOMAIN bound)
En == {s \in DOMAIN bound : bound[s]}
nbEn == Cardinality(En)
everUnbound == Cardinality(ever \ En)

\* ------------------------------------------------------------------ history state (full traces)
PerBuf == comp \in {"rtpbuf", "nackresp"}
StepSt(e) ==
  IF e.a = "bind" THEN
     IF PerBuf /\ e.en THEN [st EXCEPT !.bufs = Put(st.bufs, e.s, EmptyBuf)]
     ELSE IF comp = "flexfec" /\ e.en THEN [st EXCEPT !.cnt = Put(st.cnt, e.s, 0)]
     ELSE st
  ELSE IF e.a = "unbind" THEN
     IF PerBuf THEN [st EXCEPT !.bufs = Del(st.bufs, e.s)]
     ELSE IF comp = "flexfec" THEN [st EXCEPT !.cnt = Del(st.cnt, e.s)]
     ELSE IF comp = "jitter" THEN [st EXCEPT !.q = 0]           \* UnbindRemoteStream clears the shared buffer
     ELSE st
  ELSE IF e.a = "close" THEN (IF comp = "jitter" THEN [st EXCEPT !.q = 0] ELSE st)
  ELSE IF e.a = "pkt" THEN
     IF comp = "rtpbuf" THEN [st EXCEPT !.bufs = Put(st.bufs, e.s, RtpAdd(cfg.size, st.bufs[e.s], e.t))]
     ELSE IF comp = "nackresp" THEN
        IF e.hs = e.s /\ e.s \in DOMAIN st.bufs
        THEN [st EXCEPT !.bufs = Put(st.bufs, e.s, RtpAdd(cfg.size, st.bufs[e.s], e.t))] ELSE st
     ELSE IF comp \in {"rfc8888", "rfc8888i"} THEN
        [st EXCEPT !.logs = Put(st.logs, e.hs, LogAdd(IF e.hs \in DOMAIN st.logs THEN st.logs[e.hs] ELSE EmptyLog, e.t))]
     ELSE IF comp = "cchist" THEN [st EXCEPT !.keys = st.keys \cup {<<IF cfg.twcc = 1 THEN 0 ELSE e.hs, e.t % W16>>}]
     ELSE IF comp = "gccleaky" THEN (IF e.ok THEN [st EXCEPT !.keys = st.keys \cup {<<e.hs, e.t % W16>>}] ELSE st)
     ELSE IF comp = "rtpfb" THEN [st EXCEPT !.fb = FbSent(st.fb, <<e.hs, e.t % W16>>)]
     ELSE IF comp = "jitter" THEN [st EXCEPT !.q = st.q + 1 - Pos(e.ok)]
     ELSE IF comp = "flexfec" THEN
        IF e.hs = e.s /\ e.s \in DOMAIN st.cnt
        THEN [st EXCEPT !.cnt = Put(st.cnt, e.s, (st.cnt[e.s] + 1) % cfg.nmedia)] ELSE st
     ELSE st
  ELSE IF e.a = "fb" THEN
     IF comp = "rtpfb" THEN [st EXCEPT !.fb = FbReport(st.fb, {<<e.s, t % W16>> : t \in Range(e.sent) \ Range(e.lost)})]
     ELSE st
  ELSE IF e.a = "tick" THEN
     IF comp \in {"rfc8888", "rfc8888i"} THEN
        LET B == PerStream(cfg.maxsize, Cardinality(DOMAIN st.logs)) IN
        [st EXCEPT !.logs = [s \in DOMAIN st.logs |-> LogReport(st.logs[s], B)]]
     ELSE st
  ELSE st

\* ------------------------------------------------------------------ clauses
B(ok) == IF ok THEN {} ELSE {"bound"}
E(ok) == IF ok THEN {} ELSE {"exact"}
EF(ok) == IF ~full \/ ok THEN {} ELSE {"exact"}
S(ok) == IF ok THEN {} ELSE {"shape"}
Viol(k, v, z, h, ph) ==      \* the clauses of container k that its real size v violates
  CASE k = "recvLogs" -> B(v <= Bound_recvLogs(cfg, nb)) \cup E(v = Exact_recvLogs(nbEn))
    [] k = "bitmap" -> B(v <= Bound_bitmap(cfg, nb)) \cup E(v = Exact_bitmap(cfg, nbEn))
    [] k = "cntLogs" -> B(v <= Bound_cntLogs(cfg, nb))
    [] k = "cntMax" -> B(v <= Bound_cntMax(cfg, nb))
    [] k = "respStreams" -> B(v <= Bound_respStreams(cfg, nb)) \cup E(v = Exact_respStreams(nbEn))
    [] k = "respRing" -> B(v <= Bound_respRing(cfg, nb)) \cup E(v = Exact_respRing(cfg, nbEn))
    [] k = "respHeld" -> B(v <= Bound_respHeld(cfg, nb)) \cup EF(v = Exact_held(st.bufs))
    [] k = "bufRing" -> B(v <= Bound_bufRing(cfg, nb)) \cup E(v = Exact_bufRing(cfg))
    [] k = "bufHeld" -> B(v <= Bound_bufHeld(cfg, nb)) \cup EF(v = Exact_held(st.bufs))
    [] k = "twCap" -> B(v <= Bound_twCap(cfg, nb)) \cup S(Shape_twCap(v)) \cup (IF ph = "drained" THEN E(v = Drained_twCap) ELSE {})
    [] k = "twSpan" -> B(v <= Bound_twSpan(cfg, nb, z.twCap)) \cup (IF ph = "drained" THEN E(v <= Drained_twSpan) ELSE {})
    [] k = "streams8888" -> B(v <= Bound_streams8888(cfg, nb))
    [] k = "logMax" -> B(v <= Bound_logMax(cfg, nb, h.klast, h.since)) \cup EF(v = Exact_logMax(st.logs))
    [] k = "logSum" -> B(v <= Bound_logSum(cfg, nb, h.klast, h.since))
    [] k = "ccItems" -> B(v <= Bound_ccItems(cfg, nb)) \cup EF(v = Exact_ccItems(cfg, st.keys))
    [] k = "ccList" -> B(v <= Bound_ccList(cfg, nb)) \cup S(Shape_ccList(v, z.ccItems))
    [] k = "fbPackets" -> B(v <= Bound_fbPackets(cfg, nb)) \cup (IF cfg.twcc = 0 THEN EF(v = Exact_fbPackets(st.fb)) ELSE {})
    [] k = "fbTwIdx" -> S(v <= Bound_fbIdx(z.fbPackets))
    [] k = "fbSsIdx" -> S(v <= Bound_fbIdx(z.fbPackets))
    [] k = "rrStreams" -> B(v <= Bound_rrStreams(cfg, nb)) \cup E(v = Exact_rrStreams(nbEn))
    [] k = "rrBitmap" -> B(v <= Bound_rrBitmap(cfg, nb)) \cup E(v = Exact_rrBitmap(nbEn))
    [] k = "rsStreams" -> B(v <= Bound_rsStreams(cfg, nb)) \cup E(v = Exact_rsStreams(nbEn))
    [] k = "recorders" -> B(v <= Bound_recorders(cfg, nb)) \cup E(v = nbEn)
    [] k = "srHist" -> B(v <= Bound_srHist(cfg, nb))
    [] k = "rrtrHist" -> B(v <= Bound_rrtrHist(cfg, nb))
    [] k = "jbQueue" -> B(v <= Bound_jbQueue(cfg, nb)) \cup EF(v = st.q) \cup (IF ph \in {"unb", "rel"} THEN E(v = 0) ELSE {})
    [] k = "jbLength" -> S(Shape_jbLength(v, z.jbQueue))
    [] k = "pacChan" -> B(v <= Bound_pacChan(cfg, nb))
    [] k = "pacHeld" -> B(v <= Bound_pacHeld(cfg, nb)) \cup (IF ph = "drained" THEN E(v = 0) ELSE {})
    [] k = "lbQueue" -> S(Shape_lbQueue(v, h.acc, h.d1, h.d2)) \cup (IF ph = "drained" THEN E(v = 0) ELSE {})
    [] k = "writers" -> B(v <= Bound_writers(cfg, nb)) \cup E(v = nbEn)
    [] k = "fecStreams" -> B(v <= Bound_fecStreams(cfg, nb)) \cup E(v = Exact_fecStreams(nbEn))
    [] k = "fecBatch" -> B(v <= Bound_fecBatch(cfg, nb)) \cup EF(v = Exact_fecBatch(st.cnt))
    [] k = "pliStreams" -> B(v <= Bound_pliStreams(cfg, nb)) \cup E(v = Exact_pliStreams(nbEn))
    [] k = "attrKeys" -> B(v <= Bound_attrKeys(cfg, nb))
    [] OTHER -> {"unknown-container"}
Fail(e) == {<<k, c>> \in (DOMAIN e.z) \X {"bound", "exact", "shape", "unknown-container"} : c \in Viol(k, e.z[k], e.z, e.h, e.ph)}

\* deviation tags of Sizes.tla: (tag, containers whose bound/exact clause it explains, predicate in this trace at event e)
TagsFor(k, e) ==
  (IF k \in {"fbPackets"} /\ RtpfbHistoryWithoutFeedback(cfg) THEN {"C12.RtpfbHistoryWithoutFeedback"} ELSE {})
  \cup (IF k \in {"jbQueue"} /\ JitterBufferKeepsUnplayablePackets(e.h.gooo) /\ e.ph \notin {"unb", "rel"}
        THEN {"C12.JitterBufferKeepsUnplayablePackets"} ELSE {})
  \cup (IF k \in {"jbQueue"} /\ JitterBufferStaleHeadAfterUnbind(nunb) /\ e.ph \notin {"unb", "rel"}
        THEN {"C12.JitterBufferStaleHeadAfterUnbind"} ELSE {})
  \cup (IF k = "recorders" /\ StatsKeepsRecorders(everUnbound) THEN {"C12.StatsKeepsRecorders"} ELSE {})
  \cup (IF k = "streams8888" /\ Rfc8888KeepsStreams(everUnbound) THEN {"C12.Rfc8888KeepsStreams"} ELSE {})
  \cup (IF k = "streams8888" /\ Rfc8888StreamPerPacketSSRC(e.h.foreign) THEN {"C12.Rfc8888StreamPerPacketSSRC"} ELSE {})
  \cup (IF k = "writers" /\ CcKeepsStreamWriters(everUnbound) THEN {"C12.CcKeepsStreamWriters"} ELSE {})
  \cup (IF k = "pacHeld" /\ PacingQueueBeyondQueueSize(cfg) THEN {"C12.PacingQueueBeyondQueueSize"} ELSE {})
Excusable(f, e) == f[2] \in {"bound", "exact"} /\ TagsFor(f[1], e) \cap Known # {}
Unexcused(e) == {f \in Fail(e) : ~Excusable(f, e)}
TagsHit(e) == UNION {TagsFor(f[1], e) \cap Known : f \in Fail(e)}

Next ==
  /\ l <= Len(Trace)
  /\ LET e == Trace[l] IN
     IF e.a = "reset" THEN
        /\ comp' = e.c /\ cfg' = e.cfg /\ full' = e.full /\ wl' = [fb |-> e.fb, flood |-> e.flood]
        /\ bound' = <<>> /\ ever' = {} /\ nunb' = 0 /\ st' = InitSt /\ devs' = {} /\ taint' = "" /\ l' = l + 1
     ELSE IF taint # "" THEN l' = l + 1 /\ UNCHANGED <<comp, cfg, full, wl, bound, ever, nunb, st, devs, taint>>
     ELSE IF e.a = "size" THEN
        IF Unexcused(e) = {} THEN
           /\ \A t \in TagsHit(e) \ devs : PrintT(<<"KNOWNDEV", l, t>>)
           /\ devs' = devs \cup TagsHit(e) /\ l' = l + 1 /\ UNCHANGED <<comp, cfg, full, wl, bound, ever, nunb, st, taint>>
        ELSE /\ PrintT(<<"MISMATCH", l, "component", comp, "failed", Unexcused(e), "sizes", e.z, "cfg", cfg, "bound streams", nb,
                        "enabled", nbEn, "ever", Cardinality(ever), "h", e.h, "phase", e.ph>>)
             /\ taint' = "?" /\ l' = l + 1 /\ UNCHANGED <<comp, cfg, full, wl, bound, ever, nunb, st, devs>>
     ELSE /\ bound' = (IF e.a = "bind" THEN Put(bound, e.s, e.en) ELSE IF e.a = "unbind" THEN Del(bound, e.s) ELSE bound)
          /\ ever' = (IF e.a = "bind" /\ e.en THEN ever \cup {e.s} ELSE ever)
          /\ nunb' = nunb + Pos(e.a = "unbind")
          /\ st' = (IF full \/ e.a \in {"bind", "unbind", "close"} THEN StepSt(e) ELSE st)
          /\ l' = l + 1 /\ UNCHANGED <<comp, cfg, full, wl, devs, taint>>

HW == TLCSet(1, IF TLCGet(1) < l THEN l ELSE TLCGet(1))
ASSUME TLCSet(1, 0)
Post == PrintT(<<"HW", TLCGet(1), Len(Trace)>>) /\ TLCGet(1) = Len(Trace) + 1
=============================================================================

------------------------------ MODULE MC_Twcc ------------------------------
(* (M) exhaustive check of the TWCC recorder specification at scaled-down constants.

   Two machines run in lock step over every history of <= MaxSteps Record/Build calls:
     x    the property-level machine of Twcc.tla (the oracle used against the Go code)
     im   an implementation-shaped machine transcribed from arrival_time_map.go / twcc.go: begin/end of the
          circular map, startSequenceNumber (-1 = nil), culling loop from `begin`, the arrivalTime >= WIN guard,
          the greedy feedback builder (base = max(start, seq - GAPMAX), reference = first arrival / RU, rounded
          deltas with a running quantised clock, split when a delta does not fit)
   and TLC checks
     - the refinement: the history of the implementation-shaped machine IS the abstract history, everything pending
       lies in [start, end), culling happens exactly when the abstract machine says so;
     - satisfiability / consistency of the relational Build specification: in EVERY reachable state the packets
       the greedy builder would emit satisfy Accept (W1-W3, T1, T2, C1, R1, K1);
     - Accept <=> (Bad = {}): the linear-time formulation used by the trace validator agrees with the definitional
       one, on the builder's output and on systematically damaged copies of it (which must all be rejected when the
       damage is observable);
     - history invariants (bounded span, newest number present, first arrival wins, pending subset of history).
   Scaled constants (MC_Twcc*.cfg): 8 sequence numbers, history of 4, gap limit 2, window 10 us, 2 us ticks, 8 us
   reference units modulo 4, small deltas 0..3, large deltas -8..7, tolerance 1 us, counter modulo 4 - the ratios of the
   real constants (HMAX = M/2, GAPMAX = HMAX-2, SMAX = RU/TU-1).  Times = the arrival times a Record may carry (any
   order: reordered clock readings included); RB = time base.  Mut # 0 replaces the builder by a damaged one
   (MC_Twcc_neg.cfg: Satisfiable must then be violated).                                                          *)
EXTENDS Twcc
CONSTANTS MaxSteps, Times, RB, Mut
VARIABLES x, im, tl, steps
vars == <<x, im, tl, steps>>

\* ---- implementation-shaped machine ----
Im0 == [arr |-> <<>>, begin |-> 0, end |-> 0, start |-> -1, fb |-> 0, nil |-> TRUE]
AbsT(t) == RB * RU + t
SetMin(S, dflt) == FoldSet(Min2, dflt, S)

ImRecord(m, n, t) ==
  LET cullOn == m.start >= 0 /\ m.start >= m.end /\ AbsT(t) >= WIN
      upto   == Min2(n, m.end)
      \* while begin < upto && get(begin) <= limit: begin++   (a missing slot reads -1, i.e. always "old")
      b1     == IF cullOn /\ m.begin < upto
                THEN SetMin({k \in DOMAIN m.arr : k >= m.begin /\ k < upto /\ m.arr[k][1] > t - WIN}, upto)
                ELSE m.begin
      arr1   == Restrict(m.arr, {k \in DOMAIN m.arr : k >= b1})
      st1    == IF m.start < 0 \/ n < m.start THEN n ELSE m.start
      has    == n \in DOMAIN arr1
  IN IF has THEN [m EXCEPT !.arr = arr1, !.begin = b1, !.start = st1]
     ELSE LET r == IF m.nil THEN [arr |-> (n :> <<t, t>>), begin |-> n, end |-> n + 1]
                   ELSE IF n >= b1 /\ n < m.end THEN [arr |-> arr1 @@ (n :> <<t, t>>), begin |-> b1, end |-> m.end]
                   ELSE IF n < b1 THEN
                        IF m.end - n > HMAX THEN [arr |-> arr1, begin |-> b1, end |-> m.end]
                        ELSE [arr |-> arr1 @@ (n :> <<t, t>>), begin |-> n, end |-> m.end]
                   ELSE IF n + 1 >= m.end + HMAX THEN [arr |-> (n :> <<t, t>>), begin |-> n, end |-> n + 1]
                   ELSE LET b2 == Max2(b1, n + 1 - HMAX) IN
                        [arr |-> Restrict(arr1, {k \in DOMAIN arr1 : k >= b2}) @@ (n :> <<t, t>>),
                         begin |-> b2, end |-> n + 1]
          IN [m EXCEPT !.arr = r.arr, !.begin = r.begin, !.end = r.end, !.nil = FALSE,
                       !.start = Max2(st1, r.begin)]

\* ---- greedy builder in the shape of maybeBuildFeedbackPacket / feedback.addReceived ----
RoundDiv(a, b) == IF a >= 0 THEN (a + b \div 2) \div b ELSE -((-a + b \div 2) \div b)
RecvIn(m, lo) == {k \in DOMAIN m.arr : k >= lo}
\* symbols -> chunks: one run-length chunk when all symbols are equal, one-bit vectors when nothing is large,
\* two-bit vectors otherwise (any valid chunking is acceptable to the relational specification)
PadTo(s, n) == [i \in 1 .. n |-> IF i <= Len(s) THEN s[i] ELSE 0]
RECURSIVE Vec(_, _, _)
Vec(syms, k, w) == IF syms = <<>> THEN <<>>
                   ELSE <<[k |-> k, s |-> 0, n |-> 0, v |-> PadTo(SubSeq(syms, 1, Min2(w, Len(syms))), w)]>>
                        \o Vec(SubSeq(syms, w + 1, Len(syms)), k, w)
Chunks(syms) == IF \A i \in DOMAIN syms : syms[i] = syms[1]
                THEN <<[k |-> 0, s |-> syms[1], n |-> Len(syms), v |-> <<>>]>>
                ELSE IF \A i \in DOMAIN syms : syms[i] # 2 THEN Vec(syms, 1, 14) ELSE Vec(syms, 2, 7)
\* one packet starting at lo: returns [pkt, next]
RECURSIVE Fill(_, _, _, _, _, _)
\* seq = next candidate, lastTs = running quantised clock, syms/ds accumulated, nxt = next expected number
Fill(m, seq, lastTs, syms, ds, nxt) ==
  LET rs == RecvIn(m, seq) IN
  IF rs = {} THEN [syms |-> syms, ds |-> ds, next |-> nxt]
  ELSE LET s  == SetMin(rs, m.end)
           d  == RoundDiv(m.arr[s][1] - lastTs, TU)
       IN IF d < LMIN \/ d > LMAX THEN [syms |-> syms, ds |-> ds, next |-> nxt]
          ELSE Fill(m, s + 1, lastTs + d * TU,
                    syms \o [i \in 1 .. (s - nxt) |-> 0] \o <<IF d >= 0 /\ d <= SMAX THEN 1 ELSE 2>>,
                    Append(ds, d), s + 1)
MkPacket(m, lo, fb) ==
  LET s0   == SetMin(RecvIn(m, lo), m.end)
      base == Max2(lo, s0 - GAPMAX)
      ref  == m.arr[s0][1] \div RU
      f    == Fill(m, s0, ref * RU, <<>>, <<>>, base)
      ch   == Chunks(f.syms)
      wl   == Pad4(20 + 2 * Len(ch) + SumSeq([i \in DOMAIN f.syms |-> f.syms[i]]))
  IN [pkt |-> [base |-> base % M, cnt |-> Len(f.syms), ref |-> (RB + ref) % RMOD, fb |-> fb % FBMOD,
               ch |-> ch, d |-> f.ds, wl |-> wl, hl |-> wl, rt |-> TRUE],
      next |-> f.next]
RECURSIVE Packets(_, _, _)
Packets(m, lo, fb) == IF RecvIn(m, lo) = {} THEN <<>>
                      ELSE LET r == MkPacket(m, lo, fb) IN <<r.pkt>> \o Packets(m, r.next, fb + 1)
ImBuildOut(m) == IF m.start < 0 THEN <<>> ELSE Packets(m, m.start, m.fb)
ImBuild(m) == IF m.start < 0 THEN m
              ELSE [m EXCEPT !.start = Max2(m.start, m.end), !.fb = (m.fb + Len(ImBuildOut(m))) % FBMOD]

\* ---- systematically damaged outputs (negative controls inside the model) ----
Dmg(Ps, i) ==
  IF Ps = <<>> THEN Ps
  ELSE LET P == Ps[1] IN
    CASE i = 1 -> [Ps EXCEPT ![1].cnt = P.cnt + 1]                          \* status count off by one
      [] i = 2 -> [Ps EXCEPT ![1].d = [P.d EXCEPT ![1] = @ + 2]]            \* a delta two ticks off
      [] i = 3 -> [Ps EXCEPT ![1].ref = (P.ref + 1) % RMOD]                 \* reference time off by one unit
      [] i = 4 -> [Ps EXCEPT ![1].fb = (P.fb + 1) % FBMOD]                  \* counter skipped
      [] i = 5 -> [Ps EXCEPT ![1].base = (P.base + 1) % M]                  \* base shifted
      [] i = 6 -> [Ps EXCEPT ![1].wl = P.wl + 4]                            \* length mismatch
      [] i = 7 -> SubSeq(Ps, 2, Len(Ps))                                    \* first packet withheld
      [] OTHER -> Ps

\* ---- the model ----
BuilderOut(m) == IF Mut = 0 THEN ImBuildOut(m) ELSE Dmg(ImBuildOut(m), Mut)
Init == x = Fresh0 /\ im = Im0 /\ tl = 0 /\ steps = 0
Record(w, t) == /\ x' = RecordStep(x, w, t, t)
                /\ im' = ImRecord(im, TrueNum(x, w), t)
                /\ tl' = t
Build == /\ x' = BuildStep(x, BuilderOut(im)) /\ im' = ImBuild(im) /\ UNCHANGED tl
Next == /\ steps < MaxSteps /\ steps' = steps + 1
        /\ \/ \E w \in 0 .. M - 1, t \in Times : Record(w, t)
           \/ Build
Spec == Init /\ [][Next]_vars

\* ---- invariants ----
HistoryOK ==
  /\ DOMAIN x.arr \subseteq (x.end - HMAX) .. (x.end - 1)
  /\ (x.last >= 0 => (x.end - 1) \in DOMAIN x.arr) /\ x.last < x.end
  /\ x.pend \subseteq DOMAIN x.arr
  /\ (x.fresh => x.pend = {})
  /\ DOMAIN x.arr \subseteq x.lo .. (x.end - 1)
Refines ==
  /\ im.arr = x.arr /\ im.end = x.end
  /\ DOMAIN im.arr \subseteq im.begin .. (im.end - 1) /\ im.end - im.begin <= HMAX
  /\ (im.start >= 0 => im.begin <= im.start /\ im.start <= im.end)
  /\ x.pend \subseteq im.start .. (im.end - 1)
  /\ (x.last >= 0 => (x.fresh <=> im.start >= im.end))
  /\ (x.fb >= 0 => x.fb = im.fb)
\* the relational specification is satisfiable in every reachable state, by the greedy builder
Satisfiable == Accept(x, RB, BuilderOut(im))
\* definitional and linear formulations agree, on good and on damaged packet lists
Agree == \A i \in 0 .. 7 : LET Ps == Dmg(ImBuildOut(im), i) IN Accept(x, RB, Ps) <=> (Bad(x, RB, Ps) = {})
\* damage that changes what a receiver decodes is rejected
Sensitive == LET Ps == ImBuildOut(im) IN Ps # <<>> =>
               /\ \A i \in {2, 3, 6} : ~Accept(x, RB, Dmg(Ps, i))
               /\ (x.fb >= 0 \/ Len(Ps) > 1 => ~Accept(x, RB, Dmg(Ps, 4)))
               /\ (x.pend # {} /\ Len(Ps) = 1 => ~Accept(x, RB, Dmg(Ps, 7)))
\* (negative-control configurations set Mut # 0 and expect Satisfiable to be violated)
\* first arrival wins; only Record changes the history
FirstWins == [][\A n \in DOMAIN x.arr \cap DOMAIN x'.arr : x'.arr[n] = x.arr[n]]_vars
BuildKeepsHistory == [][x'.fresh => x'.arr = x.arr /\ x'.pend = {} /\ x'.last = x.last /\ x'.end = x.end]_vars
\* the history loses a number only through the HMAX limit, or by culling: directly after a Build, only reported
\* entries (nothing is pending then) that are at least WIN older than the arrival being recorded
CullOnlyReported == [][\A n \in DOMAIN x.arr \ DOMAIN x'.arr :
                         \/ n <= x'.end - 1 - HMAX
                         \/ (x.fresh /\ x.pend = {} /\ n < x'.last /\ x.arr[n][1] <= tl' - WIN) ]_vars
\* a pending number stays pending until it is built or pushed out by the HMAX limit
PendingKept == [][\A n \in x.pend : x'.fresh \/ n \in x'.pend \/ n <= x'.end - 1 - HMAX]_vars
=============================================================================

SPECIFICATION Spec
CONSTANTS
  M = 16
  K = 2
  MaxSteps = 3
INVARIANTS RecountRtp RecountFeedback RecountLoss RecountRemoteInbound RecountRemoteOutbound
PROPERTIES Isolation
CHECK_DEADLOCK FALSE

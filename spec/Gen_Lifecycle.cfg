INIT Init
NEXT Next
CONSTANTS
  L = 3
CONSTRAINT Leaf
CHECK_DEADLOCK FALSE

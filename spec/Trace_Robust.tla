---------------------------- MODULE Trace_Robust ----------------------------
(* (T) C02: traces of the universal chain harness in which shapes of PacketShapes (serialised to bytes) are delivered
   through the RTP / RTCP readers, and outgoing packets of any size are written.  For every such input:
   the call returns, nothing panics, no more bytes are reported than were given; and a following well-formed probe
   packet is handled normally.  (A panic in a background goroutine kills the test process; vlib reports it with the
   script that was running.) *)
EXTENDS Integers, Sequences, FiniteSets, TLC, Json, IOUtils
Trace == ndJsonDeserialize(IOEnv.VERIF_TRACE)
KnownSeq == ndJsonDeserialize(IOEnv.VERIF_KNOWN)
Known == {KnownSeq[i].tag : i \in DOMAIN KnownSeq}
VARIABLES l, members, devs, taint
Range(f) == {f[i] : i \in DOMAIN f}
Has(k) == k \in Range(members)
Init == l = 1 /\ members = <<>> /\ devs = {} /\ taint = ""
Accept(e) ==
  IF e.a \in {"pre", "wire"} THEN TRUE
  ELSE IF e.a = "end" THEN ~e.aborted
  ELSE /\ ~e.blocked /\ e.panic = ""
       /\ (e.a \in {"rrtp", "rrtcp"} /\ ~e.skipped) =>
            IF Has("jitter") THEN e.n <= 1500 /\ e.n >= 0   \* a buffering member returns an EARLIER packet: bounded by the read buffer
            ELSE IF e.raw THEN e.n <= e.len /\ e.n >= 0                    \* never more than it was given
            ELSE e.fail \/ (e.err = 0 /\ e.n = e.len /\ e.same)            \* well-formed probe: handled normally
NewDevs(e) == {}
Next ==
  /\ l <= Len(Trace)
  /\ LET e == Trace[l] IN
     IF e.a = "reset" THEN members' = e.members /\ devs' = {} /\ taint' = "" /\ l' = l + 1
     ELSE IF taint # "" THEN l' = l + 1 /\ UNCHANGED <<members, devs, taint>>
     ELSE IF Accept(e) THEN l' = l + 1 /\ devs' = devs \cup NewDevs(e) /\ UNCHANGED <<members, taint>>
     ELSE LET k == (devs \cup NewDevs(e)) \cap Known IN
        IF k # {} THEN /\ PrintT(<<"KNOWNDEV", l, CHOOSE t \in k : TRUE>>)
                       /\ taint' = (CHOOSE t \in k : TRUE) /\ l' = l + 1 /\ UNCHANGED <<members, devs>>
        ELSE /\ PrintT(<<"MISMATCH", l, "event", e.a, "members", members>>)
             /\ taint' = "?" /\ l' = l + 1 /\ UNCHANGED <<members, devs>>
HW == TLCSet(1, IF TLCGet(1) < l THEN l ELSE TLCGet(1))
ASSUME TLCSet(1, 0)
Post == PrintT(<<"HW", TLCGet(1), Len(Trace)>>) /\ TLCGet(1) = Len(Trace) + 1
=============================================================================

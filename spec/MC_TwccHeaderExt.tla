------------------------- MODULE MC_TwccHeaderExt -------------------------
(* (M) all interleavings of concurrent writers on the shared counter (C15): the allocation and the forward to the
   next writer are separate steps, as in the code (atomic.AddUint32, then header.SetExtension + writer.Write
   outside any lock).  NonAtomic = TRUE is the negative control (load and store as two steps). *)
EXTENDS TwccHeaderExt
CONSTANTS Writers,        \* goroutines
          NW,             \* writes per goroutine
          C0,             \* counter value when the run starts (close to the wrap)
          Plain,          \* writers whose stream did not negotiate the extension
          NonAtomic
VARIABLES ctr, pc, tmp, hold, done, out
vars == <<ctr, pc, tmp, hold, done, out>>

W3 == {1, 2, 3}
W4 == {1, 2, 3, 4}
NoPlain == {}
OnePlain == {3}
IdOf(w) == IF w \in Plain THEN 0 ELSE w + 2        \* different extension ids on different streams

Init == /\ ctr = C0 /\ pc = [w \in Writers |-> "idle"] /\ tmp = [w \in Writers |-> 0]
        /\ hold = [w \in Writers |-> -1] /\ done = [w \in Writers |-> 0] /\ out = {}

\* the allocation: one atomic fetch-and-add (or nothing for a stream that did not negotiate)
Alloc(w) == /\ pc[w] = "idle" /\ done[w] < NW /\ (~NonAtomic \/ w \in Plain)
            /\ hold' = [hold EXCEPT ![w] = IF Negotiated(IdOf(w)) THEN ctr ELSE -1]
            /\ ctr' = CtrStep(ctr, IdOf(w))
            /\ pc' = [pc EXCEPT ![w] = "fwd"] /\ UNCHANGED <<tmp, done, out>>
\* negative control: load, then store
Load(w) == /\ pc[w] = "idle" /\ done[w] < NW /\ NonAtomic /\ w \notin Plain
           /\ tmp' = [tmp EXCEPT ![w] = ctr] /\ pc' = [pc EXCEPT ![w] = "store"] /\ UNCHANGED <<ctr, hold, done, out>>
Store(w) == /\ pc[w] = "store" /\ ctr' = tmp[w] + 1 /\ hold' = [hold EXCEPT ![w] = tmp[w]]
            /\ pc' = [pc EXCEPT ![w] = "fwd"] /\ UNCHANGED <<tmp, done, out>>
\* the packet reaches the next writer
Forward(w) == /\ pc[w] = "fwd"
              /\ out' = out \cup {[w |-> w, k |-> done[w], v |-> hold[w], wire |-> IF hold[w] < 0 THEN -1 ELSE Res16(hold[w])]}
              /\ done' = [done EXCEPT ![w] = @ + 1] /\ hold' = [hold EXCEPT ![w] = -1]
              /\ pc' = [pc EXCEPT ![w] = "idle"] /\ UNCHANGED <<ctr, tmp>>
Next == \E w \in Writers : Alloc(w) \/ Load(w) \/ Store(w) \/ Forward(w)
Spec == Init /\ [][Next]_vars

\* out = the packets that reached the next writer: [w = goroutine, k = its k-th write, v = number (-1: none), wire]
Numbered == {o \in out : o.v >= 0}
Sent == {o.v : o \in Numbered}
Held == {hold[w] : w \in {x \in Writers : pc[x] = "fwd" /\ hold[x] >= 0}}
NSent == Cardinality(Numbered)
\* ---- the clauses of C15 ----
\* no number is used twice (true values and, the run being shorter than M, their wire residues)
NoDup == /\ Cardinality(Sent) = NSent /\ Sent \cap Held = {}
         /\ Cardinality({Res16(v) : v \in Sent}) = NSent
         /\ Cardinality(Held) = Cardinality({w \in Writers : pc[w] = "fwd" /\ hold[w] >= 0})
\* the numbers handed out so far are exactly C0 .. ctr - 1: no gap at any time, hence none at the end
GapFree == Sent \cup Held = C0 .. (ctr - 1)
\* when everything is written the numbers on the wire are C0 .. C0 + N - 1 modulo M
AllDone == \A w \in Writers : done[w] = NW
Exact == AllDone => /\ Sent = C0 .. (C0 + NW * Cardinality(Writers \ Plain) - 1)
                    /\ {o.wire : o \in Numbered}
                         = {Res16(C0 + k) : k \in 0 .. (NW * Cardinality(Writers \ Plain) - 1)}
\* every goroutine sees its own numbers strictly increasing
OwnIncreasing == \A a, b \in Numbered : (a.w = b.w /\ a.k < b.k) => a.v < b.v
\* a stream that did not negotiate the extension never consumes a number
PlainUntouched == \A o \in out : (o.w \in Plain) <=> (o.v = -1)
=============================================================================

------------------------------- MODULE Rebind -------------------------------
(* C11, clause P5 ("binding the same SSRC again starts from fresh state") and the release of per-stream state,
   as a TWO-RUN RELATION.

   An interceptor instance holds per-stream state (an abstract value per SSRC) and per-instance state that is
   legitimately shared by all streams.  The interface actions are pure operators over an instance:

       BindStep(i, s)  UnbindStep(i, s)  TrafficStep(i, s, x)  TickStep(i)        (+ Out*(..) = what is emitted)

   Everything emitted about s is a function of the per-stream state since the LAST Bind(s) (and of per-instance state).
   The property: for every first life H of stream s, every suffix B, and every history of the OTHER streams,

       obs( Bind(s); H; Unbind(s); Bind(s); B )  restricted to after the second Bind
     = obs( Bind(s); B )  on a fresh instance that saw the same history of the other streams,

   modulo Exempt - the per-instance quantities that are not per-stream state (list below, transcribed from the code).
   MC_Rebind runs both instances in lock step and checks the relation as an invariant; a negative control has an Unbind
   that forgets one field.  Gen_Rebind enumerates concrete (kind, H, B, knobs); the universal harness executes both runs on
   the real interceptors; Trace_Rebind pairs the recorded observations and compares them with Proj* below.

   ---------------------------------------------------------------------------------------------------------------
   Per-instance state that is legitimately NOT per-stream (excluded from the comparison by ProjEm / ProjObs):
     * RTX sequence numbers of retransmissions: one rtp.NewRandomSequencer per responder instance, shared by all
       streams (internal/rtpbuffer/packet_factory.go:45) - random per instance, never restarted by a bind.
     * RTCP sender SSRCs: rand.Uint32() per generator loop (nack/generator_interceptor.go:154), per receiverStream
       (report/receiver_stream.go:43, random per BIND - a fresh bind draws a new one by design), per TWCC recorder.
     * TWCC sender: the Recorder is transport wide (arrival-time map over the transport-wide numbers of ALL streams,
       FbPktCount, reference time, the media SSRC of the last recorded packet): only the SET of acknowledged
       transport-wide numbers that belong to the suffix B is compared (twcc/sender_interceptor.go has no Unbind and
       keeps no per-stream state beyond the negotiated extension id, which is captured by the reader closure).
     * TWCC header extension interceptor: the transport-wide counter (not exercised here, C15).
     * rtpfb: the history counter ("SequenceNumber" of a PacketReport counts packets of all streams), departure /
       arrival wall-clock times and the RTT (time.Now, not injectable from outside the package).
     * rfc8888: ReportTimestamp of the report and the blocks of other SSRCs.
     * cc / gcc: the estimator (feedback adapter history keyed by transport-wide number, rate, RTT - all driven by
       time.Now) is per peer connection; only the pacer's stream table (which writer a packet of s reaches) is compared.
     * intervalpli: the NUMBER of PLIs in a tick window (a forced PLI requested by BindRemoteStream is written by the
       loop whenever it gets to it, "one already in flight"): only "some PLI about s in this window" is compared.
     * FlexFEC repair sequence numbers are NOT exempt: the encoder (and its counter, starting at 1000) is created by
       BindLocalStream, so a fresh bind restarts it.
   --------------------------------------------------------------------------------------------------------------- *)
EXTENDS Integers, Sequences, FiniteSets, TLC

Range(f) == {f[i] : i \in DOMAIN f}
Bag(f) == [x \in Range(f) |-> Cardinality({i \in DOMAIN f : f[i] = x})]

\* ------------------------------------------------------------------------------------------- abstract machine
\* per-stream state: log = inputs since the last bind (receive log / send buffer / counters / partial FEC batch are
\* functions of it), rep = how much of it has been reported (last-report pointer, NACK counts)
Unbound == [bound |-> FALSE, log |-> <<>>, rep |-> 0]
\* an instance: per-stream states + transport-wide packet counter + feedback packet counter
NewInstance(Streams) == [st |-> [s \in Streams |-> Unbound], tw |-> 0, fbc |-> 0]

\* Forget = "" is the property's Unbind (everything released); "log" / "rep" keep that field (negative controls)
UnbindStep(Forget, i, s) ==
  [i EXCEPT !.st[s] = [bound |-> FALSE,
                       log |-> IF Forget = "log" THEN @.log ELSE <<>>,
                       rep |-> IF Forget = "rep" THEN @.rep ELSE 0]]
\* Bind creates state only where none is held: it starts from the initial state iff Unbind released everything
BindStep(i, s) == [i EXCEPT !.st[s].bound = TRUE]
TrafficStep(i, s, x) == IF i.st[s].bound THEN [i EXCEPT !.st[s].log = Append(@, x), !.tw = @ + 1] ELSE i
\* emission caused by traffic on s (a retransmission / repair packet / statistics reading is a function of the log)
TrafficOut(i, s, x) == LET j == TrafficStep(i, s, x) IN
  IF i.st[s].bound THEN <<[about |-> s, log |-> j.st[s].log, rep |-> j.st[s].rep, tw |-> j.tw, fbc |-> j.fbc]>> ELSE <<>>
\* a tick reports every bound stream and moves its report pointer
TickStep(i) == [st |-> [s \in DOMAIN i.st |-> IF i.st[s].bound
                                                 THEN [bound |-> TRUE, log |-> i.st[s].log, rep |-> Len(i.st[s].log)]
                                                 ELSE i.st[s]],
                tw |-> i.tw, fbc |-> i.fbc + 1]
TickOut(i, s) == IF i.st[s].bound THEN <<[about |-> s, log |-> i.st[s].log, rep |-> i.st[s].rep, tw |-> i.tw, fbc |-> i.fbc + 1]>>
                 ELSE <<>>
\* the per-instance fields named in Exempt are not compared
ProjAbs(Exempt, o) == [f \in DOMAIN o \ Exempt |-> o[f]]
ProjAbsSeq(Exempt, obs) == [k \in DOMAIN obs |-> ProjAbs(Exempt, obs[k])]
AbsExempt == {"tw", "fbc"}

\* ------------------------------------------------------------------------------------------- the real kinds
\* kind of the generated scripts -> member of the universal harness, side of the re-bound stream
Kinds == {"nackgen", "nackresp", "rrecv", "rsend", "statsl", "statsr", "flexfec", "jitter", "rtpfb", "pli",
          "twccsend", "rfc8888", "cc"}
Local == {"nackresp", "rsend", "statsl", "flexfec", "rtpfb", "cc"}       \* s is a local (outgoing) stream
\* boundary alphabets (relative to the highest number of the current life; see Gen_Rebind)
HOps(k) ==
  CASE k = "nackgen"  -> {"next", "gap", "late", "tick"}
    [] k = "nackresp" -> {"next", "gap", "fb"}                       \* fb = NACK received for the newest number
    [] k = "rrecv"    -> {"next", "gap", "late", "fb", "tick"}       \* fb = sender report received
    [] k = "rsend"    -> {"next", "gap", "late", "tick"}
    [] k = "statsl"   -> {"next", "gap", "fb"}                       \* fb = NACK received (counted per stream)
    [] k = "statsr"   -> {"next", "gap", "late"}
    [] k = "flexfec"  -> {"next", "gap"}
    [] k = "jitter"   -> {"next", "gap", "burst"}                    \* burst = 50 packets in order (buffer starts to emit)
    [] k = "rtpfb"    -> {"next", "gap", "fb"}                       \* fb = RFC 8888 report acknowledging the newest number
    [] k = "pli"      -> {"tick"}
    [] k = "twccsend" -> {"next", "gap"}
    [] k = "rfc8888"  -> {"next", "gap", "late", "tick"}
    [] k = "cc"       -> {"next"}
BOps(k) ==
  CASE k = "nackgen"  -> {"next", "gap", "late", "tick"}
    [] k = "nackresp" -> {"next", "gap", "fbold", "fbnew"}           \* fbold = NACK for a number sent BEFORE the Unbind
    [] k = "rrecv"    -> {"next", "gap", "late", "fbnew", "tick"}
    [] k = "rsend"    -> {"next", "gap", "late", "tick"}
    [] k = "statsl"   -> {"next", "gap", "fbnew"}
    [] k = "statsr"   -> {"next", "gap", "late"}
    [] k = "flexfec"  -> {"next", "gap"}
    [] k = "jitter"   -> {"next", "gap", "burst"}
    [] k = "rtpfb"    -> {"next", "fbold", "fbnew"}
    [] k = "pli"      -> {"tick"}
    [] k = "twccsend" -> {"next", "gap"}
    [] k = "rfc8888"  -> {"next", "gap", "late", "tick"}
    [] k = "cc"       -> {"next"}
\* second-bind StreamInfo variants: 0 same as the first bind, 1 other parameters (clock rate / RTX on / other FEC SSRC /
\* other extension id), 2 the feature is no longer negotiated (feedback list without nack / pli, no transport-cc, no FEC)
Variants(k) == IF k \in {"nackgen", "nackresp", "pli", "twccsend", "flexfec", "cc"} THEN {0, 1, 2}
               ELSE IF k \in {"rrecv", "rsend", "statsl", "statsr", "rtpfb"} THEN {0, 1} ELSE {0}
\* may another stream stay bound meanwhile?  The jitter-buffer interceptor holds ONE buffer per instance (it is meant to be
\* instantiated per stream): Unbind of s clears the other stream's packets as well, which the fresh run - having no Unbind -
\* does not do; that is not what P5 is about, so jitter is exercised with the single stream it is designed for.
Oths(k) == IF k = "jitter" THEN {0} ELSE {0, 1}

\* ------------------------------------------------------------------------------------------- deviation tags
\* interceptors without any Unbind*: the per-SSRC state of the first life is still there after the second Bind
DevTags(k, hadFirstLife) ==
  IF ~hadFirstLife THEN {}
  ELSE IF k = "rfc8888" THEN {"C11.Rfc8888NeverUnbinds"}
  ELSE IF k \in {"statsl", "statsr"} THEN {"C11.StatsNeverUnbinds"}
  ELSE IF k = "rtpfb" THEN {"C11.RtpfbNeverUnbinds"}
  ELSE {}

\* ------------------------------------------------------------------------------------------- projections of recorded observations
\* an emission record of the harness: [t, ssrc, seq, from, cur, x, nums, pl]
RtcpTypes == {"rr", "sr", "nack", "pli", "twcc", "ccfb", "other"}
ProjEm(k, m) ==
  IF m.t = "rtx" THEN [m EXCEPT !.seq = 0]                       \* RTX sequence numbers: random per instance
  ELSE IF m.t \in RtcpTypes THEN [m EXCEPT !.from = 0]           \* RTCP sender SSRC: random per loop / bind
  ELSE m
InB(info, n) == n \in info.bnums      \* transport-wide numbers carried by the suffix packets of s
ProjEms(k, info, em) ==
  IF k = "twccsend" THEN            \* the set of acknowledged transport-wide numbers of the suffix
    UNION {{n \in Range(em[i].nums) : InB(info, n)} : i \in {j \in DOMAIN em : em[j].t = "twcc"}}
  ELSE IF k = "pli" THEN            \* "some PLI about s was written in this window"
    {em[i].t : i \in {j \in DOMAIN em : em[j].t = "pli"}}
  ELSE LET own == SelectSeq(em, LAMBDA m : m.t # "twcc") IN Bag([i \in DOMAIN own |-> ProjEm(k, own[i])])
\* rtpfb report entries [ssrc, seq, arrived, cnt]: the history counter is per instance
ProjRep(k, rep) == Bag([i \in DOMAIN rep |-> [rep[i] EXCEPT !.cnt = 0]])
\* an observation of one step of the suffix
ProjObs(k, info, o) ==
  [step |-> o.step, n |-> o.n, err |-> o.err, es |-> o.es, same |-> o.same, rseq |-> o.rseq,
   em |-> ProjEms(k, info, o.em), st |-> o.st, rep |-> ProjRep(k, o.rep)]
=============================================================================

INIT Init
NEXT Next
CONSTANTS BurstFloor = 12000
CONSTRAINT HW
POSTCONDITION Post
CHECK_DEADLOCK FALSE

---------------------------- MODULE IndUnwrap ----------------------------
(* Unbounded counterpart of MC_Unwrap, for Apalache: the clauses of C20 (unwrapper half) as ONE inductive invariant at
   the real modulus M = 65536 and for every non-negative state (no bound on the length of the history or on `last`).
     apalache-mc check --cinit=CInit --init=Init    --inv=IndInv --length=0   (the initial state satisfies it)
     apalache-mc check --cinit=CInit --init=IndInit --inv=IndInv --length=1   (every step from ANY state satisfying it keeps it)
   The literal quantifier of MC_Unwrap!ExistsNear (a range with symbolic bounds under both polarities) is replaced
   by its closed form over the only two candidates, last + d and last + d - M; that the two agree is the clause
   LemmaInRange that TLC checks with the literal quantifier at M = 16 / 32 / 64. *)
EXTENDS Unwrap
VARIABLES
  \* @type: {init: Bool, last: Int};
  st,
  \* @type: {init: Bool, last: Int};
  pre,
  \* @type: Int;
  inp,
  \* @type: Int;
  truth,
  \* @type: Bool;
  stepped      \* FALSE in the state the induction starts from, TRUE after a step (used by the controls only)
vars == <<st, pre, inp, truth, stepped>>

CInit == M = 65536

Init == st = Fresh /\ pre = Fresh /\ inp = 0 /\ truth = -1 /\ stepped = FALSE

AnyStep == \E v \in 0 .. M - 1 :
             /\ st' = UnwrapNext(st, v) /\ pre' = st /\ inp' = v /\ truth' = -1
TrueStep == /\ st.init => truth # -1
            /\ \E t \in Int :
                 /\ t >= 0
                 /\ IF st.init THEN t >= truth - (H - 1) /\ t <= truth + (H - 1) ELSE t < M
                 /\ truth' = t /\ st' = UnwrapNext(st, t % M) /\ pre' = st /\ inp' = t % M
Next == (AnyStep \/ TrueStep) /\ stepped' = TRUE

\* closed form of "a non-negative value congruent to inp lies within M/2 of pre.last"
Near2 == LET d == (inp - (pre.last % M)) % M IN d <= H \/ pre.last + d - M >= 0

StepClauses ==
  /\ st.init => st.last % M = inp                                    \* Congruent
  /\ (st.init /\ ~pre.init) => st.last = inp                         \* FirstIsInput
  /\ (pre.init /\ Near2) => Abs(st.last - pre.last) <= H             \* Near
  /\ (pre.init /\ ~Near2) => st.last = inp                           \* FloorAtZero
  /\ st.init => UnwrapVal(st, inp) = st.last                         \* Idempotent

IndInv ==
  /\ st.last >= 0 /\ pre.last >= 0 /\ inp >= 0 /\ inp < M /\ truth >= -1
  /\ ~st.init => st = Fresh /\ truth = -1
  /\ truth # -1 => st.init /\ st.last = truth                         \* Exact
  /\ StepClauses

IndInit ==
  /\ \E b \in BOOLEAN, n \in Int : st = [init |-> b, last |-> n]
  /\ \E b \in BOOLEAN, n \in Int : pre = [init |-> b, last |-> n]
  /\ inp \in Int /\ truth \in Int /\ stepped = FALSE
  /\ IndInv

\* negative control: without the guard the clause is not inductive (previous 5, input M - 6): from a state that
\* satisfies IndInv /\ NearAlways a step reaches one that does not -- Apalache must report a violation in state 1
NearAlways == pre.init => Abs(st.last - pre.last) <= H
IndInitNeg == IndInit /\ NearAlways
IndInvNeg == stepped => NearAlways
\* reachability controls (each must be reported VIOLATED, in state 1): the induction hypothesis admits states far beyond
\* anything TLC enumerates, and both kinds of step, the backward step and the floor case are enabled from them
NoHuge == ~(stepped /\ st.init /\ st.last > 1000000000000 /\ truth = st.last)
NoBackwardTrue == ~(stepped /\ pre.init /\ truth # -1 /\ st.last < pre.last /\ pre.last > 1000000000000)
NoFloor == ~(stepped /\ pre.init /\ ~Near2)
NoTie == ~(stepped /\ pre.init /\ (inp - (pre.last % M)) % M = H /\ pre.last > M)
=============================================================================

INIT Init
NEXT Next
CONSTANTS Strict = TRUE
CONSTRAINT HW
POSTCONDITION Post
CHECK_DEADLOCK FALSE

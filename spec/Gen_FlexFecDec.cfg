INIT Init
NEXT Next
CONSTANTS
  M = 65536
  Ks = {1, 2, 4, 5, 6, 15, 16, 46, 47, 109}
  Bases = {0, 65530}
  LPs = {0, 1, 2, 3, 4, 5, 6, 7, 8}
  OPs = {0, 1, 2, 3, 4, 5, 6, 7, 8}
  SPs = {1}
  LPats = {1}
  NumShapes = 9
  NumLens = 4
  L = 1
CONSTRAINT Leaf
CHECK_DEADLOCK FALSE

SPECIFICATION Spec
CONSTANTS
  RF = {"all", "even"}
  CF = {"all", "hasfb"}
  PF = {"all", "fb", "none"}
  RFMT = {"text", "both"}
  CFMT = {"text", "bin", "both", "def"}
  MaxCalls = 3
  Variant = "spec"
INVARIANTS OrderOK FilterSound TextOncePerCall
PROPERTIES NothingAfterCloseReturned DroppedOnlyWhenClosing EveryAcceptedCallDumped CloseReturns
CHECK_DEADLOCK FALSE

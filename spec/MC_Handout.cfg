SPECIFICATION Spec
CONSTANTS
  Cells = {1, 2, 3, 4}
  Contents = {1, 2, 3}
  Policy = "fresh"
  MaxOut = 3
INVARIANT Intact
CHECK_DEADLOCK FALSE

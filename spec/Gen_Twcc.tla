------------------------------ MODULE Gen_Twcc ------------------------------
(* (G) behaviour generator for C05: every sequence of L actions over a boundary-value alphabet that is *relative to
   the specification state*, at the real constants.  Actions:
     Record(dn, dt)   wire number = (highest number recorded so far + dn) mod 2^16, dn in DNF (forward, 0 = duplicate
                      of the highest) or -dn for dn in DNB (late packets); arrival = latest arrival so far + dt for
                      dt in DT, or - for dt in DTB - an arrival EARLIER than the latest one (a reordered clock reading)
     Build
   after a warm-up (two packets with a one-number gap, optionally already reported).  Every complete behaviour, with
   a final Build appended, is printed as one JSON script; the Go harness executes it on the real twcc.Recorder and the
   recorded trace (with the packets that were really built) is validated by Trace_Twcc.  The driver combines each
   behaviour with several time bases rb (reference-time wrap) - the specification state does not depend on rb. *)
EXTENDS Twcc, Json
CONSTANTS Base, T0, WarmBuild, L, DNF, DNB, DT, DTB
VARIABLES x, now, hist
vars == <<x, now, hist>>

Ev(a, w, t) == [a |-> a, w |-> w, t |-> t]
Warm == <<Ev("rec", Base % M, T0), Ev("rec", (Base + 2) % M, T0 + 1000)>>
        \o (IF WarmBuild = 1 THEN <<Ev("build", 0, 0)>> ELSE <<>>)
X0 == LET a == RecordStep(RecordStep(Fresh0, Base % M, T0, T0), (Base + 2) % M, T0 + 1000, T0 + 1000)
      IN IF WarmBuild = 1 THEN BuildStep(a, <<>>) ELSE a

Init == x = X0 /\ now = T0 + 1000 /\ hist = Warm
Rec(w, t) == x' = RecordStep(x, w, t, t) /\ hist' = Append(hist, Ev("rec", w, t))
Next == /\ Len(hist) < Len(Warm) + L
        /\ \/ \E dn \in DNF \cup {-d : d \in DNB} :
                LET w == (x.end - 1 + dn) % M IN
                \/ \E dt \in DT : Rec(w, now + dt) /\ now' = now + dt
                \/ \E dt \in DTB : now - dt >= 0 /\ Rec(w, now - dt) /\ now' = now
           \/ /\ x' = BuildStep(x, <<>>) /\ hist' = Append(hist, Ev("build", 0, 0)) /\ now' = now
Leaf == IF Len(hist) = Len(Warm) + L
        THEN PrintT(<<"TRACE", ToJson(Append(hist, Ev("build", 0, 0)))>>) /\ FALSE
        ELSE TRUE
=============================================================================

SPECIFICATION Spec
CONSTANTS
  Streams <- S2
  S = 1
  Inputs <- I2
  MaxSteps = 6
  Forget = ""
  Exempt <- ExemptAbs
INVARIANTS TwoRun Released
CHECK_DEADLOCK FALSE

-------------------------- MODULE Trace_NackResp --------------------------
(* (T) validates traces recorded from internal/rtpbuffer (level "buf") and from the real ResponderInterceptor
   driven through the verif gates (level "icpt") against the property-level RtpBuffer machine.

   Events (pkt = canonical record of header fields + payload bytes as logged by the harness):
     reset {size}
     bind {s, nack, rtxssrc, rtxpt} / unbind {s} / close
     write {s, w, id, ok, fwd, pkt}       application write through the bound writer (pkt as sent)
     nack {s, j, nums}                    a NACK was read: resend goroutine j exists
     jobstart {j, found}                  goroutine j looked its stream up
     jobget {j, n, found}                 goroutine j asked the buffer for number n
     jobemit {j, pkt}                     goroutine j's retransmission reached the stream's writer
     end {stray, pending}                 stray = retransmissions not accounted by a job step
     add {w, id, ok, pkt} / get {n, out} / clear      level "buf": RTPBuffer + PacketFactoryCopy directly *)
EXTENDS RtpBuffer, Json, IOUtils
Trace == ndJsonDeserialize(IOEnv.VERIF_TRACE)
KnownSeq == ndJsonDeserialize(IOEnv.VERIF_KNOWN)
Known == {KnownSeq[i].tag : i \in DOMAIN KnownSeq}

VARIABLES l, size, cur, gens, bufs, rtx, content, jobs, devs, taint
vars == <<l, size, cur, gens, bufs, rtx, content, jobs, devs, taint>>

MaxPayload == 1460
NoRtx == <<0, 0>>
Fn(f, k, d) == IF k \in DOMAIN f THEN f[k] ELSE d
Put(f, k, v) == [x \in DOMAIN f \cup {k} |-> IF x = k THEN v ELSE f[x]]

Init == /\ l = 1 /\ size = 1 /\ cur = <<>> /\ gens = <<>> /\ bufs = <<>> /\ rtx = <<>>
        /\ content = <<>> /\ jobs = <<>> /\ devs = {} /\ taint = ""

IsRtx(r) == r[1] # 0 /\ r[2] # 0
\* legacy padding: Padding flag set, PaddingSize 0, the last payload byte is the padding count
LegacyPad(p) == p.p /\ p.ps = 0
Body(p) == <<p.seq \div 256, p.seq % 256>> \o p.pl
PadOverflow(p) == LegacyPad(p) /\ Body(p)[Len(Body(p))] > Len(Body(p))
Stripped(p) == IF LegacyPad(p) THEN SubSeq(Body(p), 1, Len(Body(p)) - Body(p)[Len(Body(p))]) ELSE Body(p)
\* expected retransmitted form of original packet p on a stream with rtx configuration r
Form(p, r, gotseq) ==
  IF ~IsRtx(r) THEN p
  ELSE [p EXCEPT !.ssrc = r[1], !.pt = r[2], !.p = FALSE, !.ps = 0, !.seq = gotseq, !.pl = Stripped(p)]
WriteOk(p, r) == Len(p.pl) <= MaxPayload /\ (IsRtx(r) => ~PadOverflow(p))

Key(s) == <<s, Fn(cur, s, 0)>>
Bound(s) == Fn(cur, s, 0) # 0

\* Close is permanent: a closed responder starts no resend goroutine (nothing would wait for it).  The flag lives under the
\* reserved key -1 of gens.
Closed == Fn(gens, -1, 0) = 1
Accept(e) ==
  CASE e.a \in {"bind", "unbind", "close", "clear"} -> TRUE
    [] e.a = "nack" -> e.started = ~Closed
    \* C11 for this component: Close returns only after every resend goroutine has finished (its "close" event is logged
    \* when it has cleared the buffers and starts waiting)
    [] e.a = "closeret" -> e.ok /\ \A j \in DOMAIN jobs : jobs[j].pc = "done"
    [] e.a = "write" ->
         IF Bound(e.s) /\ e.pkt.ssrc = e.s
         THEN e.ok = WriteOk(e.pkt, rtx[Key(e.s)]) /\ (e.ok => e.fwd)
         ELSE e.ok /\ e.fwd
    [] e.a = "add" -> e.ok = WriteOk(e.pkt, rtx[Key(0)])
    \* a Write that was held inside the transport's writer (its "write" event was logged when the packet reached the
    \* transport - from then on it counts as sent, so a NACK answered meanwhile must find it) has returned
    [] e.a = "wrelease" -> e.ok
    [] e.a = "jobstart" -> e.found = Bound(jobs[e.j].s)
    [] e.a = "jobget" ->
         /\ jobs[e.j].todo # <<>> /\ Head(jobs[e.j].todo) = e.n
         /\ e.found = (GetOut(size, bufs[jobs[e.j].stream], e.n) # {})
    [] e.a = "jobemit" ->
         \E id \in jobs[e.j].allowed : e.pkt = Form(content[id], rtx[jobs[e.j].stream], e.pkt.seq)
    [] e.a = "get" ->
         LET allowed == GetOut(size, bufs[Key(0)], e.n) IN
         IF e.out = <<>> THEN allowed = {}
         ELSE \E id \in allowed : e.out[1] = Form(content[id], rtx[Key(0)], e.out[1].seq)
    [] e.a = "end" -> e.stray = 0 /\ e.pending = 0 /\ \A j \in DOMAIN jobs : jobs[j].pc = "done"
    [] OTHER -> FALSE

Advance(jb) == IF jb.todo = <<>> THEN [jb EXCEPT !.pc = "done"] ELSE jb

Step(e) ==
  CASE e.a = "bind" ->
         IF e.nack
         THEN LET g == Fn(gens, e.s, 0) + 1 IN
              /\ gens' = Put(gens, e.s, g) /\ cur' = Put(cur, e.s, g)
              /\ bufs' = Put(bufs, <<e.s, g>>, EmptyBuf) /\ rtx' = Put(rtx, <<e.s, g>>, <<e.rtxssrc, e.rtxpt>>)
              /\ UNCHANGED <<content, jobs>>
         ELSE UNCHANGED <<gens, cur, bufs, rtx, content, jobs>>
    [] e.a = "unbind" ->
         /\ cur' = Put(cur, e.s, 0)
         /\ bufs' = IF Bound(e.s) THEN Put(bufs, Key(e.s), EmptyBuf) ELSE bufs
         /\ UNCHANGED <<gens, rtx, content, jobs>>
    [] e.a = "close" ->
         /\ cur' = [s \in DOMAIN cur |-> 0]
         /\ bufs' = [k \in DOMAIN bufs |-> IF Fn(cur, k[1], 0) = k[2] THEN EmptyBuf ELSE bufs[k]]
         /\ gens' = Put(gens, -1, 1)
         /\ UNCHANGED <<rtx, content, jobs>>
    [] e.a = "clear" -> bufs' = Put(bufs, Key(0), EmptyBuf) /\ UNCHANGED <<gens, cur, rtx, content, jobs>>
    [] e.a \in {"write", "add"} ->
         LET s == IF e.a = "add" THEN 0 ELSE e.s IN
         /\ content' = Put(content, e.id, e.pkt)
         /\ bufs' = IF Bound(s) /\ e.ok /\ (e.a = "add" \/ e.pkt.ssrc = s)
                    THEN Put(bufs, Key(s), AddStep(size, bufs[Key(s)], e.w, e.id)) ELSE bufs
         /\ UNCHANGED <<gens, cur, rtx, jobs>>
    [] e.a = "nack" ->
         /\ jobs' = IF e.started
                    THEN Put(jobs, e.j, [s |-> e.s, todo |-> e.nums, stream |-> <<0, 0>>, pc |-> "start", allowed |-> {}])
                    ELSE jobs
         /\ UNCHANGED <<gens, cur, bufs, rtx, content>>
    [] e.a = "jobstart" ->
         /\ jobs' = [jobs EXCEPT ![e.j] = IF e.found THEN Advance([@ EXCEPT !.stream = Key(jobs[e.j].s), !.pc = "run"])
                                           ELSE [@ EXCEPT !.pc = "done"]]
         /\ UNCHANGED <<gens, cur, bufs, rtx, content>>
    [] e.a = "jobget" ->
         /\ jobs' = [jobs EXCEPT ![e.j] =
                        IF e.found THEN [@ EXCEPT !.todo = Tail(@), !.pc = "emit",
                                                  !.allowed = GetOut(size, bufs[jobs[e.j].stream], e.n)]
                        ELSE Advance([@ EXCEPT !.todo = Tail(@)])]
         /\ UNCHANGED <<gens, cur, bufs, rtx, content>>
    [] e.a = "jobemit" ->
         /\ jobs' = [jobs EXCEPT ![e.j] = Advance([@ EXCEPT !.pc = "run", !.allowed = {}])]
         /\ UNCHANGED <<gens, cur, bufs, rtx, content>>
    [] OTHER -> UNCHANGED <<gens, cur, bufs, rtx, content, jobs>>

Pre(e) ==   \* structural preconditions (a violation of these is a harness problem or a protocol violation)
  CASE e.a = "jobstart" -> e.j \in DOMAIN jobs /\ jobs[e.j].pc = "start"
    [] e.a = "jobget" -> e.j \in DOMAIN jobs /\ jobs[e.j].pc = "run"
    [] e.a = "jobemit" -> e.j \in DOMAIN jobs /\ jobs[e.j].pc = "emit"
    [] OTHER -> TRUE

NewDevs(e) ==
  (IF e.a \in {"write", "add"} /\ LET s == IF e.a = "add" THEN 0 ELSE e.s IN
        Bound(s) /\ LateAddBeyondWindow(size, bufs[Key(s)], e.w)
   THEN {"C04.LateAddBeyondWindow"} ELSE {})
  \cup (IF e.a \in {"write", "add"} /\ LET s == IF e.a = "add" THEN 0 ELSE e.s IN
        Bound(s) /\ IsRtx(rtx[Key(s)]) /\ Len(e.pkt.pl) > MaxPayload - 2
   THEN {"C04.RtxTruncation"} ELSE {})

Next ==
  /\ l <= Len(Trace)
  /\ LET e == Trace[l] IN
     IF e.a = "reset" THEN
        /\ size' = e.size /\ cur' = (0 :> 1) /\ gens' = (0 :> 1)
        /\ bufs' = (<<0, 1>> :> EmptyBuf) /\ rtx' = (<<0, 1>> :> <<e.rtxssrc, e.rtxpt>>)
        /\ content' = <<>> /\ jobs' = <<>> /\ devs' = {} /\ taint' = "" /\ l' = l + 1
     ELSE IF taint # "" THEN l' = l + 1 /\ UNCHANGED <<size, cur, gens, bufs, rtx, content, jobs, devs, taint>>
     ELSE IF Pre(e) /\ Accept(e) THEN
        /\ Step(e) /\ devs' = devs \cup NewDevs(e) /\ l' = l + 1 /\ UNCHANGED <<size, taint>>
     ELSE LET k == (devs \cup NewDevs(e)) \cap Known IN
        IF k # {} THEN /\ PrintT(<<"KNOWNDEV", l, CHOOSE t \in k : TRUE>>)
                       /\ taint' = (CHOOSE t \in k : TRUE) /\ l' = l + 1
                       /\ UNCHANGED <<size, cur, gens, bufs, rtx, content, jobs, devs>>
        ELSE PrintT(<<"MISMATCH", l, "event", e.a, "pre", Pre(e), "devs", devs \cup NewDevs(e)>>) /\ FALSE

HW == TLCSet(1, IF TLCGet(1) < l THEN l ELSE TLCGet(1))
ASSUME TLCSet(1, 0)
Post == PrintT(<<"HW", TLCGet(1), Len(Trace)>>) /\ TLCGet(1) = Len(Trace) + 1
=============================================================================

SPECIFICATION Spec
CONSTANTS
  Progs <- HdrExtPlain
INVARIANTS NoLostUpdate
PROPERTIES Termination
CHECK_DEADLOCK FALSE

------------------------------- MODULE Gcc -------------------------------
(* Property-level specification of the send-side bandwidth estimator's DISCRETE ENVELOPE (C16).
   pkg/gcc/send_side_bwe.go (onDelayUpdate, GetTargetBitrate, WriteRTCP, Close), pkg/gcc/state.go.

   TLA+ has no floating point: the numeric pipeline (arrival groups, Kalman filter, adaptive threshold,
   AIMD rate controller, loss controller) is ABSTRACTED into two nondeterministic integers per update,
     d = the delay-based estimate, l = the loss-based estimate      (ANY integers, also <= 0 or huge:
         they stand for whatever int(NaN), int(+Inf), a negative delta or a 10 s gap may produce).
   What is specified is what the property states about the published target:

     Target(c, d, l)      what one update publishes: min(d, l) brought into [c.min, c.max]
     Update / Deliver     one update: on change the pacer is told exactly the published value and exactly one
                          change callback with that value becomes pending; Deliver runs one of them
     GetOut               GetTargetBitrate = last published value (initially c.init)
     WriteOut / CloseStep WriteRTCP answers "closed" after Close, and nothing is published any more
     Trans                state.transition(usage): the rate controller's table (increase/decrease/hold x
                          overuse/underuse/normal), names as printed by state.String()/usage.String()

   Functional style: configuration c = [init, min, max]; estimator state
     x = [pub, pubs, pacer, pend, dlv, closed]
       pub     last published target            pubs   sequence of all published values (ghost)
       pacer   sequence of values the pacer was told
       pend    bag of change callbacks spawned and not yet run     dlv  bag of callback values delivered *)
EXTENDS Integers, Sequences, FiniteSets, Bags, TLC

Min2(a, b) == IF a < b THEN a ELSE b
Max2(a, b) == IF a > b THEN a ELSE b
Clamp(v, lo, hi) == Max2(lo, Min2(hi, v))

\* ---- configuration ---------------------------------------------------------------------------------
\* the property quantifies over configurations with 0 < min <= init <= max
ValidCfg(c) == 0 < c.min /\ c.min <= c.init /\ c.init <= c.max
DefaultCfg == [init |-> 10000, min |-> 5000, max |-> 50000000]       \* send_side_bwe.go:21-24

\* ---- the envelope ----------------------------------------------------------------------------------
Target(c, d, l) == Clamp(Min2(d, l), c.min, c.max)
\* "a positive finite number within the configured minimum and maximum"
InEnvelope(c, v) == v \in Int /\ v > 0 /\ c.min <= v /\ v <= c.max

Fresh(c) == [pub |-> c.init, pubs |-> <<>>, pacer |-> <<>>, pend |-> EmptyBag, dlv |-> EmptyBag, closed |-> FALSE]

\* one update of the estimate with pipeline outputs d, l
Update(c, x, d, l) ==
  LET v == Target(c, d, l) IN
  IF x.closed \/ v = x.pub THEN x
  ELSE [x EXCEPT !.pub = v, !.pubs = Append(@, v), !.pacer = Append(@, v), !.pend = @ (+) SetToBag({v})]
\* a pending change callback runs
Deliver(x, v) == [x EXCEPT !.pend = @ (-) SetToBag({v}), !.dlv = @ (+) SetToBag({v})]
CanDeliver(x, v) == BagIn(v, x.pend)

GetOut(x) == x.pub
WriteOut(x) == IF x.closed THEN "closed" ELSE "ok"
CloseStep(x) == [x EXCEPT !.closed = TRUE]

\* ---- observation-side forms used by the trace validator ---------------------------------------------
\* the harness sees the VALUE that was published, not d and l: a publish of v is explained by the
\* specification iff some pair of integers yields it, i.e. iff v lies in the envelope
Publishable(c, x, v) == ~x.closed /\ InEnvelope(c, v)
PublishObs(x, v) == [x EXCEPT !.pub = v, !.pubs = Append(@, v), !.pacer = Append(@, v), !.pend = @ (+) SetToBag({v})]
LastOr(s, dflt) == IF s = <<>> THEN dflt ELSE s[Len(s)]
SeqBag(s) == LET F[i \in 0 .. Len(s)] == IF i = 0 THEN EmptyBag ELSE F[i - 1] (+) SetToBag({s[i]}) IN F[Len(s)]
\* k-th published value, 0 = the initial one
PubAt(c, s, k) == IF k = 0 THEN c.init ELSE s[k]

\* ---- rate-controller state machine (pkg/gcc/state.go) ------------------------------------------------
States == {"increase", "decrease", "hold"}
Usages == {"overuse", "underuse", "normal"}
Trans(s, u) ==
  CASE s = "hold"     /\ u = "overuse"  -> "decrease"
    [] s = "hold"     /\ u = "normal"   -> "increase"
    [] s = "hold"     /\ u = "underuse" -> "hold"
    [] s = "increase" /\ u = "overuse"  -> "decrease"
    [] s = "increase" /\ u = "normal"   -> "increase"
    [] s = "increase" /\ u = "underuse" -> "hold"
    [] s = "decrease" /\ u = "overuse"  -> "decrease"
    [] s = "decrease" /\ u = "normal"   -> "hold"
    [] s = "decrease" /\ u = "underuse" -> "hold"
    [] OTHER -> "increase"                       \* state.go:51 falls through to stateIncrease
\* (usage, state) pairs GetStats() may expose: a state the table reaches under that usage
StatsPairOK(u, s) == u \in Usages /\ \E p \in States : Trans(p, u) = s
\* before the first update GetStats() exposes the zero values of both enumerations
ZeroPair(u, s) == u = "overuse" /\ s = "increase"

\* ---- deviation predicates (names used as tags in KNOWN_FINDINGS.jsonl) -------------------------------
\* the loss-based controller clamps to its own floor (100 kbit/s, loss_based_bwe.go:49) instead of the
\* configured minimum: a published value below the configured minimum but not below that floor
LossFloor == 100000
LossFloorBelowMin(c, v) == c.min > LossFloor /\ v < c.min /\ v >= LossFloor
=============================================================================

INIT Init
NEXT Next
CONSTANTS M = 65536
CONSTRAINT HW
POSTCONDITION Post
CHECK_DEADLOCK FALSE

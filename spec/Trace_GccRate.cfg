INIT Init
NEXT Next
CONSTANTS
  LMin = 100000
  LMax = 100000000
  IncT = 200000
  DecT = 200000
  BT = 5000
  W = 500
CONSTRAINT HW
POSTCONDITION Post
CHECK_DEADLOCK FALSE

SPECIFICATION Spec
CONSTANTS
  M = 8
  MaxSteps = 5
  Mins = {1, 2, 3}
  DefMin = 2
  Over = 2
VIEW OpsView
INVARIANTS TypeOK ResultsFromBuf FailedPopNoChange AbsentFails RefusedWhileBuffering
CHECK_DEADLOCK FALSE

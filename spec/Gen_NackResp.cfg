INIT GInit
NEXT GNext
CONSTANTS
  M = 65536
  Size = 2
  Streams <- S2
  Cells <- C4
  MaxWrites = 8
  MaxJobs = 3
  MaxBinds = 6
  WDeltas <- WDg
  NDeltas <- NDg
  EarlyRelease = FALSE
  L = 16
INVARIANT Emit
CHECK_DEADLOCK FALSE

--------------------------- MODULE MC_FbDecode ---------------------------
(* (M) exhaustive check of the feedback-decoding specification at tiny constants: LRU of N = 3, at most MaxSend
   sends, every TWCC feedback of at most MaxChunks chunks of at most a few symbols (run-length and vector chunks,
   status count below / at / above the symbol total, deltas exact / one too few / one per symbol), every small
   CCFB block.  The clauses of C09 are invariants; they are written in closed form, NOT with the recursive
   operators of FbDecode, so that the check is not a tautology. *)
EXTENDS FbDecode
CONSTANTS MaxSend, MaxFb, MaxChunks, RlSyms, RlLens, VecSyms, VecLens, Bases, CountDown, CountUp, DeltaModes, WithCcfb, W0
VARIABLES sent, lru, all, h, out, reps, last, nextW, nextQ, nfb
vars == <<sent, lru, all, h, out, reps, last, nextW, nextQ, nfb>>

NoOut == [kind |-> "none"]
Init == /\ sent = <<>> /\ lru = Ad0 /\ all = Ad0 /\ h = H0 /\ out = NoOut /\ reps = <<>> /\ last = <<>>
        /\ nextW = W0 /\ nextQ = M - 1 /\ nfb = 0

\* ---- alphabet
SeqsOver(S, lens) == UNION {[1 .. l -> S] : l \in lens}
Chunks == {[t |-> "rl", sym |-> s, len |-> l, syms |-> <<>>] : s \in RlSyms, l \in RlLens}
          \cup {[t |-> "v2", sym |-> 0, len |-> 0, syms |-> q] : q \in SeqsOver(VecSyms, VecLens)}
          \cup {[t |-> "v1", sym |-> 0, len |-> 0, syms |-> q] : q \in SeqsOver(VecSyms \cap {0, 1}, VecLens)}
ChunkLists == SeqsOver(Chunks, 1 .. MaxChunks)
Pow == <<1, 2, 4, 8, 16, 32, 64, 128, 256, 512, 1024, 2048>>
NdOf(cs, cnt, m) == IF m = "all" THEN NeedDeltas(FlatTo(cs, 1, SumLen(cs, 1)))
                    ELSE IF m = "exact" THEN NeedDeltas(FlatTo(cs, 1, cnt))
                    ELSE NeedDeltas(FlatTo(cs, 1, cnt)) - 1
MkTwcc(b, cs, cnt, nd) == [k |-> "twcc", base |-> b, count |-> cnt, ref |-> 1, chunks |-> cs,
                           deltas |-> SubSeq(Pow, 1, nd), rts |-> 0, blocks |-> <<>>]
FbsOf(b, cs) == UNION {{MkTwcc(b, cs, cnt, NdOf(cs, cnt, m)) : m \in {m \in DeltaModes : NdOf(cs, cnt, m) >= 0}} :
                         cnt \in {c \in {SumLen(cs, 1) - d : d \in CountDown} \cup {SumLen(cs, 1) + u : u \in CountUp} : c >= 0}}
TwccFbs == UNION {FbsOf(b, cs) : b \in Bases, cs \in ChunkLists}
\* DeltaModes: "all" = one delta per symbol that needs one (what the wire parser delivers for vector chunks),
\* "exact" = one per declared status that needs one, "short" = one too few.
Mbs == {[r |-> 0, ecn |-> 0, ato |-> 0], [r |-> 1, ecn |-> 1, ato |-> 4], [r |-> 1, ecn |-> 2, ato |-> AtoUnknown]}
CcfbFbs == {[k |-> "ccfb", base |-> 0, count |-> 0, ref |-> 0, chunks |-> <<>>, deltas |-> <<>>, rts |-> 1000000,
             blocks |-> <<[ssrc |-> s, begin |-> b, mbs |-> q]>>] :
               s \in {2, 3}, b \in {M - 1, 0}, q \in SeqsOver(Mbs, {1, 2})}

\* ---- actions
Pkt(twcc, ssrc, seq, tw) == [ssrc |-> ssrc, seq |-> seq, twcc |-> twcc, tw |-> tw, size |-> 100 + Len(sent),
                             dep |-> 10 * Len(sent)]
DoSend(p) == /\ Len(sent) < MaxSend
             /\ sent' = Append(sent, p) /\ lru' = AdSent(lru, p) /\ h' = HSent(h, p)
             /\ all' = AdSentN(all, p, MaxSend + 1)
             /\ out' = NoOut /\ UNCHANGED <<reps, last, nfb>>
SendT == \E d \in {0, 1, -1} :
           LET w == IF d = -1 THEN W0 ELSE (nextW + d) % M IN
           /\ DoSend(Pkt(TRUE, 1, Len(sent), w))
           /\ nextW' = (IF d = -1 THEN nextW ELSE (w + 1) % M) /\ UNCHANGED nextQ
SendR == /\ WithCcfb /\ DoSend(Pkt(FALSE, 2, nextQ, 0)) /\ nextQ' = (nextQ + 1) % M /\ UNCHANGED nextW

\* closed form of "the most recent feedback naming a packet": entry index of the last entry naming counter c
Names(c, twcc, e) == /\ h.pk[c + 1].twcc = twcc
                     /\ IF twcc THEN h.pk[c + 1].tw = e.n ELSE h.pk[c + 1].ssrc = e.ssrc /\ h.pk[c + 1].seq = e.n
                     /\ \A c2 \in c + 1 .. Len(h.pk) - 1 :      \* the most recently sent packet with that key
                          ~(/\ h.pk[c2 + 1].twcc = twcc
                            /\ IF twcc THEN h.pk[c2 + 1].tw = e.n ELSE h.pk[c2 + 1].ssrc = e.ssrc /\ h.pk[c2 + 1].seq = e.n)
Feedback(fb) ==
  LET ents == IF fb.k = "twcc" THEN (IF TwccTooFew(fb) THEN <<>> ELSE DecodeTwcc(fb)) ELSE DecodeCcfb(fb)
      h2   == HFeed(h, fb)
      rep  == HReport(h2)
  IN /\ nfb < MaxFb /\ nfb' = nfb + 1
     /\ out' = [kind |-> fb.k, fb |-> fb, res |-> IF fb.k = "twcc" THEN AdTwcc(lru, fb) ELSE AdCcfb(lru, fb), rep |-> rep]
     /\ h' = HAfter(h2)
     /\ reps' = reps \o rep
     /\ last' = [c \in h.next .. Len(h.pk) - 1 |->
                   LET J == {j \in 1 .. Len(ents) : Names(c, fb.k = "twcc", ents[j])} IN
                   IF J = {} THEN (IF c \in DOMAIN last THEN last[c] ELSE [named |-> FALSE])
                   ELSE LET e == ents[CHOOSE j \in J : \A j2 \in J : j2 <= j] IN
                        [named |-> TRUE, arrived |-> e.arrived, has |-> e.has, arr |-> e.arr, ecn |-> e.ecn]]
     /\ UNCHANGED <<sent, lru, all, nextW, nextQ>>

Next == \/ SendT \/ SendR
        \/ \E fb \in TwccFbs : Feedback(fb)
        \/ (WithCcfb /\ \E fb \in CcfbFbs : Feedback(fb))
Spec == Init /\ [][Next]_vars

\* ---- clauses of C09
RECURSIVE SumTo(_, _)
SumTo(d, k) == IF k = 0 THEN 0 ELSE d[k] + SumTo(d, k - 1)
LastSent(k) == LET S == {i \in 1 .. Len(sent) : AdKey(sent[i]) = k} IN
               IF S = {} THEN 0 ELSE CHOOSE i \in S : \A j \in S : j <= i
Acks == IF out.kind = "none" \/ out.res.err THEN <<>> ELSE out.res.acks
Range(f) == {f[i] : i \in DOMAIN f}

\* every acknowledgement names a packet that was really sent and carries its recorded size and departure
NamesSentPacket == \A a \in Range(Acks) : LET i == LastSent(<<a.ssrc, a.seq>>) IN
                      i # 0 /\ a.size = sent[i].size /\ a.dep = sent[i].dep
\* ... and exactly the status / arrival time the feedback encodes for that number (closed form: reference time
\* plus the deltas of ALL statuses with a delta up to that position)
ExactTwccStatus ==
  out.kind = "twcc" =>
    LET fb == out.fb  s == AllSyms(fb) IN
    \A a \in Range(Acks) :
      \E i \in 1 .. Min(fb.count, Len(s)) :
         /\ a.seq = (fb.base + i - 1) % M
         /\ a.has = IsDelta(s[i])
         /\ a.has => a.arr = fb.ref * 64000 + 250 * SumTo(fb.deltas, Cardinality({x \in 1 .. i : IsDelta(s[x])}))
ExactCcfbStatus ==
  out.kind = "ccfb" =>
    \A a \in Range(Acks) : \E j \in 1 .. Len(out.fb.blocks) : LET b == out.fb.blocks[j] IN
      \E i \in 1 .. Len(b.mbs) :
         /\ a.ssrc = b.ssrc /\ a.seq = (b.begin + i - 1) % M
         /\ a.has = (b.mbs[i].r = 1 /\ b.mbs[i].ato # AtoUnknown)
         /\ a.ecn = (IF b.mbs[i].r = 1 THEN b.mbs[i].ecn ELSE 0)
         /\ a.has => a.arr = out.fb.rts - 64 * b.mbs[i].ato
\* ... independent of whether neighbouring packets are still remembered: the result is the result an unbounded
\* history would give, restricted to the remembered packets
IndependentOfNeighbours ==
  out.kind # "none" /\ ~out.res.err =>
    Acks = SelectSeq(IF out.kind = "twcc" THEN AdTwcc(all, out.fb).acks ELSE AdCcfb(all, out.fb).acks,
                     LAMBDA a : AdHas(lru, <<a.ssrc, a.seq>>))
\* every remembered packet the feedback declares is acknowledged exactly once per declared position
Complete ==
  out.kind = "twcc" /\ ~out.res.err =>
    \A i \in 1 .. Min(out.fb.count, Total(out.fb)) :
       AdHas(lru, <<0, (out.fb.base + i - 1) % M>>) =>
          \E j \in 1 .. Len(Acks) : Acks[j].seq = (out.fb.base + i - 1) % M
ErrorIffTooFewDeltas ==
  out.kind = "twcc" => (out.res.err <=>
     Len(out.fb.deltas) < Cardinality({i \in 1 .. Min(out.fb.count, Total(out.fb)) : IsDelta(AllSyms(out.fb)[i])}))
LruBounded == /\ Len(lru.ord) <= N /\ \A i, j \in 1 .. Len(lru.ord) : lru.ord[i] = lru.ord[j] => i = j
              /\ DOMAIN lru.rec = {lru.ord[i] : i \in 1 .. Len(lru.ord)}
\* the aggregating receiver reports each sent packet at most once across all reports, in send order, with the
\* recorded identity, and with the status of the most recent feedback naming it
ReportedOnceInOrder == \A i, j \in 1 .. Len(reps) : i < j => reps[i].cnt < reps[j].cnt
ReportNamesSent == \A i \in 1 .. Len(reps) : LET r == reps[i] p == sent[r.cnt + 1] IN
                      /\ r.cnt < Len(sent) /\ r.ssrc = p.ssrc /\ r.seq = p.seq /\ r.size = p.size /\ r.dep = p.dep
ReportStatusIsLatest ==
  out.kind # "none" =>
    \A i \in 1 .. Len(out.rep) : LET r == out.rep[i] IN
       IF r.cnt \in DOMAIN last /\ last[r.cnt].named
       THEN r.arrived = last[r.cnt].arrived /\ r.has = last[r.cnt].has /\ r.arr = last[r.cnt].arr /\ r.ecn = last[r.cnt].ecn
       ELSE ~r.arrived /\ ~r.has /\ r.ecn = 0
CursorSane == h.next = h.hi + 1
=============================================================================

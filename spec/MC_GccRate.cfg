SPECIFICATION Spec
CONSTANTS
  LMin = 100000
  LMax = 100000000
  IncT = 200000
  DecT = 200000
  MaxSteps = 2
  Mach = "both"
  NegRtt = FALSE
INVARIANTS LClamp LIncUp LDecDown LKeep LTimers LLoss LAvgConvex LGet
INVARIANTS REnvelope RQuiet REmitIff RStamp RDefined RMulUp RAddBound RDecTo RDecDown
CHECK_DEADLOCK FALSE

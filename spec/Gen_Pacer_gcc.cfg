INIT Init
NEXT Next
CONSTANTS
  BurstFloor = 12000
  Kind = "leaky"
  L = 2
  Rates <- RatesGcc
  Ivals <- Iv5
CONSTRAINT Leaf
CHECK_DEADLOCK FALSE

INIT Init
NEXT Next
CONSTANTS
  M = 65536
  HMAX = 32768
  WIN = 500000
  GAPMAX = 32766
  RMOD = 16777216
  RU = 64000
  TU = 250
  SMAX = 255
  LNEG = 32768
  LMAX = 32767
  TOL = 125
  FBMOD = 256
  Base = 65530
  T0 = 600000
  WarmBuild = 1
  L = 2
  DNF = {0, 1, 2, 8, 15, 32766, 32767, 32768}
  DNB = {1, 3, 40, 32767, 32768}
  DT = {0, 100, 250, 63900, 64000, 501000, 8190000, 8200000}
  DTB = {1000}
CONSTRAINT Leaf
CHECK_DEADLOCK FALSE

------------------------------ MODULE MC_Sizes ------------------------------
(* (M) the history machines of Sizes.tla stay within their own bounds for every history over small constants: the
   eviction disciplines that Mem.tla does not have - window by highest number with late arrivals (RtpAdd), report-driven
   with a per-report budget and head-run release (LogAdd / LogReport), release up to the highest acknowledged record
   with index maps that are cleaned by key (FbSent / FbReport).  Negative control: without feedback the rtpfb history
   exceeds any fixed allowance (MC_Sizes_nofb.cfg). *)
EXTENDS Sizes
CONSTANTS Size, MaxSize, MaxOps, Allow
VARIABLES which, buf, log, since, fb, nops
vars == <<which, buf, log, since, fb, nops>>
D == -(Size + 2)..(Size + 2)
Keys == {<<1, 0>>, <<1, 1>>, <<1, 2>>, <<2, 0>>}          \* (ssrc, number): few keys, so records share keys
Init == /\ which \in {"buf", "log", "fb"} /\ buf = EmptyBuf /\ log = EmptyLog /\ since = 0 /\ fb = EmptyFb /\ nops = 0
B == PerStream(MaxSize, 1)
Next ==
  /\ nops < MaxOps /\ nops' = nops + 1 /\ UNCHANGED which
  /\ \/ /\ which = "buf" /\ \E d \in D : buf' = RtpAdd(Size, buf, (IF buf.started THEN buf.hi ELSE 10) + d)
        /\ UNCHANGED <<log, since, fb>>
     \/ /\ which = "log" /\ \E d \in D : log' = LogAdd(log, (IF log.init THEN log.last ELSE 10) + d) /\ since' = since + 1
        /\ UNCHANGED <<buf, fb>>
     \/ /\ which = "log" /\ log' = LogReport(log, B) /\ since' = 0 /\ UNCHANGED <<buf, fb>>
     \/ /\ which = "fb" /\ \E k \in Keys : fb' = FbSent(fb, k) /\ UNCHANGED <<buf, log, since>>
     \/ /\ which = "fb" /\ \E A \in SUBSET Keys : fb' = FbReport(fb, A) /\ UNCHANGED <<buf, log, since>>
Spec == Init /\ [][Next]_vars
InvBuf == /\ Cardinality(buf.held) <= Bound_bufHeld([size |-> Size], 1)
          /\ \A x \in buf.held : x > buf.hi - Size /\ x <= buf.hi
InvLog == /\ Cardinality(log.S) <= Bound_logMax([maxsize |-> MaxSize], 1, 1, since)
          /\ \A x \in log.S : x >= log.next /\ x <= log.last
InvFb == /\ \A k \in DOMAIN fb.byKey : fb.byKey[k] \in fb.held          \* index entries only point to live records
         /\ Cardinality(DOMAIN fb.byKey) <= Bound_fbIdx(Exact_fbPackets(fb))
         /\ Exact_fbPackets(fb) = fb.counter - fb.next                    \* everything up to the highest acknowledged is gone
FbBounded == Exact_fbPackets(fb) <= Allow
=============================================================================

INIT Init
NEXT Next
CONSTANTS
  M = 65536
  NS = 3
  Base = 65530
  L = 30
  SeqD = {1, 2, 5, 0, 101, 103, 200}
  ClkA = {0, 1, 125, 1000}
  ClkB = {0, 1, 125, 1000, 7999, 8000, 64500}
  Sizes = {12, 19, 20, 26, 28, 30, 36, 1199, 1200, 1201}
  PastSizes = {1200, 36}
  Jump = 0
INVARIANT LeafInv
CHECK_DEADLOCK FALSE

INIT Init
NEXT Next
CONSTANTS
  M = 65536
  NS = 3
  Base = 65530
  L = 30
  SeqD = {1, 2, 5, 0, 101, 103, 200}
  ClkA = {0, 1, 977, 1000, 125000, 1000000}
  ClkB = {0, 1, 976, 977, 1000, 125000, 1000000, 7997070, 7997071, 7998046, 7998047, 7999000, 7999023, 7999024, 7999999, 8000000, 8000001, 64500000}
  Sizes = {12, 19, 20, 26, 28, 30, 36, 1199, 1200, 1201}
  PastSizes = {1200, 36}
  Jump = 0
INVARIANT LeafInv
CHECK_DEADLOCK FALSE

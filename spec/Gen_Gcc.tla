---------------------------- MODULE Gen_Gcc ----------------------------
(* (G) script generator for C16.  The numeric pipeline is not specified, so the generator enumerates INPUT
   histories: every sequence of L rounds, a round being
       send N packets with a departure gap g in Gaps        (real time: the code stamps departures itself)
       one feedback about them with an arrival pattern and a loss level
   over the alphabet of the property's quantifier (zero inter-arrival, decreasing arrivals, a 10 s gap, arrivals
   spread wider / closer than departures, packets unknown to the history, duplicated feedback; 0 / 50 / 100 % loss),
   with Close placed after any round or at the end.  The specification state that the alphabet is relative to is the
   envelope machine's `closed` flag (after Close only feedback is interesting: it must fail with the closed error)
   and the set of packets sent but not yet reported (kept by the harness).  Every behaviour ends with
   quiesce; the harness always appends Close / feedback-after-Close / quiesce.  Configuration, pacer and feedback
   kind are assigned by checks/c16.py (every combination, in rotation). *)
EXTENDS Gcc, Json
CONSTANTS L, N, Gaps
VARIABLES x, hist, rounds
vars == <<x, hist, rounds>>
Pats == {"inc", "equal", "dec", "gap10s", "slow", "fast", "unknown", "dup"}
Losses == {0, 50, 100}
Ev(a, n, g, p, ls) == [a |-> a, n |-> n, gap |-> g, pat |-> p, loss |-> ls]
Init == x = Fresh(DefaultCfg) /\ hist = <<>> /\ rounds = 0
Round(g, p, ls) ==
  /\ rounds < L /\ rounds' = rounds + 1 /\ UNCHANGED x
  /\ hist' = hist \o (IF x.closed THEN <<Ev("fb", 0, 0, p, ls)>>        \* WriteOut(x) = "closed" is what must come back
                      ELSE <<Ev("send", N, g, "", 0), Ev("fb", 0, 0, p, ls)>>)
CloseNow ==
  /\ ~x.closed /\ rounds > 0 /\ rounds < L /\ x' = CloseStep(x) /\ rounds' = rounds
  /\ hist' = hist \o <<Ev("quiesce", 0, 0, "", 0), Ev("close", 0, 0, "", 0)>>
Next == \/ \E g \in Gaps, p \in Pats, ls \in Losses :
             /\ (p \in {"unknown", "dup"} => ls = 0) /\ (ls = 100 => p = "inc")
             /\ (x.closed => (g = CHOOSE h \in Gaps : TRUE) /\ p = "inc" /\ ls = 0)
             /\ Round(g, p, ls)
        \/ CloseNow
Leaf == IF rounds = L
        THEN PrintT(<<"TRACE", ToJson(Append(hist, Ev("quiesce", 0, 0, "", 0)))>>) /\ FALSE
        ELSE TRUE
=============================================================================

----------------------------- MODULE FlexFec -----------------------------
(* Property-level specification of the FlexFEC-03 encoder (C14).
   pkg/flexfec/flexfec_encoder_03.go, flexfec_coverage.go, util/*, encoder_interceptor.go.

   A media packet is a canonical record of its RTP header fields and payload bytes
     [p, ps, x, m, pt, seq, ts (4 bytes), ssrc (4 bytes), csrc (seq of 4 bytes), xp, xs (seq of [id, d]), pl (bytes)]
   Wire(pkt) is its RFC 3550 / RFC 8285 wire form as a byte sequence.  Mask fields are SETS of bit
   positions (the 63-bit field exceeds TLC's integers); bytes are 0..255, 32-bit quantities are 4 bytes.

     Cover(k, n, j)            media indices (0-based) protected by repair packet j of n
     RepairPayload(W, S, ..)   the FlexFEC-03 payload (FEC header + repair payload) protecting the set S
     ParseFec(pl)              FEC header fields of a repair payload (mask as a set)
     Recover(f, W, i)          the FlexFEC-03 recovery procedure: packet i from repair f and all other named packets
     RepairFails / BatchFails  the clauses of C14 evaluated on what the real code produced          *)
EXTENDS Integers, Sequences, FiniteSets, Bitwise, TLC

CONSTANT M                        \* sequence-number modulus (65536 on the wire)

MaxMaskBits == 109                \* 15 + 31 + 63 positions: indices 0 .. 108 can be named
MaxFec      == 110                \* NumFECPackets accepted by the API (MaxFecPackets)

Max(a, b) == IF a > b THEN a ELSE b
Min(a, b) == IF a < b THEN a ELSE b
B2(v)     == <<v \div 256, v % 256>>
\* TLC evaluates [i \in 1 .. n |-> e] lazily (e is re-evaluated at every application); Mat forces a real tuple
Mat(f, n) == SubSeq(f, 1, n)
Zeros(n)  == Mat([i \in 1 .. n |-> 0], n)
RECURSIVE Concat(_)
Concat(ss) == IF ss = <<>> THEN <<>> ELSE Head(ss) \o Concat(Tail(ss))

\* ------------------------------------------------------------------ configurations and coverage
\* A batch of k consecutive packets with n repair packets is accepted iff every index can be named in the masks.
Accepted(k, n) == k \in 1 .. MaxMaskBits /\ n \in 0 .. MaxFec
Cover(k, n, j) == {i \in 0 .. k - 1 : i % n = j}
\* the repair packets of a batch, in emission order: the non-empty covers
Covers(k, n)   == [r \in 1 .. Min(k, n) |-> Cover(k, n, r - 1)]

\* ------------------------------------------------------------------ RTP wire layout (RFC 3550 5.1, RFC 8285)
OneByteProfile == 48862           \* 0xBEDE
TwoByteProfile == 4096            \* 0x1000
ExtElem(xp, el) == IF xp = OneByteProfile THEN <<el.id * 16 + (Len(el.d) - 1)>> \o el.d
                   ELSE IF xp = TwoByteProfile THEN <<el.id, Len(el.d)>> \o el.d
                   ELSE el.d      \* RFC 3550 generic extension: one opaque block of whole words
ExtBody(p)  == Concat(Mat([i \in 1 .. Len(p.xs) |-> ExtElem(p.xp, p.xs[i])], Len(p.xs)))
ExtBlock(p) == IF ~p.x THEN <<>>
               ELSE LET body == ExtBody(p)
                        padn == (4 - (Len(body) % 4)) % 4
                    IN B2(p.xp) \o B2((Len(body) + padn) \div 4) \o body \o Zeros(padn)
Padding(p)  == IF p.p THEN Zeros(p.ps - 1) \o <<p.ps>> ELSE <<>>
\* what the property quantifies over: padding flag <=> a positive padding count, at most 15 CSRCs
MediaOK(p)  == (p.p <=> p.ps > 0) /\ Len(p.csrc) <= 15 /\ p.pt \in 0 .. 127 /\ p.seq \in 0 .. M - 1
Wire(p) == <<128 + (IF p.p THEN 32 ELSE 0) + (IF p.x THEN 16 ELSE 0) + Len(p.csrc),
             (IF p.m THEN 128 ELSE 0) + p.pt>>
           \o B2(p.seq) \o p.ts \o p.ssrc \o Concat(p.csrc) \o ExtBlock(p) \o p.pl \o Padding(p)

\* ------------------------------------------------------------------ XOR of the protected fields
\* The bit string of a media packet that FlexFEC-03 protects: P X CC M PT (V cleared), length after the fixed
\* header, timestamp, and every byte after the 12-byte fixed header.
Field(w) == <<w[1] % 64, w[2]>> \o B2(Len(w) - 12) \o SubSeq(w, 5, 8) \o SubSeq(w, 13, Len(w))
At(a, i) == IF i <= Len(a) THEN a[i] ELSE 0
XorZ(a, b) == LET n == Max(Len(a), Len(b)) IN Mat([i \in 1 .. n |-> At(a, i) ^^ At(b, i)], n)   \* zero-extended to the longer
RECURSIVE XorSet(_, _)
XorSet(W, S) == IF S = {} THEN <<>>                                          \* W[i + 1] = wire form of index i
                ELSE LET i == CHOOSE x \in S : TRUE IN XorZ(Field(W[i + 1]), XorSet(W, S \ {i}))

\* ------------------------------------------------------------------ mask fields (sets of bit positions)
\* Bit positions count from the first bit of the 16-bit field that follows SN base:
\*   0 = k-bit 0, 1..15 = indices 0..14, 16 = k-bit 1, 17..47 = indices 15..45, 48 = k-bit 2, 49..111 = indices 46..108
Nameable(i)  == i \in 0 .. MaxMaskBits - 1
MaskPos(i)   == IF i <= 14 THEN i + 1 ELSE IF i <= 45 THEN i + 2 ELSE i + 3
PosIdx(pos)  == IF pos <= 15 THEN pos - 1 ELSE IF pos <= 47 THEN pos - 2 ELSE pos - 3
KPositions   == {0, 16, 48}
MaskLen(S)   == IF S \subseteq 0 .. 14 THEN 2 ELSE IF S \subseteq 0 .. 45 THEN 6 ELSE 14     \* bytes
\* FlexFEC-03: the k-bit is set on the last mask field present
KPos(S)      == IF MaskLen(S) = 2 THEN 0 ELSE IF MaskLen(S) = 6 THEN 16 ELSE 48
MaskBits(S)  == {MaskPos(i) : i \in S} \cup {KPos(S)}
Bit(bits, pos, v) == IF pos \in bits THEN v ELSE 0
BitsToBytes(bits, nb) == Mat([b \in 1 .. nb |->
    LET o == 8 * (b - 1) IN Bit(bits, o, 128) + Bit(bits, o + 1, 64) + Bit(bits, o + 2, 32) + Bit(bits, o + 3, 16)
                          + Bit(bits, o + 4, 8) + Bit(bits, o + 5, 4) + Bit(bits, o + 6, 2) + Bit(bits, o + 7, 1)], nb)
Pow2(e) == CASE e = 0 -> 1 [] e = 1 -> 2 [] e = 2 -> 4 [] e = 3 -> 8 [] e = 4 -> 16 [] e = 5 -> 32 [] e = 6 -> 64 [] e = 7 -> 128
BytesToBits(bs) == {pos \in 0 .. 8 * Len(bs) - 1 : (bs[(pos \div 8) + 1] \div Pow2(7 - (pos % 8))) % 2 = 1}
MaskBytes(S)  == BitsToBytes(MaskBits(S), MaskLen(S))

\* ------------------------------------------------------------------ the repair packet (FlexFEC-03 as implemented)
\*  0: R F P X CC | 1: M PT recovery | 2-3: length recovery | 4-7: TS recovery | 8: SSRC count | 9-11: reserved
\*  12-15: SSRC_i | 16-17: SN base_i | 18..: k-bit + mask fields (2, 6 or 14 bytes) | repair payload
RepairPayload(W, S, ssrc, base) ==
  LET x == XorSet(W, S)
  IN SubSeq(x, 1, 8) \o <<1, 0, 0, 0>> \o ssrc \o B2(base) \o MaskBytes(S) \o SubSeq(x, 9, Len(x))

NoFec == [ok |-> FALSE, rec |-> <<>>, cnt |-> 0, ssrc |-> <<>>, snbase |-> 0, mask |-> {}, body |-> <<>>]
ParseFec(pl) ==
  IF Len(pl) < 20 THEN NoFec
  ELSE LET hs == IF pl[19] >= 128 THEN 20
                 ELSE IF Len(pl) < 24 THEN 0
                 ELSE IF pl[21] >= 128 THEN 24
                 ELSE IF Len(pl) < 32 THEN 0
                 ELSE IF pl[25] >= 128 THEN 32 ELSE 0
       IN IF hs = 0 \/ pl[1] >= 64 THEN NoFec                   \* R = F = 0: flexible mask, not a retransmission
          ELSE [ok |-> TRUE, rec |-> SubSeq(pl, 1, 8), cnt |-> pl[9], ssrc |-> SubSeq(pl, 13, 16),
                snbase |-> pl[17] * 256 + pl[18],
                mask |-> {PosIdx(pos) : pos \in BytesToBits(SubSeq(pl, 19, hs)) \ KPositions},
                body |-> SubSeq(pl, hs + 1, Len(pl))]

\* FlexFEC-03 recovery of index i from repair f, given every other packet named in f's mask (W = wire forms).
Rebuild(f, x, i) ==
  LET ln == x[3] * 256 + x[4]
  IN IF ln > Len(x) - 8 THEN <<>>                               \* recovered length exceeds the repair payload
     ELSE <<128 + (x[1] % 64), x[2]>> \o B2((f.snbase + i) % M) \o SubSeq(x, 5, 8) \o f.ssrc \o SubSeq(x, 9, 8 + ln)
Recover(f, W, i) == Rebuild(f, XorZ(f.rec \o f.body, XorSet(W, f.mask \ {i})), i)
\* the same, with the XOR of ALL named packets computed once (tot): others = tot xor packet i
RecoverFast(f, tot, W, i) == Rebuild(f, XorZ(f.rec \o f.body, XorZ(tot, Field(W[i + 1]))), i)

\* ------------------------------------------------------------------ the clauses of C14 on observed packets
\* rp = canonical record of a repair packet as written downstream, S = the indices it must protect
RepairFails(rp, S, W, cfg, base, seqExpected) ==
  LET f   == ParseFec(rp.pl)
      tot == XorSet(W, f.mask)
  IN  (IF rp.ssrc = cfg.fecssrc /\ rp.pt = cfg.fecpt THEN {} ELSE {"fec-ssrc-pt"})
      \cup (IF seqExpected < 0 \/ rp.seq = seqExpected THEN {} ELSE {"fec-seq"})
      \cup (IF ~rp.p /\ ~rp.x /\ rp.csrc = <<>> THEN {} ELSE {"fec-rtp-header"})
      \cup (IF ~f.ok THEN {"fec-header"}
            ELSE (IF f.mask = S THEN {} ELSE {"mask"})
                 \cup (IF f.cnt = 1 /\ f.ssrc = cfg.ssrc /\ f.snbase = base THEN {} ELSE {"ssrc-snbase"})
                 \cup (IF f.mask \subseteq 0 .. Len(W) - 1 /\ \A i \in f.mask : RecoverFast(f, tot, W, i) = W[i + 1]
                       THEN {} ELSE {"recovery"}))

Consecutive(media) == \A i \in 2 .. Len(media) : media[i].seq = (media[i - 1].seq + 1) % M
Enabled(cfg)       == cfg.fecpt # 0 /\ cfg.fecssrc # <<0, 0, 0, 0>>
\* number of repair packets the batch must produce
NumRepairs(cfg, media, n) ==
  IF Enabled(cfg) /\ Accepted(Len(media), n) /\ Consecutive(media) THEN Min(Len(media), n) ELSE 0

\* media = the batch handed in, reps = repair packets observed (in order), first = sequence number the first
\* repair packet must carry (-1: any).  Result: set of <<repair index, clause>> that fail.
BatchFails(cfg, media, n, reps, first) ==
  LET k    == Len(media)
      W    == Mat([i \in 1 .. k |-> Wire(media[i])], k)
      want == NumRepairs(cfg, media, n)
      f0   == IF first >= 0 \/ reps = <<>> THEN first ELSE reps[1].seq
      \* repair packets beyond the expected number are still evaluated (against the interleaved cover) so that the
      \* report says what is wrong with them, e.g. for a batch that should not have been accepted
      upto == IF n >= 1 THEN Min(Len(reps), Min(k, n)) ELSE 0
  IN (IF Len(reps) = want THEN {} ELSE {<<0, "repair-count">>})
     \cup UNION {{<<r, c>> : c \in RepairFails(reps[r], Cover(k, n, r - 1), W, cfg, media[1].seq, (f0 + r - 1) % M)}
                 : r \in 1 .. upto}

\* ------------------------------------------------------------------ deviation predicates (tags for KNOWN_FINDINGS.jsonl)
\* a batch whose last index cannot be named in the 15+31+63-bit masks
UnnameableIndex(k, n) == k > MaxMaskBits /\ n >= 1
\* a protected packet with at least one padding octet before the count octet
MultiOctetPadding(media) == \E i \in 1 .. Len(media) : media[i].ps >= 2
=============================================================================

SPECIFICATION Spec
CONSTANTS
  Progs <- NackResp
INVARIANTS NoRace NoLostUpdate
PROPERTIES Termination
CHECK_DEADLOCK FALSE

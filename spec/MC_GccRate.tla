----------------------------- MODULE MC_GccRate -----------------------------
(* (M) the loss-based estimator and the rate controller of GccRate.tla, model checked at the real constants over small
   input alphabets: from every warm-up state, every sequence of MaxSteps calls.  Mach selects the machine(s).

   What is checked (invariants over the last call `last` and the state after it):
     loss   LClamp        a report that moved the bitrate left it inside the estimator's own clamp
            LIncUp        an increase never lowers the bitrate (from at most LMax) and raises it by at most 5 %
            LDecDown      a decrease never raises it (from at least LMin) and at most halves it
            LKeep         neither: unchanged
            LTimers       no two increases within the increase interval, no two decreases within the decrease interval
                          (ghost times gi, gd kept by this module, independent of the state's own stamps)
            LLoss         an increase needs a report below 2 %, a decrease one above 10 %
            LAvgConvex    the new average lies between the old one and the report's ratio
            LGet          getEstimate(w) <= w, = min(w, bitrate) for a positive bitrate
     rc     REnvelope     every emitted target lies in [min, max]
            RQuiet        the first sample and hold: nothing emitted, target and lastUpdate untouched
            REmitIff      emitted exactly on increase / decrease
            RStamp        an emission stamps lastUpdate
            RDefined      no int(NaN): the additive increase never divides 0 by 0 (needs rtt > -100 ms, target > 0)
            RMulUp        the multiplicative increase never lowers the target and raises it by at most 8 %
            RAddBound     the additive increase raises it by at most 4800 bit/s
            RDecTo        a decrease goes to clamp(floor(0.85 recv))
            RDecDown      ... which does not raise the target provided 0.85 recv <= target
   Negative controls (each must FAIL; MC_GccRate_neg.cfg, run with -continue):
            LOutputInClamp    "what getEstimate returns lies in the estimator's clamp"   (it is min(w, .): no floor)
            RDecNeverRaises   "a decrease never raises the target"                        (0.85 recv may exceed it)
            RIncNeverLowers   "an increase never lowers the target"                       (additive branch: min(., 1.5 recv))
            RIncBelowCap      "an increase never goes above 1.5 x the received rate"       (the cap binds only above the target)
            RDefined          with a round-trip time of -100 ms in the alphabet            (0 ms / 0 ms) *)
EXTENDS GccRate
CONSTANTS MaxSteps, Mach, NegRtt
VARIABLES mach, ls, rc, now, n, last, gi, gd
vars == <<mach, ls, rc, now, n, last, gi, gd>>
Cfg == [min |-> 5000, max |-> 50000000]

\* the 32-bit evaluation of floor(a b / d) agrees with its definition on limb sequences
MulDivAgrees ==
  \A i \in 1 .. 400 :
    LET a == 2147483647 - i * 5368709        \* spread over 0 .. 2^31
        b == 1080000000 - i * 2699999
        d == 1 + ((i * 115) % 46340) IN
    /\ Q9(a \div 2, b)[1] = BigMulDiv(a \div 2, b, D9) /\ (Q9(a \div 2, b)[2] = 0) = BigMulDivExact(a \div 2, b, D9)
    /\ MulDiv(a % 100000, b \div 60000, <<d>>) = BigMulDiv(a % 100000, b \div 60000, <<d>>)
    /\ MulDivExact(a % 100000, b \div 60000, <<d>>) = BigMulDivExact(a % 100000, b \div 60000, <<d>>)
    /\ MulDiv(a \div 11, i * 499, <<41700, 1 + i * 500>>) = BigMulDiv(a \div 11, i * 499, <<41700, 1 + i * 500>>)
    /\ MulDivExact(a \div 11, i * 499, <<41700, 1 + i * 500>>) = BigMulDivExact(a \div 11, i * 499, <<41700, 1 + i * 500>>)
ASSUME MulDivAgrees /\ Q9(2000000000, 1000000000) = <<2000000000, 0>> /\ Q9(123456789, 987654321) = <<121932631, 112635269>>

Obs(k, kind, pre, pretu, preavg, w, lost, nn, emit, def, pinc, pdec) ==
  [k |-> k, kind |-> kind, pre |-> pre, pretu |-> pretu, preavg |-> preavg, w |-> w, lost |-> lost, n |-> nn, emit |-> emit,
   def |-> def, pinc |-> pinc, pdec |-> pdec]
Obs0 == Obs("init", "none", 0, Never, 0, 0, 0, 0, FALSE, TRUE, Never, Never)

RECURSIVE RunL(_, _, _)
RunL(s, t, es) == IF es = <<>> THEN <<s, t>> ELSE RunL(LossUpd(s, Head(es)[1], 1000, t + Head(es)[2]), t + Head(es)[2], Tail(es))
LossWarm == {<<>>, <<<<500, 1000>>>>, <<<<0, 1000>>, <<20, 100000>>>>}
RECURSIVE RunR(_, _, _)
RunR(c, t, es) ==
  IF es = <<>> THEN <<c, t>>
  ELSE LET e == Head(es) IN
       IF e[1] = "recv" THEN RunR(RcRecv(c, e[2]), t, Tail(es))
       ELSE IF e[1] = "rtt" THEN RunR(RcRtt(c, e[2]), t, Tail(es))
       ELSE RunR(RcOnDs(Cfg, c, e[2], "increase", t + e[3]).c, t + e[3], Tail(es))
RcWarm == {<<>>,
           <<<<"recv", 120000>>, <<"ds", "normal", 0>>>>,
           <<<<"recv", 120000>>, <<"rtt", 50000>>, <<"ds", "normal", 0>>, <<"ds", "overuse", 500000>>, <<"recv", 130000>>,
             <<"ds", "overuse", 500000>>, <<"recv", 125000>>>>,
           <<<<"recv", 900000>>, <<"ds", "normal", 0>>, <<"ds", "overuse", 500000>>, <<"recv", 880000>>,
             <<"ds", "overuse", 100000>>, <<"ds", "normal", 1000000>>, <<"ds", "normal", 1000000>>, <<"recv", 890000>>>>,
           \* two decreases near 100 kbit/s, then the received rate halves (outside the band, 1.5 x 50 k below the target: the
           \* multiplicative increase is not capped) for eight seconds, then it is back inside the band
           <<<<"recv", 100000>>, <<"ds", "normal", 0>>, <<"ds", "overuse", 500000>>, <<"recv", 104000>>, <<"ds", "overuse", 500000>>,
             <<"recv", 50000>>, <<"ds", "normal", 1000000>>, <<"ds", "normal", 1000000>>, <<"ds", "normal", 1000000>>,
             <<"ds", "normal", 1000000>>, <<"ds", "normal", 1000000>>, <<"ds", "normal", 1000000>>, <<"ds", "normal", 1000000>>,
             <<"ds", "normal", 1000000>>, <<"recv", 102000>>>>}

Init ==
  /\ n = 0 /\ last = Obs0 /\ gi = Never /\ gd = Never
  /\ \/ /\ Mach \in {"loss", "both"} /\ mach = "loss" /\ rc = RcFresh(0)
        /\ \E i \in {10000, 1000000}, wu \in LossWarm : LET x == RunL(LossFresh(i), 0, wu) IN ls = x[1] /\ now = x[2]
     \/ /\ Mach \in {"rc", "both"} /\ mach = "rc" /\ ls = LossFresh(0)
        /\ \E wu \in RcWarm : LET x == RunR(RcFresh(100000), 0, wu) IN rc = x[1] /\ now = x[2]

LossNext ==
  \/ \E lost \in {0, 19, 20, 100, 101, 500}, dt \in {1000, 200000, 200500, 150000000} :
       LET t == now + dt
           kind == LossUpdKind(ls, lost, 1000, t) IN
       /\ ls' = LossUpd(ls, lost, 1000, t) /\ now' = t
       /\ last' = Obs("upd", kind, ls.b, Never, ls.avg, 0, lost, 1000, FALSE, TRUE, gi, gd)
       /\ gi' = (IF kind = "inc" THEN t ELSE gi) /\ gd' = (IF kind = "dec" THEN t ELSE gd)
  \/ \E w \in {ls.b - 1, ls.b + 1, LMin - 1, 0} :
       /\ ls' = LossGet(ls, w) /\ last' = Obs("get", "none", ls.b, Never, ls.avg, w, 0, 0, FALSE, TRUE, gi, gd)
       /\ UNCHANGED <<now, gi, gd>>

BFloorK(x) == BInt(BDivS(x, 1000))
RcRecvs ==
  LET t == rc.target
      e == rc.ema
      band == IF e.z \/ e.wild THEN {}
              ELSE LET a == BFloorK(e.avg)
                       s3 == 3 * EmaSdApprox(e) IN {a} \cup (IF s3 > 20 THEN {a + s3 - 10, a + s3 + 10} ELSE {}) IN
  {0, t, (3 * t) \div 2, (2 * t) \div 3, 2 * t} \cup band
RcNext ==
  \/ \E x \in RcRecvs : rc' = RcRecv(rc, x) /\ last' = [Obs0 EXCEPT !.k = "recv"] /\ UNCHANGED now
  \/ \E d \in {0, 50000, -200000, 200000000} \cup (IF NegRtt THEN {-100000} ELSE {}) :
       rc' = RcRtt(rc, d) /\ last' = [Obs0 EXCEPT !.k = "rtt"] /\ UNCHANGED now
  \/ \E u \in {"overuse", "underuse", "normal"}, s \in {"increase", rc.st}, dt \in {0, 1000, 500000, 1000000} :
       LET t == now + dt
           o == RcOnDs(Cfg, rc, u, s, t) IN
       /\ rc' = o.c /\ now' = t
       /\ last' = Obs("ds", o.kind, rc.target, rc.tu, 0, 0, 0, 0, o.emit, o.def, Never, Never)
Next == /\ n < MaxSteps /\ n' = n + 1 /\ UNCHANGED mach
        /\ IF mach = "loss" THEN LossNext /\ UNCHANGED rc ELSE RcNext /\ UNCHANGED <<ls, gi, gd>>
Spec == Init /\ [][Next]_vars

IsL == mach = "loss"
Ratio == RatioPpb(last.lost, 1000)
LClamp == IsL /\ last.k = "upd" /\ last.kind # "none" => LMin <= ls.b /\ ls.b <= LMax
LIncUp == IsL /\ last.kind = "inc" /\ last.pre <= LMax => ls.b >= last.pre /\ ls.b <= Max2(LMin, (21 * last.pre) \div 20)
LDecDown == IsL /\ last.kind = "dec" /\ last.pre >= LMin => ls.b <= last.pre /\ ls.b >= Max2(LMin, last.pre \div 2)
LKeep == IsL /\ last.k = "upd" /\ last.kind = "none" => ls.b = last.pre
LTimers == /\ IsL /\ last.kind = "inc" => last.pinc = Never \/ now - last.pinc > IncT
           /\ IsL /\ last.kind = "dec" => last.pdec = Never \/ now - last.pdec > DecT
LLoss == /\ IsL /\ last.kind = "inc" => 50 * last.lost < last.n
         /\ IsL /\ last.kind = "dec" => 10 * last.lost > last.n
LAvgConvex == IsL /\ last.k = "upd" => Min2(last.preavg, Ratio) - 3 <= ls.avg /\ ls.avg <= Max2(last.preavg, Ratio) + 3
LGet == IsL /\ last.k = "get" => ls.b <= last.w /\ (last.pre > 0 => ls.b = Min2(last.w, last.pre))
LOutputInClamp == IsL /\ last.k = "get" => LMin <= ls.b /\ ls.b <= LMax

IsR == mach = "rc" /\ last.k = "ds"
Up == last.kind \in {"add", "mul"}
REnvelope == IsR /\ last.emit => Cfg.min <= rc.target /\ rc.target <= Cfg.max
RQuiet == IsR /\ last.kind \in {"first", "hold"} => ~last.emit /\ rc.target = last.pre /\ rc.tu = last.pretu
REmitIff == IsR => (last.emit <=> last.kind \in {"add", "mul", "dec"})
RStamp == IsR /\ last.emit => rc.tu = now
RDefined == IsR => last.def
RMulUp == IsR /\ last.kind = "mul" /\ last.pre <= Cfg.max =>
            rc.target >= last.pre /\ rc.target <= Max2(Cfg.min, MulDiv(last.pre, 27, <<25>>))
RAddBound == IsR /\ last.kind = "add" /\ last.def => rc.target <= Max2(Cfg.min, last.pre + 4800)
RDecTo == IsR /\ last.kind = "dec" => rc.target = Clamp(MulDiv(rc.recv, 17, <<20>>), Cfg.min, Cfg.max)
RDecDown == IsR /\ last.kind = "dec" /\ MulDiv(rc.recv, 17, <<20>>) <= last.pre /\ last.pre >= Cfg.min => rc.target <= last.pre
RDecNeverRaises == IsR /\ last.kind = "dec" => rc.target <= Max2(last.pre, Cfg.min)
RIncNeverLowers == IsR /\ Up => rc.target >= Min2(last.pre, Cfg.max)
RIncBelowCap == IsR /\ Up /\ rc.target > last.pre => rc.target <= Max2(RecvCap(rc.recv), Cfg.min)
=============================================================================

SPECIFICATION Spec
CONSTANTS
  BurstFloor = 3
  Kind = "pacing"
  Producers <- P2
  NP = 2
  Rates <- R12
  Ival = 2
  MaxRC = 1
  Clocked = FALSE
  MaxT = 0
  AcceptAll = FALSE
  CopyOnAccept = FALSE
  Registered <- S12
INVARIANTS ContentOK
CHECK_DEADLOCK FALSE

SPECIFICATION Spec
CONSTANTS
  M = 8
  HMAX = 4
  GAPMAX = 2
  WIN = 10
  RMOD = 4
  RU = 8
  TU = 2
  SMAX = 3
  LNEG = 8
  LMAX = 7
  TOL = 1
  FBMOD = 4
  RB = 3
  Mut = 0
  MaxSteps = 3
  Times = {0, 5, 12, 30}
INVARIANTS Satisfiable

CHECK_DEADLOCK FALSE

INIT Init
NEXT Next
CONSTANTS
  M = 65536
  HMAX = 32768
  WIN = 500000
  GAPMAX = 32766
  RMOD = 16777216
  RU = 64000
  TU = 250
  SMAX = 255
  LNEG = 32768
  LMAX = 32767
  TOL = 125
  FBMOD = 256
CHECK_DEADLOCK FALSE

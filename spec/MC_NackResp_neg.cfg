SPECIFICATION Spec
CONSTANTS
  M = 16
  Size = 2
  Streams <- StreamsOne
  Cells <- Cells2
  MaxWrites = 4
  MaxJobs = 1
  MaxBinds = 1
  WDeltas <- WD
  NDeltas <- ND
  EarlyRelease = TRUE
INVARIANTS ContentOK
CHECK_DEADLOCK FALSE

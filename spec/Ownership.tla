----------------------------- MODULE Ownership -----------------------------
(* Caller-owned buffer discipline (C13).  The caller owns memory cells (payload slice, header object, read buffer);
   it passes a cell to an interceptor with Call, may overwrite it (Scribble) as soon as the call has returned, and the
   interceptor later emits or records values derived from packets it has seen (retransmissions, FEC, paced packets,
   dumps).  Retain = "copy": the interceptor copied the bytes during the call; "ref": it kept a reference. *)
EXTENDS Integers, Sequences, FiniteSets, TLC
CONSTANTS Cells, Values, Retain, MaxCalls
VARIABLES mem,      \* cell -> current content
          incall,   \* cell currently passed to a call in progress, or 0
          held,     \* what the interceptor holds: sequence of [cell, copy, atcall]
          emitted,  \* sequence of [value, atcall]
          ncalls
vars == <<mem, incall, held, emitted, ncalls>>
Init == mem \in [Cells -> Values] /\ incall = 0 /\ held = <<>> /\ emitted = <<>> /\ ncalls = 0
Call(c) == /\ incall = 0 /\ ncalls < MaxCalls /\ incall' = c /\ ncalls' = ncalls + 1
           /\ held' = Append(held, [cell |-> c, copy |-> mem[c], atcall |-> mem[c]])
           /\ UNCHANGED <<mem, emitted>>
Ret == incall # 0 /\ incall' = 0 /\ UNCHANGED <<mem, held, emitted, ncalls>>
\* the caller may write its cell whenever no call using it is in progress
Scribble(c, v) == incall # c /\ mem' = [mem EXCEPT ![c] = v] /\ UNCHANGED <<incall, held, emitted, ncalls>>
\* the interceptor emits something derived from the i-th packet it holds (possibly from a background goroutine)
Emit(i) == /\ i \in DOMAIN held
           /\ emitted' = Append(emitted, [value |-> IF Retain = "copy" THEN held[i].copy ELSE mem[held[i].cell],
                                          atcall |-> held[i].atcall])
           /\ UNCHANGED <<mem, incall, held, ncalls>>
Next == \/ \E c \in Cells : Call(c) \/ \E v \in Values : Scribble(c, v)
        \/ Ret \/ \E i \in 1 .. MaxCalls : Emit(i) /\ Len(emitted) < MaxCalls + 1
Spec == Init /\ [][Next]_vars
\* everything emitted is a function of the contents at call time: a fresh-buffer run and a reused-buffer run agree
NonInterference == \A i \in DOMAIN emitted : emitted[i].value = emitted[i].atcall
=============================================================================

INIT Init
NEXT Next
CONSTANTS
  M = 65536
  N = 250
  Mode = "cc"
  Base = 65400
  N0 = 252
  La = 1
  L = 2
CONSTRAINT Leaf
CHECK_DEADLOCK FALSE

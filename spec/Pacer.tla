------------------------------- MODULE Pacer -------------------------------
(* Property-level specification of the pacers (C17):
     "pacing"  pkg/pacing/interceptor.go + rate_limit_pacer.go   token bucket (golang.org/x/time/rate)
     "leaky"   pkg/gcc/leaky_bucket_pacer.go                     budget per 5 ms tick, no stated envelope
     "noop"    pkg/gcc/noop_pacer.go                             forwards inside Write

   A pacer is a FIFO of accepted packet ids with one writer per stream.  Quantities are integers: bits, milliseconds,
   rates in bits per millisecond (= kbit/s), so that every product stays below 2^31.
   One operator per call / linearization point:
     New                         constructor (bucket full)
     AddStreamStep               BindLocalStream / Pacer.AddStream
     MustRefuse / AcceptStep     the enqueue inside Write (the linearization point of an accepted Write)
     CanRelease / ReleaseStep    the packet is handed to its stream's next writer
     TickStep                    dt milliseconds pass
     SetRateStep / CloseStep
   The property has no exemption for a packet that the bucket can never pay for: every accepted packet must be released
   while the pacer is open.  A pacer that can never release p (more bits than the smallest burst it may be configured
   with; no writer registered for its stream) must therefore refuse it - MustRefuse.
   The rate envelope of the token bucket is kept next to the machine (operators Env...): cumulative released bits never exceed the
   largest burst allowance so far plus the sum of rate x elapsed time. *)
EXTENDS Integers, Sequences, FiniteSets, TLC

CONSTANT BurstFloor            \* smallest burst of the token bucket in bits (8 * 1500 in the code)

Min(a, b) == IF a < b THEN a ELSE b
Max(a, b) == IF a > b THEN a ELSE b

IsTB(k) == k = "pacing"
\* "minimal burst size required to reach the given rate and pacing interval", at least one MTU
Burst(k, rate, ival) == IF IsTB(k) THEN Max(BurstFloor, rate * ival) ELSE 0

New(k, rate, ival) ==
  [kind |-> k, open |-> TRUE, q |-> <<>>, rate |-> rate, ival |-> ival,
   burst |-> Burst(k, rate, ival), tokens |-> Burst(k, rate, ival), streams |-> {}]

AddStreamStep(st, s) == [st EXCEPT !.streams = @ \cup {s}]

\* the pacing interceptor binds the writer when the stream is bound (every write has one); the gcc pacers route by SSRC
Routable(st, s)      == IsTB(st.kind) \/ s \in st.streams
Releasable(st, bits) == ~IsTB(st.kind) \/ bits <= BurstFloor           \* payable under every later rate setting
MustRefuse(st, s, bits) == ~st.open \/ ~Routable(st, s) \/ ~Releasable(st, bits)

AcceptStep(st, p) == [st EXCEPT !.q = Append(@, p)]

CanRelease(st, p, bits) == st.q # <<>> /\ Head(st.q) = p /\ (IsTB(st.kind) => st.tokens >= bits)
ReleaseStep(st, bits)   == [st EXCEPT !.q = Tail(@), !.tokens = IF IsTB(st.kind) THEN @ - bits ELSE @]

TickStep(st, dt) == [st EXCEPT !.tokens = Min(st.burst, @ + st.rate * dt)]

SetRateStep(st, r) ==
  LET b == Burst(st.kind, r, st.ival) IN [st EXCEPT !.rate = r, !.burst = b, !.tokens = Min(@, b)]

CloseStep(st) == [st EXCEPT !.open = FALSE]

\* ---- rate envelope (token bucket only) -------------------------------------------------------------------
\* bmax = largest burst allowance since the envelope was (re)started, credit = sum of rate_i * dt_i, cum = bits released
EnvStart(st)         == [bmax |-> st.burst, credit |-> 0, cum |-> 0]
\* (saturating: beyond 10^9 bits the bound is vacuous for any run and the sum must stay below 2^31)
EnvTime(env, r, dt)  == IF env.credit >= 1000000000 THEN env ELSE [env EXCEPT !.credit = @ + r * Min(dt, 20000)]
EnvBurst(env, b)     == [env EXCEPT !.bmax = Max(@, b)]
EnvRelease(env, bits) == [env EXCEPT !.cum = @ + bits]
EnvOK(env)           == env.cum <= env.bmax + env.credit

\* ---- deviation predicates (names used as tags in KNOWN_FINDINGS.jsonl) --------------------------------------
\* the token bucket holds (accepted) a packet with more bits than its burst: it can never be paid for at this rate
AcceptedBeyondBurst(st, bits) == IsTB(st.kind) /\ bits > st.burst
\* a gcc pacer accepted a packet for an SSRC without a registered writer
AcceptedUnroutable(st, s) == ~Routable(st, s)
=============================================================================

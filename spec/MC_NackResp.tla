--------------------------- MODULE MC_NackResp ---------------------------
(* (M) all interleavings of writes, NACK jobs, unbind/bind and close at scaled-down constants. *)
EXTENDS NackResp
WD == {1, 2, 0, -1, -2}
ND == {0, 1, 2}
WDs == {1, 2, -1}
NDs == {0, 1}
StreamsOne == {1}
StreamsTwo == {1, 2}
Cells3 == {1, 2, 3}
Cells2 == {1, 2}
=============================================================================

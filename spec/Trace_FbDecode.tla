-------------------------- MODULE Trace_FbDecode --------------------------
(* (T) validates ndjson traces recorded from internal/cc (FeedbackAdapter) and pkg/rtpfb (Interceptor) against
   FbDecode.  Events:
     {"a":"reset","target":"cc"|"rtpfb"|"comp"}                new adapter / interceptor
     {"a":"run","ssrc","seq","tw","twcc","ext","n","size","dep","gap","hsz"}
                                                                n consecutive packets were sent (see FbDecode!RunPkt);
                                                                hsz = marshalled header size, size = payload size
     {"a":"rx","k","ssrc","n","at","ecn"}                       (composition) the real twcc / rfc8888 recorder was told
                                                                that packet n arrived at `at`
     {"a":"fb","parsed","fbs":[fb..],"hasout","outs":[{"err","acks":[ack..]}..],"hasrep","rep":[packet report..],"e2e"}
                                                                the feedback packets fbs (abstract syntax of what the
                                                                wire parser delivered) were handed to the decoder(s):
                                                                outs = what the adapter returned per packet,
                                                                rep  = Report.PacketReports found in the attributes
   Times are microsecond offsets from bases chosen by the harness. *)
EXTENDS FbDecode, Json, IOUtils
Trace == ndJsonDeserialize(IOEnv.VERIF_TRACE)
KnownSeq == ndJsonDeserialize(IOEnv.VERIF_KNOWN)
Known == {KnownSeq[i].tag : i \in DOMAIN KnownSeq}

VARIABLES l, target, lru, h, rx, devs, taint
vars == <<l, target, lru, h, rx, devs, taint>>

Init == l = 1 /\ target = "cc" /\ lru = Ad0 /\ h = H0 /\ rx = {} /\ devs = {} /\ taint = ""

\* ---- binding of logged fields
RunCc(e) == [ssrc |-> e.ssrc, seq |-> e.seq, tw |-> e.tw, twcc |-> e.twcc, n |-> e.n,
             size |-> IF e.twcc THEN e.hsz + e.size ELSE e.size, dep |-> e.dep, gap |-> e.gap]
RunH(e)  == [ssrc |-> e.ssrc, seq |-> e.seq, tw |-> e.tw, twcc |-> e.twcc /\ e.ext, n |-> e.n,
             size |-> e.hsz + e.size, dep |-> e.dep, gap |-> e.gap]

\* arrival times: TWCC exact; CCFB: NTP fixed point -> time.Time -> microseconds truncates twice, +-1 us
ArrOK(x, arr) == IF x.u = "us" THEN arr = x.arr
                 ELSE LET v == Q16ToUs(x.arr) IN arr >= v - 1 /\ arr <= v + 1
AckEq(x, y) == /\ y.seq = x.seq /\ y.ssrc = x.ssrc /\ ~y.dz /\ y.size = x.size /\ y.dep = x.dep
               /\ y.has = x.has /\ (x.has => ArrOK(x, y.arr)) /\ y.ecn = x.ecn
AcksEq(xs, ys) == Len(xs) = Len(ys) /\ \A i \in 1 .. Len(xs) : AckEq(xs[i], ys[i])
ExpOut(fb) == IF fb.k = "twcc" THEN AdTwcc(lru, fb) ELSE AdCcfb(lru, fb)
OutOK(fb, o) == LET x == ExpOut(fb) IN x.err = o.err /\ (x.err \/ AcksEq(x.acks, o.acks))
OutsOK(e) == Len(e.outs) = Len(e.fbs) /\ \A i \in 1 .. Len(e.fbs) : OutOK(e.fbs[i], e.outs[i])

RepEq(x, y) == /\ y.cnt = x.cnt /\ y.ssrc = x.ssrc /\ y.seq = x.seq /\ y.tw = x.tw /\ y.size = x.size /\ y.dep = x.dep
               /\ y.arrived = x.arrived /\ y.has = x.has /\ (x.has => ArrOK(x, y.arr)) /\ y.ecn = x.ecn
ExpRep(e) == HReport(HFeedAll(h, e.fbs, 1))
RepOK(e) == LET xs == ExpRep(e) IN Len(xs) = Len(e.rep) /\ \A i \in 1 .. Len(xs) : RepEq(xs[i], e.rep[i])

\* end-to-end relation of the composition runs: every decoded arrival time is the arrival the real recorder was
\* given (TWCC: deltas are rounded to 250 us ticks, error does not accumulate: 125 us; CCFB: the offset is
\* truncated to 1/1024 s and the report timestamp to 2^-16 s: -17 .. +978 us), ECN unchanged
E2eEntry(fb, x) ==
  ~x.has \/ \E r \in rx :
     /\ r.k = fb.k /\ r.n = x.n /\ (fb.k = "ccfb" => r.ssrc = x.ssrc /\ r.ecn = x.ecn)
     /\ IF fb.k = "twcc" THEN x.arr - r.at <= 125 /\ r.at - x.arr <= 125
        ELSE Q16ToUs(x.arr) - r.at >= -17 /\ Q16ToUs(x.arr) - r.at <= 978
E2eOK(e) == \A i \in 1 .. Len(e.fbs) :
              LET fb == e.fbs[i]
                  xs == IF fb.k = "twcc" THEN DecodeTwcc(fb) ELSE DecodeCcfb(fb)
              IN \A j \in 1 .. Len(xs) : E2eEntry(fb, xs[j])

Accept(e) ==
  IF e.a = "fb" /\ e.parsed
  THEN (e.hasout => OutsOK(e)) /\ (e.hasrep => RepOK(e)) /\ (e.e2e => E2eOK(e))
  ELSE TRUE

\* ---- known findings (tags of KNOWN_FINDINGS.jsonl): a deviation EXPLAINS a rejected event only if the logged
\* output is exactly what the named defect produces; everything the defect does not touch is still compared.
ZeroAck(y) == y.seq = 0 /\ y.ssrc = 0 /\ y.size = 0 /\ y.dz /\ ~y.has /\ y.ecn = 0
\* adapter, TWCC: one result per status symbol of the packet (status count ignored); a position whose packet is
\* not remembered holds a zero-valued acknowledgement; positions inside the declared range are exact
LooseTwccOut(fb, o) ==
  LET K  == Len(Syms(fb))
      xs == DecodeTwcc(fb)
  IN IF o.err THEN /\ ~TwccTooFew(fb) /\ Total(fb) > fb.count
                   /\ Len(fb.deltas) < NeedDeltas(AllSyms(fb))              \* deltas demanded beyond the count
     ELSE /\ ~TwccTooFew(fb) /\ Len(o.acks) >= K /\ Len(o.acks) <= Total(fb)
          /\ \A i \in 1 .. Len(o.acks) :
               LET y == o.acks[i]
                   k == <<0, (fb.base + i - 1) % M>>
               IN IF ~AdHas(lru, k) THEN ZeroAck(y)
                  ELSE IF i <= K THEN AckEq(AckOf(lru.rec[k], xs[i]), y)
                  ELSE y.seq = k[2] /\ y.ssrc = 0 /\ ~y.dz /\ y.size = lru.rec[k].size /\ y.dep = lru.rec[k].dep
LooseTwccTags(fb, o) ==
  (IF MoreSymbolsThanCount(fb) /\ (o.err \/ Len(o.acks) > Len(Syms(fb))) THEN {"C09.StatusCountIgnored"} ELSE {})
  \cup (IF ~o.err /\ NamesUnknown(lru, fb) THEN {"C09.ZeroAckForUnknown"} ELSE {})
\* adapter, CCFB: "received, arrival unknown" (offset 0x1FFF) is turned into an arrival time 8191/1024 s early
LooseCcfbOut(fb, o) ==
  LET xs == AdCcfb(lru, fb).acks IN
  /\ ~o.err /\ Len(xs) = Len(o.acks)
  /\ \A i \in 1 .. Len(xs) :
       \/ AckEq(xs[i], o.acks[i])
       \/ /\ xs[i].ecn = o.acks[i].ecn /\ ~xs[i].has /\ o.acks[i].has
          /\ AckEq([xs[i] EXCEPT !.has = TRUE, !.arr = fb.rts - 64 * AtoUnknown], o.acks[i])
\* the set of tags that together explain event e, or {} if nothing does
Explain(e) ==
  IF ~(e.a = "fb" /\ e.parsed) THEN {}
  ELSE LET outTags == UNION {IF OutOK(e.fbs[i], e.outs[i]) THEN {}
                             ELSE IF e.fbs[i].k = "twcc" /\ LooseTwccOut(e.fbs[i], e.outs[i])
                                  THEN LooseTwccTags(e.fbs[i], e.outs[i])
                             ELSE IF e.fbs[i].k = "ccfb" /\ HasUnknownAto(e.fbs[i]) /\ LooseCcfbOut(e.fbs[i], e.outs[i])
                                  THEN {"C09.AtoUnknownAsTime"}
                             ELSE {"UNEXPLAINED"} : i \in 1 .. (IF e.hasout THEN Len(e.fbs) ELSE 0)}
           repTags == IF ~e.hasrep \/ RepOK(e) THEN {} ELSE {"UNEXPLAINED"}
           e2eTags == IF e.e2e /\ ~E2eOK(e) THEN {"UNEXPLAINED"} ELSE {}
       IN IF e.hasout /\ Len(e.outs) # Len(e.fbs) THEN {"UNEXPLAINED"} ELSE outTags \cup repTags \cup e2eTags

StepLru(e) == IF e.a = "run" THEN AdRun(lru, RunCc(e)) ELSE lru
StepH(e) == IF e.a = "run" THEN HRun(h, RunH(e))
            ELSE IF e.a = "fb" /\ e.parsed THEN HAfter(HFeedAll(h, e.fbs, 1))
            ELSE h
StepRx(e) == IF e.a = "rx" THEN rx \cup {[k |-> e.k, ssrc |-> e.ssrc, n |-> e.n, at |-> e.at, ecn |-> e.ecn]} ELSE rx

Next ==
  /\ l <= Len(Trace)
  /\ LET e == Trace[l] IN
     IF e.a = "reset" THEN
        /\ target' = e.target /\ lru' = Ad0 /\ h' = H0 /\ rx' = {} /\ devs' = {} /\ taint' = "" /\ l' = l + 1
     ELSE IF taint # "" THEN l' = l + 1 /\ UNCHANGED <<target, lru, h, rx, devs, taint>>
     ELSE IF Accept(e) THEN
        /\ lru' = StepLru(e) /\ h' = StepH(e) /\ rx' = StepRx(e) /\ l' = l + 1 /\ UNCHANGED <<target, devs, taint>>
     ELSE LET k == Explain(e) IN
        IF k # {} /\ k \subseteq Known THEN
           \* all recorded findings concern the adapter's feedback calls, which change no state: the trace is NOT
           \* abandoned (taint stays empty), validation continues; each tag is announced once per trace
           /\ \A t \in k \ devs : PrintT(<<"KNOWNDEV", l, t>>)
           /\ devs' = devs \cup k
           /\ lru' = StepLru(e) /\ h' = StepH(e) /\ rx' = StepRx(e)
           /\ l' = l + 1 /\ UNCHANGED <<target, taint>>
        ELSE PrintT(<<"MISMATCH", l, "explain", k, "expected",
                      IF e.hasout THEN [i \in 1 .. Len(e.fbs) |-> ExpOut(e.fbs[i])] ELSE <<>>,
                      IF e.hasrep THEN ExpRep(e) ELSE <<>>, "logged", e>>) /\ FALSE

HW == TLCSet(1, IF TLCGet(1) < l THEN l ELSE TLCGet(1))
ASSUME TLCSet(1, 0)
Post == PrintT(<<"HW", TLCGet(1), Len(Trace)>>) /\ TLCGet(1) = Len(Trace) + 1
=============================================================================

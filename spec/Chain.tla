------------------------------- MODULE Chain -------------------------------
(* Composition of interceptors (C01): chain.go folds Bind* over the members, so member 1 is the wrapper next to
   the transport and member N the one next to the application.  Members are abstracted to behaviour classes:
     "pass"    forwards unchanged (reports, stats, dumps, rtpfb, NoOp, nack generator, ...)
     "twcc"    adds the transport-wide-CC header extension and forwards
     "injrtp"  forwards, and may inject RTP of its own through ITS inner writer (FEC after a media packet,
               NACK retransmissions from another goroutine)
     "injrtcp" forwards, and writes RTCP of its own from a background goroutine
     "probe"   instrumented member: counts Bind/Unbind/Close and returns its own Close error
   One app write is modelled as a token travelling from member N down to the transport, one hop per step, so that
   injections by other goroutines interleave at every position. *)
EXTENDS Integers, Sequences, FiniteSets, TLC

CONSTANTS Classes,        \* set of behaviour classes allowed in a chain
          MaxLen,         \* chains of length 0..MaxLen
          NPackets,       \* application RTP writes
          MaxInj          \* bound on injected packets

VARIABLES chain,    \* sequence of classes (fixed after Init)
          faults,   \* set of transport call indices (1-based, counting every call reaching the transport) that fail
          next,     \* next application packet id to write
          fly,      \* the write in flight: [id, pos, ext] or <<>>  (pos = member about to process it; 0 = transport)
          wire,     \* what reached the transport writer: sequence of [id, kind ("app"/"inj"), ext, from]
          calls,    \* number of calls that reached the transport (successful or not)
          rets,     \* results returned to the application: id -> "ok" / "err"
          ninj,
          closed,   \* member index -> number of Close calls seen
          closeRet  \* set of member indices whose Close error is carried by the chain's Close error
vars == <<chain, faults, next, fly, wire, calls, rets, ninj, closed, closeRet>>

SeqsUpTo(S, n) == UNION {[1 .. k -> S] : k \in 0 .. n}

Init == /\ chain \in SeqsUpTo(Classes, MaxLen)
        /\ faults \in SUBSET (1 .. NPackets + MaxInj)
        /\ next = 1 /\ fly = <<>> /\ wire = <<>> /\ calls = 0 /\ rets = <<>> /\ ninj = 0
        /\ closed = [i \in {} |-> 0] /\ closeRet = {}

HasTwcc == \E i \in DOMAIN chain : chain[i] = "twcc"

\* the application starts a write: the token enters the outermost member
AppWrite == /\ fly = <<>> /\ next <= NPackets /\ closeRet = {} /\ closed = <<>>
            /\ fly' = [id |-> next, pos |-> Len(chain), ext |-> FALSE]
            /\ next' = next + 1
            /\ UNCHANGED <<chain, faults, wire, calls, rets, ninj, closed, closeRet>>

\* one hop: member fly.pos processes the packet and hands it to its inner writer
Hop == /\ fly # <<>> /\ fly.pos > 0
       /\ fly' = [fly EXCEPT !.pos = @ - 1, !.ext = @ \/ chain[fly.pos] = "twcc"]
       /\ UNCHANGED <<chain, faults, next, wire, calls, rets, ninj, closed, closeRet>>

\* the packet reaches the transport; the result travels back unchanged through every member
Deliver == /\ fly # <<>> /\ fly.pos = 0
           /\ calls' = calls + 1
           /\ IF (calls + 1) \in faults
              THEN wire' = wire /\ rets' = (fly.id :> "err") @@ rets
              ELSE /\ wire' = Append(wire, [id |-> fly.id, kind |-> "app", ext |-> fly.ext, from |-> 0])
                   /\ rets' = (fly.id :> "ok") @@ rets
           /\ fly' = <<>>
           /\ UNCHANGED <<chain, faults, next, ninj, closed, closeRet>>

\* member i injects a packet of its own: it goes through members i-1 .. 1 only, atomically here (its content is
\* its own; what matters is that it never touches the application packet in flight)
Inject(i) == /\ chain[i] \in {"injrtp", "injrtcp"} /\ ninj < MaxInj
             /\ ninj' = ninj + 1 /\ calls' = calls + 1
             /\ wire' = IF (calls + 1) \in faults THEN wire
                        ELSE Append(wire, [id |-> 0, kind |-> "inj",
                                           ext |-> \E j \in 1 .. i - 1 : chain[j] = "twcc", from |-> i])
             /\ UNCHANGED <<chain, faults, next, fly, rets, closed, closeRet>>

\* Chain.Close: every member is closed once, every member error is carried
Close == /\ fly = <<>> /\ closed = <<>>
         /\ closed' = [i \in DOMAIN chain |-> 1]
         /\ closeRet' = {i \in DOMAIN chain : chain[i] = "probe"}
         /\ UNCHANGED <<chain, faults, next, fly, wire, calls, rets, ninj>>

Next == AppWrite \/ Hop \/ Deliver \/ Close \/ \E i \in DOMAIN chain : Inject(i)
Spec == Init /\ [][Next]_vars

\* ---- properties of C01 -------------------------------------------------------------------------------
AppWire == SelectSeq(wire, LAMBDA e : e.kind = "app")
Ids(s) == [i \in DOMAIN s |-> s[i].id]
OkIds == LET S == {id \in DOMAIN rets : rets[id] = "ok"} IN S
\* exactly once, in order: the application subsequence of the wire is the list of successful writes in write order
ExactlyOnceInOrder ==
  /\ \A i, j \in DOMAIN AppWire : i < j => AppWire[i].id < AppWire[j].id
  /\ {AppWire[i].id : i \in DOMAIN AppWire} = OkIds
\* only the documented extension may be added, and only when a member that adds it is in the chain
OnlyTwccAdded == \A i \in DOMAIN AppWire : AppWire[i].ext = HasTwcc
\* a transport error is returned to the caller (and only then)
ErrorsSurface == \A id \in DOMAIN rets : (rets[id] = "err") <=> (id \notin {AppWire[i].id : i \in DOMAIN AppWire})
\* Close reaches every member exactly once and every member error is preserved
CloseOnce == closed # <<>> => /\ \A i \in DOMAIN chain : closed[i] = 1
                              /\ closeRet = {i \in DOMAIN chain : chain[i] = "probe"}
=============================================================================

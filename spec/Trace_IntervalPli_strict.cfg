INIT Init
NEXT Next
CONSTANTS
  Cap = 1
  Strict = TRUE
CONSTRAINT HW
POSTCONDITION Post
CHECK_DEADLOCK FALSE

--------------------------- MODULE Gen_RtpBuffer ---------------------------
(* (G) every sequence of L Add/Get/Clear operations over a boundary alphabet relative to the highest number
   sent, at the real modulus; executed on internal/rtpbuffer by the Go harness. *)
EXTENDS RtpBuffer, Json
CONSTANTS Size, Base, L
VARIABLES x, hist
AD == {1, 2, 3, 0, -1, -(Size - 1), -Size, -(Size + 1), Size, Size + 1, 2 * Size, H - 1, H}
GD == {0, 1, Size - 1, Size, Size + 1, 2 * Size, H, M - 1}
Ev(a, w, n) == [a |-> a, w |-> w, n |-> n]
Warm == <<Ev("add", Base % M, 0), Ev("add", (Base + 1) % M, 0), Ev("add", (Base + 3) % M, 0)>>
Hi == IF x.started THEN x.hi ELSE Base + M
Init == /\ x = AddStep(Size, AddStep(Size, AddStep(Size, EmptyBuf, Base % M, 1), (Base + 1) % M, 2), (Base + 3) % M, 3)
        /\ hist = Warm
Next == /\ Len(hist) < Len(Warm) + L
        /\ \/ \E d \in AD : LET w == (Hi + d) % M IN
                x' = AddStep(Size, x, w, Len(hist) + 1) /\ hist' = Append(hist, Ev("add", w, 0))
           \/ \E d \in GD : hist' = Append(hist, Ev("get", 0, (Hi - d) % M)) /\ UNCHANGED x
           \/ x' = ClearStep(x) /\ hist' = Append(hist, Ev("clear", 0, 0))
Tail3 == <<Ev("get", 0, Hi % M), Ev("get", 0, (Hi - 1) % M), Ev("get", 0, (Hi - Size + 1) % M), Ev("get", 0, (Hi - Size) % M)>>
Leaf == IF Len(hist) = Len(Warm) + L THEN PrintT(<<"TRACE", ToJson(hist \o Tail3)>>) /\ FALSE ELSE TRUE
=============================================================================

--------------------------- MODULE TwccHeaderExt ---------------------------
(* Property-level specification of the transport-wide-CC header extension interceptor (C15).
   pkg/twcc/header_extension_interceptor.go

   One shared counter per interceptor instance, kept as a *true* (unbounded) value; the wire carries the
   residue modulo M (2^16 in the code) as a big-endian two-byte extension payload.
     Negotiated(id)         the stream's StreamInfo lists the transport-cc URI with a non-zero id
     CtrStep(ctr, id)       the allocation (the linearization point of a Write on a negotiated stream)
     WriteOut(ctr, id, h)   the header handed to the next writer
   Headers are canonical records (harness/common/zz_verif_pkt_test.go.tpl):
     [p, ps, x, m, pt, seq, ts, ssrc, csrc, xp, xs, pl]   xs = sequence of [id, d], d = sequence of bytes *)
EXTENDS Integers, Sequences, FiniteSets, TLC

CONSTANT M                      \* modulus of the transport-wide sequence number (65536 in the code)

Res16(t) == t % M
OneByte == 48862                \* 0xBEDE, RFC 8285 one-byte form
TwoByte == 4096                 \* 0x1000, RFC 8285 two-byte form
ExtVal(t) == <<Res16(t) \div 256, Res16(t) % 256>>       \* rtp.TransportCCExtension, big endian

Negotiated(id) == id # 0
CtrStep(ctr, id) == IF Negotiated(id) THEN ctr + 1 ELSE ctr

Others(xs, id) == SelectSeq(xs, LAMBDA e : e.id # id)
Mine(xs, id)   == SelectSeq(xs, LAMBDA e : e.id = id)

\* one concrete header satisfying the property (used by the generator / the model): the extension replaces an
\* existing element with the same id in place, else it is appended; a header without extensions gets the one-byte form
WriteOut(ctr, id, h) ==
  IF ~Negotiated(id) THEN h
  ELSE LET el == [id |-> id, d |-> ExtVal(ctr)] IN
       IF ~h.x THEN [h EXCEPT !.x = TRUE, !.xp = OneByte, !.xs = <<el>>]
       ELSE IF Mine(h.xs, id) # <<>>
            THEN [h EXCEPT !.xs = [i \in DOMAIN h.xs |-> IF h.xs[i].id = id THEN el ELSE h.xs[i]]]
            ELSE [h EXCEPT !.xs = Append(h.xs, el)]

\* the relation the property states between the header written (hin) and the header forwarded (hout):
\* "leaves with that extension set ... nothing else in the header or payload changes"
PlainFields == {"p", "ps", "m", "pt", "seq", "ts", "ssrc", "csrc", "pl"}
Changed(hin, hout) == {f \in PlainFields : hin[f] # hout[f]}
OutOK(ctr, id, hin, hout) ==
  IF ~Negotiated(id) THEN hout = hin                          \* not negotiated: passed through untouched
  ELSE /\ Changed(hin, hout) = {}
       /\ hout.x
       /\ IF hin.x THEN hout.xp = hin.xp ELSE hout.xp \in {OneByte, TwoByte}
       /\ Others(hout.xs, id) = (IF hin.x THEN Others(hin.xs, id) ELSE <<>>)   \* other extensions: same, same order
       /\ Mine(hout.xs, id) = <<[id |-> id, d |-> ExtVal(ctr)]>>              \* exactly one element, the number
=============================================================================

----------------------------- MODULE FbDecode -----------------------------
(* Property-level specification of feedback decoding (C09).
   internal/cc/feedback_adapter.go (FeedbackAdapter: OnSent / OnTransportCCFeedback / OnRFC8888Feedback)
   pkg/rtpfb (Interceptor: local stream writers, RTCP reader, history.buildReport)

   Functional style, one operator per public call:
     AdSent / AdTwcc / AdCcfb            cc.FeedbackAdapter (LRU of the N most recently sent keys)
     HSent / HApply / HReport / HAfter   rtpfb history (send counter, highestAcked `hi`, report cursor `next`)
     DecodeTwcc / DecodeCcfb             what a feedback packet *encodes*, independent of any history

   A sent packet is a record  [ssrc, seq, twcc, tw, size, dep]   (twcc: it carried a transport-wide number tw)
   A decoded entry is         [ssrc, n, arrived, has, arr, u, ecn]
       arrived  the feedback says the packet was received
       has      an arrival time is encoded (TWCC symbol 3 / CCFB offset 0x1FFF: received, time unknown)
       arr, u   arrival time; u = "us": microseconds,  u = "q16": units of 2^-16 s (exact, CCFB)
   Abstract syntax of TWCC feedback  [base, count, ref, chunks, deltas]
       ref     reference time in 64 ms units (an offset; the harness adds a base)
       chunk   [t |-> "rl", sym, len, syms |-> <<>>]  |  [t |-> "v1" / "v2", sym |-> 0, len |-> 0, syms]
       deltas  receive deltas in 250 us ticks, one per received status that carries a delta (symbols 1, 2)
   Abstract syntax of CCFB feedback  [rts, blocks]
       rts     report timestamp in 2^-16 s units (offset)
       block   [ssrc, begin, mbs],   mbs[i] = [r (0/1), ecn, ato (1/1024 s before rts; 8191 = unknown)] *)
EXTENDS Integers, FiniteSets, Sequences, TLC

CONSTANTS M,        \* sequence-number modulus (65536 in the code)
          N         \* capacity of the adapter's history (250 in the code)

Min(a, b) == IF a < b THEN a ELSE b
Max(a, b) == IF a > b THEN a ELSE b
AtoUnknown == 8191

\* ------------------------------------------------------------------ what TWCC feedback encodes
IsDelta(s)  == s = 1 \/ s = 2
ChunkLen(c) == IF c.t = "rl" THEN c.len ELSE Len(c.syms)
RECURSIVE SumLen(_, _)
SumLen(cs, j) == IF j > Len(cs) THEN 0 ELSE ChunkLen(cs[j]) + SumLen(cs, j + 1)
Total(fb) == SumLen(fb.chunks, 1)
\* the first `room` symbols of the chunk list
RECURSIVE FlatTo(_, _, _)
FlatTo(cs, j, room) ==
  IF j > Len(cs) \/ room <= 0 THEN <<>>
  ELSE LET c == cs[j]
           s == IF c.t = "rl" THEN [x \in 1 .. Min(c.len, room) |-> c.sym]
                ELSE SubSeq(c.syms, 1, Min(Len(c.syms), room))
       IN s \o FlatTo(cs, j + 1, room - Len(s))
\* the statuses the packet declares: Min(count, total symbols) of them
Syms(fb)    == FlatTo(fb.chunks, 1, fb.count)
AllSyms(fb) == FlatTo(fb.chunks, 1, Total(fb))
NeedDeltas(s) == Cardinality({i \in 1 .. Len(s) : IsDelta(s[i])})
TwccTooFew(fb) == Len(fb.deltas) < NeedDeltas(Syms(fb))

\* Statuses s[lo .. hi] given that j deltas / t ticks were consumed before lo; every entry carries the running
\* (j, t).  EVERY status with a delta consumes one - whether or not anybody remembers the packet.
\* (divide and conquer: recursion depth log n, no quadratic sequence building)
RECURSIVE DecRange(_, _, _, _, _, _)
DecRange(s, d, lo, hi, j, t) ==
  IF lo > hi THEN <<>>
  ELSE IF lo = hi
       THEN IF IsDelta(s[lo])
            THEN LET t2 == t + (IF j + 1 <= Len(d) THEN d[j + 1] ELSE 0)
                 IN <<[st |-> s[lo], has |-> TRUE, ticks |-> t2, j |-> j + 1, t |-> t2]>>
            ELSE <<[st |-> s[lo], has |-> FALSE, ticks |-> 0, j |-> j, t |-> t]>>
  ELSE LET mid  == (lo + hi) \div 2
           L    == DecRange(s, d, lo, mid, j, t)
           last == L[Len(L)]
       IN L \o DecRange(s, d, mid + 1, hi, last.j, last.t)

DecodeSyms(fb, s) ==
  LET raw == DecRange(s, fb.deltas, 1, Len(s), 0, 0)
  IN [i \in 1 .. Len(s) |->
        [ssrc |-> 0, n |-> (fb.base + i - 1) % M, arrived |-> raw[i].st # 0, has |-> raw[i].has,
         arr |-> IF raw[i].has THEN fb.ref * 64000 + 250 * raw[i].ticks ELSE 0, u |-> "us", ecn |-> 0]]
DecodeTwcc(fb) == DecodeSyms(fb, Syms(fb))

\* ------------------------------------------------------------------ what CCFB feedback encodes
BlockEntries(rts, b) ==
  [i \in 1 .. Len(b.mbs) |->
     LET mb == b.mbs[i] IN
     [ssrc |-> b.ssrc, n |-> (b.begin + i - 1) % M, arrived |-> mb.r = 1,
      has |-> mb.r = 1 /\ mb.ato # AtoUnknown,
      arr |-> IF mb.r = 1 /\ mb.ato # AtoUnknown THEN rts - 64 * mb.ato ELSE 0, u |-> "q16",
      ecn |-> IF mb.r = 1 THEN mb.ecn ELSE 0]]
RECURSIVE BlocksFrom(_, _, _)
BlocksFrom(rts, bs, j) == IF j > Len(bs) THEN <<>> ELSE BlockEntries(rts, bs[j]) \o BlocksFrom(rts, bs, j + 1)
DecodeCcfb(fb) == BlocksFrom(fb.rts, fb.blocks, 1)

\* floor of a q16 time in microseconds
Q16ToUs(x) == (x \div 65536) * 1000000 + ((x % 65536) * 15625) \div 1024

\* ------------------------------------------------------------------ cc.FeedbackAdapter
\* ad = [ord, rec]: ord = the remembered keys, most recently sent first, at most N of them;
\*                  rec = key -> [size, dep] of the most recent send of that key
Ad0 == [ord |-> <<>>, rec |-> <<>>]
AdKey(p) == IF p.twcc THEN <<0, p.tw>> ELSE <<p.ssrc, p.seq>>
AdSentN(ad, p, cap) ==
  LET k    == AdKey(p)
      all  == <<k>> \o SelectSeq(ad.ord, LAMBDA x : x # k)
      ord2 == IF Len(all) > cap THEN SubSeq(all, 1, cap) ELSE all
      gone == {all[i] : i \in cap + 1 .. Len(all)}
  IN [ord |-> ord2,
      rec |-> [x \in (DOMAIN ad.rec \cup {k}) \ gone |-> IF x = k THEN [size |-> p.size, dep |-> p.dep] ELSE ad.rec[x]]]
AdSent(ad, p) == AdSentN(ad, p, N)
AdHas(ad, k) == k \in DOMAIN ad.rec
AckOf(r, e) == [ssrc |-> e.ssrc, seq |-> e.n, size |-> r.size, dep |-> r.dep,
                has |-> e.has, arr |-> e.arr, u |-> e.u, ecn |-> e.ecn]
\* the subsequence of the decoded entries whose packet is remembered, each with the recorded size / departure
AcksOf(ad, ents) ==
  LET dom == DOMAIN ad.rec
      hit == SelectSeq(ents, LAMBDA e : <<e.ssrc, e.n>> \in dom)
  IN [i \in 1 .. Len(hit) |-> AckOf(ad.rec[<<hit[i].ssrc, hit[i].n>>], hit[i])]
AdTwcc(ad, fb) == IF TwccTooFew(fb) THEN [err |-> TRUE, acks |-> <<>>]
                  ELSE [err |-> FALSE, acks |-> AcksOf(ad, DecodeTwcc(fb))]
AdCcfb(ad, fb) == [err |-> FALSE, acks |-> AcksOf(ad, DecodeCcfb(fb))]

\* ------------------------------------------------------------------ rtpfb history
\* h = [pk, hi, next, tmap, qmap]; the packet with send counter c is pk[c + 1]; hi = highest counter acknowledged
\* as arrived (-1: none yet); next = first counter not yet reported; tmap / qmap: transport-wide number resp.
\* <<ssrc, RTP number>> -> counter of the most recently sent, not yet reported packet with that key.
H0 == [pk |-> <<>>, hi |-> -1, next |-> 0, tmap |-> <<>>, qmap |-> <<>>]
HRec(p) == [ssrc |-> p.ssrc, seq |-> p.seq, twcc |-> p.twcc, tw |-> p.tw, size |-> p.size, dep |-> p.dep,
            arrived |-> FALSE, has |-> FALSE, arr |-> 0, u |-> "us", ecn |-> 0]
HSent(h, p) ==
  LET c == Len(h.pk) IN
  [h EXCEPT !.pk = Append(@, HRec(p)),
            !.tmap = IF p.twcc THEN [x \in DOMAIN @ \cup {p.tw} |-> IF x = p.tw THEN c ELSE @[x]] ELSE @,
            !.qmap = IF p.twcc THEN @ ELSE [x \in DOMAIN @ \cup {<<p.ssrc, p.seq>>} |->
                                              IF x = <<p.ssrc, p.seq>> THEN c ELSE @[x]]]
\* counter of the most recently sent, not yet reported packet an entry names (-1: none)
HFind(h, twcc, e) ==
  IF twcc THEN (IF e.n \in DOMAIN h.tmap THEN h.tmap[e.n] ELSE -1)
  ELSE (IF <<e.ssrc, e.n>> \in DOMAIN h.qmap THEN h.qmap[<<e.ssrc, e.n>>] ELSE -1)
\* apply the entries of one feedback packet in order: a packet takes the status of the LAST entry naming it;
\* hi rises to the highest counter any entry reports as arrived.  (closed form of the left fold, see MC_FbDecode)
RECURSIVE NamedMap(_, _, _, _, _)
NamedMap(h, twcc, ents, lo, hi) ==            \* counter -> index of the last entry in ents[lo .. hi] naming it
  IF lo > hi THEN <<>>
  ELSE IF lo = hi THEN LET c == HFind(h, twcc, ents[lo]) IN IF c < 0 THEN <<>> ELSE (c :> lo)
  ELSE LET mid == (lo + hi) \div 2 IN NamedMap(h, twcc, ents, mid + 1, hi) @@ NamedMap(h, twcc, ents, lo, mid)
HApply(h, twcc, ents) ==
  LET m   == NamedMap(h, twcc, ents, 1, Len(ents))
      arr == {HFind(h, twcc, ents[i]) : i \in {x \in 1 .. Len(ents) : ents[x].arrived}} \ {-1}
  IN [h EXCEPT !.pk = [i \in 1 .. Len(@) |->
                         IF (i - 1) \in DOMAIN m
                         THEN LET e == ents[m[i - 1]] IN
                              [@[i] EXCEPT !.arrived = e.arrived, !.has = e.has, !.arr = e.arr, !.u = e.u, !.ecn = e.ecn]
                         ELSE @[i]],
              !.hi = IF arr = {} THEN @ ELSE Max(@, CHOOSE c \in arr : \A c2 \in arr : c2 <= c)]
HFeed(h, fb) == IF fb.k = "twcc"
                THEN (IF TwccTooFew(fb) THEN h ELSE HApply(h, TRUE, DecodeTwcc(fb)))
                ELSE HApply(h, FALSE, DecodeCcfb(fb))
RECURSIVE HFeedAll(_, _, _)
HFeedAll(h, fbs, i) == IF i > Len(fbs) THEN h ELSE HFeedAll(HFeed(h, fbs[i]), fbs, i + 1)
\* the report built after a compound: every not yet reported packet up to the highest acknowledged one, in send order
HReport(h) == IF h.next > h.hi THEN <<>>
              ELSE [i \in 1 .. h.hi - h.next + 1 |->
                      LET r == h.pk[h.next + i] IN
                      [cnt |-> h.next + i - 1, ssrc |-> r.ssrc, seq |-> r.seq, tw |-> IF r.twcc THEN r.tw ELSE 0,
                       size |-> r.size, dep |-> r.dep, arrived |-> r.arrived, has |-> r.has, arr |-> r.arr,
                       u |-> r.u, ecn |-> r.ecn]]
HAfter(h) == IF h.next > h.hi THEN h
             ELSE [h EXCEPT !.next = h.hi + 1,
                            !.tmap = [x \in {y \in DOMAIN @ : @[y] > h.hi} |-> @[x]],
                            !.qmap = [x \in {y \in DOMAIN @ : @[y] > h.hi} |-> @[x]]]

\* ------------------------------------------------------------------ runs of consecutive sends (script / trace step)
\* r = [ssrc, seq, tw, twcc, n, size, dep, gap]: packet i (0-based) has RTP number seq+i, transport-wide number
\* tw+i, recorded size size+i and departure dep + i*gap
RunPkt(r, i) == [ssrc |-> r.ssrc, seq |-> (r.seq + i) % M, twcc |-> r.twcc, tw |-> (r.tw + i) % M,
                 size |-> r.size + i, dep |-> r.dep + i * r.gap]
\* index (0-based) inside run r of the packet with adapter key k
RunIdx(r, k) == IF r.twcc THEN (k[2] - r.tw) % M ELSE (k[2] - r.seq) % M
\* closed forms of n successive AdSent / HSent (n <= M, so the keys of one run are distinct)
AdRun(ad, r) ==
  IF r.n = 0 THEN ad
  ELSE LET ks   == {AdKey(RunPkt(r, i)) : i \in 0 .. r.n - 1}
           all  == [j \in 1 .. r.n |-> AdKey(RunPkt(r, r.n - j))] \o SelectSeq(ad.ord, LAMBDA x : x \notin ks)
           ord2 == IF Len(all) > N THEN SubSeq(all, 1, N) ELSE all
           gone == {all[i] : i \in N + 1 .. Len(all)}
       IN [ord |-> ord2,
           rec |-> [x \in (DOMAIN ad.rec \cup ks) \ gone |->
                      IF x \in ks THEN LET p == RunPkt(r, RunIdx(r, x)) IN [size |-> p.size, dep |-> p.dep]
                      ELSE ad.rec[x]]]
HRun(h, r) ==
  IF r.n = 0 THEN h
  ELSE LET c0 == Len(h.pk)
           tk == IF r.twcc THEN {(r.tw + i) % M : i \in 0 .. r.n - 1} ELSE {}
           qk == IF r.twcc THEN {} ELSE {<<r.ssrc, (r.seq + i) % M>> : i \in 0 .. r.n - 1}
       IN [h EXCEPT !.pk = @ \o [j \in 1 .. r.n |-> HRec(RunPkt(r, j - 1))],
                    !.tmap = [x \in DOMAIN @ \cup tk |-> IF x \in tk THEN c0 + ((x - r.tw) % M) ELSE @[x]],
                    !.qmap = [x \in DOMAIN @ \cup qk |-> IF x \in qk THEN c0 + ((x[2] - r.seq) % M) ELSE @[x]]]

\* ------------------------------------------------------------------ deviation predicates (KNOWN_FINDINGS tags)
\* C09.StatusCountIgnored: the packet carries more status symbols than its status count declares (padded final
\*   vector chunk, run length beyond the count)
MoreSymbolsThanCount(fb) == fb.k = "twcc" /\ Total(fb) > fb.count
\* C09.ZeroAckForUnknown: a declared status names a packet the adapter does not remember
NamesUnknown(ad, fb) == fb.k = "twcc" /\ \E i \in 1 .. Len(Syms(fb)) : ~AdHas(ad, <<0, (fb.base + i - 1) % M>>)
\* C09.AtoUnknownAsTime: a CCFB metric block reports "received, arrival time unknown"
HasUnknownAto(fb) == fb.k = "ccfb" /\ \E j \in 1 .. Len(fb.blocks) : \E i \in 1 .. Len(fb.blocks[j].mbs) :
                        fb.blocks[j].mbs[i].r = 1 /\ fb.blocks[j].mbs[i].ato = AtoUnknown
=============================================================================

----------------------------- MODULE MC_Stats -----------------------------
(* (M) exhaustive check of the statistics specification at scaled-down constants (M = 16, K = 2, two bound
   SSRCs and a foreign one).  The incremental operators of Stats are compared, in every reachable state, with a
   *declarative recount over the complete event log*: that is the statement of C19 itself. *)
EXTENDS Stats
CONSTANTS MaxSteps
VARIABLES st, log, tru, steps
vars == <<st, log, tru, steps>>
SSRC == {1, 2}

Ev(a, s, p, w, hl, pl, t, rate, pk, tn) ==
  [a |-> a, s |-> s, p |-> p, w |-> w, hl |-> hl, pl |-> pl, now |-> t, rate |-> rate, d |-> "", pk |-> pk, tn |-> tn]
Pk(t, ss, ms, n, ntp, pc, oc, rp) ==
  [t |-> t, ss |-> ss, ms |-> ms, n |-> n, ntp |-> ntp, pc |-> pc, oc |-> oc, rp |-> rp]
Rep(s, lost, frac, hi, jit, lsr, dlsr) ==
  [s |-> s, lost |-> lost, frac |-> frac, hi |-> hi, jit |-> jit, lsr |-> lsr, dlsr |-> dlsr]
Nack(ss, ms, n) == Pk("nack", ss, ms, n, -1, 0, 0, <<>>)
Pli(ss, ms)     == Pk("pli", ss, ms, 0, -1, 0, 0, <<>>)
Fir(ss, ms, en) == Pk("fir", ss, ms, 0, -1, 0, 0, [i \in DOMAIN en |-> Rep(en[i], 0, 0, 0, 0, -1, 0)])
RR(ss, rp)      == Pk("rr", ss, 0, 0, -1, 0, 0, rp)
SR(ss, ntp, pc, oc, rp) == Pk("sr", ss, 0, 0, ntp, pc, oc, rp)
XR(ss, rrtr, subs) == Pk("xr", ss, 0, 0, rrtr, 0, 0, subs)
Sub(s, lrr, dlrr) == Rep(s, 0, 0, 0, 0, lrr, dlrr)

Warm == << Ev("bind", 1, 0, 0, 0, 0, 0, 8000, <<>>, 0), Ev("bind", 2, 0, 0, 0, 0, 0, 8000, <<>>, 0),
           Ev("ortp", 1, 1, M - 1, 12, 5, 1, 0, <<>>, 0),
           Ev("orcp", 0, 0, 0, 0, 0, 1, 0, << SR(1, 1, 1, 17, <<>>) >>, 0),
           Ev("orcp", 0, 0, 0, 0, 0, 2, 0, << XR(2, 2, <<>>) >>, 0) >>

InComps(t) == {
  << RR(3, << Rep(1, 1, 64, 20, 9, 1, 3) >>) >>,
  << RR(3, << Rep(2, 2, 128, 5, 4, t - 1, 1), Rep(1, 0, 0, 17, 0, t - 1, 1025) >>) >>,
  << SR(2, t, 7, 70, << Rep(1, 3, 3, 30, 3, t - 2, 2) >>), Nack(3, 1, 1) >>,
  << Pli(3, 1), Fir(3, 0, <<1, 2>>), Nack(3, 2, 1) >>,
  << XR(3, -1, << Sub(1, 2, 5) >>), Pli(3, 1) >>,
  << XR(3, -1, << Sub(2, t - 1, 1030), Sub(1, t - 1, 0) >>), Fir(3, 2, <<3>>) >>,
  << SR(1, t, 1, 1, <<>>) >> }
OutComps(t) == {
  << SR(1, t, 0, 0, <<>>) >>,
  << SR(2, t, 0, 0, << Rep(1, 0, 0, 0, 0, -1, 0) >>) >>,
  << XR(1, t, <<>>) >>,
  << Nack(1, 2, 1), Pli(2, 1), Fir(1, 0, <<1>>) >>,
  << Nack(2, 1, 2), Nack(2, 3, 1), Fir(1, 1, <<2>>) >> }
Deltas == {1, 2, 0, -1, H - 1, -(H - 1)}

Init == /\ st = Fold(SysStep, <<>>, Warm) /\ log = Warm /\ tru = [s \in SSRC |-> -1] /\ steps = 0

Do(e) == st' = SysStep(st, e) /\ log' = Append(log, e)
Next ==
  /\ steps < MaxSteps /\ steps' = steps + 1
  /\ LET t == steps + 3 IN
     \/ \E s \in SSRC : \E tn \in (IF tru[s] < 0 THEN {0, M - 1} ELSE {tru[s] + d : d \in Deltas}) :
           /\ tn >= 0
           /\ Do(Ev("irtp", s, s, tn % M, 12 + 4 * s, 10 * s + steps, t, 0, <<>>, tn))
           /\ tru' = [tru EXCEPT ![s] = tn]
     \/ \E s \in SSRC : Do(Ev("irtp", s, 3 - s, 5, 12, 1, t, 0, <<>>, -1)) /\ UNCHANGED tru   \* a packet of the other SSRC on stream s
     \/ \E s \in SSRC, w \in {3, M - 1} : Do(Ev("ortp", s, s, w, 12 + 4 * s, 7, t, 0, <<>>, 0)) /\ UNCHANGED tru
     \/ \E c \in InComps(t) : Do(Ev("ircp", 0, 0, 0, 0, 0, t, 0, c, 0)) /\ UNCHANGED tru
     \/ \E c \in OutComps(t) : Do(Ev("orcp", 0, 0, 0, 0, 0, t, 0, c, 0)) /\ UNCHANGED tru
Spec == Init /\ [][Next]_vars

\* ------------------------------------------------------------------ recount over the log
Sum(f(_), seq) == Fold(LAMBDA acc, e : acc + f(e), 0, seq)
MaxOf(S) == CHOOSE m \in S : \A n \in S : n <= m
Idx == [i \in DOMAIN log |-> i]
InRtpOf(s)  == SelectSeq(log, LAMBDA e : e.a = "irtp" /\ e.s = s /\ e.p = s)
OutRtpOf(s) == SelectSeq(log, LAMBDA e : e.a = "ortp" /\ e.s = s /\ e.p = s)
CountPk(a, P(_)) == Sum(LAMBDA e : IF e.a = a THEN Cardinality({j \in DOMAIN e.pk : P(e.pk[j])}) ELSE 0, log)

\* packets / bytes / header bytes sent and received for that SSRC only
RecountRtp == \A s \in SSRC :
  LET i == InRtpOf(s)  o == OutRtpOf(s) IN
  /\ st[s].ipr = Len(i) /\ st[s].ib = Sum(LAMBDA e : e.hl + e.pl, i) /\ st[s].ihb = Sum(LAMBDA e : e.hl, i)
  /\ st[s].ops = Len(o) /\ st[s].ob = Sum(LAMBDA e : e.hl + e.pl, o) /\ st[s].ohb = Sum(LAMBDA e : e.hl, o)
  /\ st[s].ilt = (IF i = <<>> THEN -1 ELSE i[Len(i)].now)
\* NACK / PLI / FIR per direction and destination
RecountFeedback == \A s \in SSRC :
  /\ st[s].inack = CountPk("orcp", LAMBDA pk : pk.t = "nack" /\ pk.ms = s)
  /\ st[s].ipli  = CountPk("orcp", LAMBDA pk : pk.t = "pli" /\ pk.ms = s)
  /\ st[s].ifir  = CountPk("orcp", LAMBDA pk : pk.t = "fir" /\ \E j \in DOMAIN pk.rp : pk.rp[j].s = s)
  /\ st[s].onack = CountPk("ircp", LAMBDA pk : pk.t = "nack" /\ pk.ms = s)
  /\ st[s].opli  = CountPk("ircp", LAMBDA pk : pk.t = "pli" /\ pk.ms = s)
  /\ st[s].ofir  = CountPk("ircp", LAMBDA pk : pk.t = "fir" /\ \E j \in DOMAIN pk.rp : pk.rp[j].s = s)
\* the unwrapped numbers are the true numbers (reordering below M/2), so the loss figure is expected - received
\* over the true sequence range
RecountLoss == \A s \in SSRC :
  LET i == InRtpOf(s)  T == {i[j].tn : j \in DOMAIN i} IN
  IF i = <<>> THEN Lost(st[s]) = 0
  ELSE /\ st[s].ilast = tru[s]
       /\ Lost(st[s]) = (MaxOf(T) - i[1].tn + 1) - Len(i)

\* reception reports about s in arrival order, each with the index of the event that carried it
RepsAt(s) == Fold(LAMBDA acc, i : IF log[i].a # "ircp" THEN acc ELSE
                  acc \o Fold(LAMBDA a2, pk : IF pk.t \in {"rr", "sr"}
                                   THEN a2 \o [j \in DOMAIN SelectSeq(pk.rp, LAMBDA r : r.s = s) |->
                                               [i |-> i, r |-> SelectSeq(pk.rp, LAMBDA r : r.s = s)[j]]]
                                   ELSE a2, <<>>, log[i].pk), <<>>, Idx)
SubsAt(s) == Fold(LAMBDA acc, i : IF log[i].a # "ircp" THEN acc ELSE
                  acc \o Fold(LAMBDA a2, pk : IF pk.t = "xr"
                                   THEN a2 \o [j \in DOMAIN SelectSeq(pk.rp, LAMBDA r : r.s = s) |->
                                               [i |-> i, r |-> SelectSeq(pk.rp, LAMBDA r : r.s = s)[j]]]
                                   ELSE a2, <<>>, log[i].pk), <<>>, Idx)
LastK(q) == SubSeq(q, Max(1, Len(q) - K + 1), Len(q))
\* timestamps of the sender reports written for s / of the RRTR blocks written, before event i
SRsBefore(s, i) == Fold(LAMBDA acc, j : IF j >= i \/ log[j].a # "orcp" THEN acc ELSE
                        acc \o Fold(LAMBDA a2, pk : IF pk.t = "sr" /\ (pk.ss = s \/ \E k \in DOMAIN pk.rp : pk.rp[k].s = s)
                                                    THEN Append(a2, pk.ntp) ELSE a2, <<>>, log[j].pk), <<>>, Idx)
RrtrsBefore(i) == Fold(LAMBDA acc, j : IF j >= i \/ log[j].a # "orcp" THEN acc ELSE
                        acc \o Fold(LAMBDA a2, pk : IF pk.t = "xr" /\ pk.ntp >= 0
                                                    THEN Append(a2, pk.ntp) ELSE a2, <<>>, log[j].pk), <<>>, Idx)
InSeq(v, q) == \E k \in DOMAIN q : q[k] = v
RttSum(ms) == Fold(LAMBDA acc, m : RttAdd(acc, RttOf(log[m.i].now, m.r.lsr, m.r.dlsr)), Zero, ms)

\* remote figures from the most recent matching report
RecountRemoteInbound == \A s \in SSRC :
  LET rs == RepsAt(s)
      o  == {i \in DOMAIN log : log[i].a = "ortp" /\ log[i].s = s /\ log[i].p = s}
      after == SelectSeq(rs, LAMBDA m : o # {} /\ \E i \in o : i < m.i)      \* reports that arrived after the first sent packet
      valid == SelectSeq(rs, LAMBDA m : m.r.lsr >= 0 /\ m.r.dlsr > 0 /\ InSeq(m.r.lsr, LastK(SRsBefore(s, m.i))))
  IN /\ IF rs = <<>> THEN st[s].rpl = 0 /\ st[s].rfrac = 0 /\ st[s].rjit = 0
        ELSE LET r == rs[Len(rs)].r IN st[s].rpl = r.lost /\ st[s].rfrac = r.frac /\ st[s].rjit = r.jit
     /\ IF after = <<>> THEN st[s].rpr = 0
        ELSE LET r == after[Len(after)].r  first == log[CHOOSE i \in o : \A j \in o : i <= j].w IN
             st[s].rpr = Max(r.hi - first + 1 - r.lost, 0)
     /\ st[s].rn = Len(valid) /\ st[s].rtot = RttSum(valid)
     /\ st[s].rrtt = (IF valid = <<>> THEN Zero
                      ELSE LET m == valid[Len(valid)] IN RttOf(log[m.i].now, m.r.lsr, m.r.dlsr))
RecountRemoteOutbound == \A s \in SSRC :
  LET srs == Fold(LAMBDA acc, e : IF e.a # "ircp" THEN acc ELSE
                  acc \o SelectSeq(e.pk, LAMBDA pk : pk.t = "sr" /\ (pk.ss = s \/ \E k \in DOMAIN pk.rp : pk.rp[k].s = s)),
                  <<>>, log)
      valid == SelectSeq(SubsAt(s), LAMBDA m : m.r.lsr >= 0 /\ m.r.dlsr > 0 /\ InSeq(m.r.lsr, LastK(RrtrsBefore(m.i))))
  IN /\ st[s].sn = Len(srs)
     /\ IF srs = <<>> THEN st[s].sps = 0 /\ st[s].sb = 0 /\ st[s].sts = -1
        ELSE LET p == srs[Len(srs)] IN st[s].sps = p.pc /\ st[s].sb = p.oc /\ st[s].sts = p.ntp
     /\ st[s].sm = Len(valid) /\ st[s].stot = RttSum(valid)
     /\ st[s].srtt = (IF valid = <<>> THEN Zero
                      ELSE LET m == valid[Len(valid)] IN RttOf(log[m.i].now, m.r.lsr, m.r.dlsr))

\* per-SSRC isolation: an event that does not concern s leaves the figures of s untouched
Mentions(pk, s) == pk.ms = s \/ (\E k \in DOMAIN pk.rp : pk.rp[k].s = s) \/ (pk.t = "sr" /\ pk.ss = s)
Concerns(e, s) ==
  CASE e.a \in {"irtp", "ortp"} -> e.s = s /\ e.p = s
    [] e.a = "ircp" -> \E j \in DOMAIN e.pk : Mentions(e.pk[j], s)
    [] e.a = "orcp" -> \E j \in DOMAIN e.pk : Mentions(e.pk[j], s) \/ (e.pk[j].t = "xr" /\ e.pk[j].ntp >= 0)
    [] OTHER -> TRUE
Isolation == [][ \A s \in SSRC : ~Concerns(log'[Len(log')], s) => Out(st'[s]) = Out(st[s]) ]_vars

\* ---- reachability controls (each must be VIOLATED; run as negative controls so that the recount is not vacuous) ----
NegRtt   == \A s \in SSRC : st[s].rn = 0 /\ st[s].sm = 0
NegLoss  == \A s \in SSRC : Lost(st[s]) <= 0
NegEvict == \A s \in SSRC : \A k \in DOMAIN RepsAt(s) :
              LET m == RepsAt(s)[k] IN
              (m.r.lsr >= 0 /\ m.r.dlsr > 0 /\ InSeq(m.r.lsr, SRsBefore(s, m.i))) => InSeq(m.r.lsr, LastK(SRsBefore(s, m.i)))
=============================================================================

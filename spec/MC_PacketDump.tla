--------------------------- MODULE MC_PacketDump ---------------------------
(* (M) the packet dumper's logger protocol at small constants: callers hand a dump to ONE loop goroutine through a
   rendezvous (unbuffered channel, select on close), the loop filters/formats it, Close closes the channel and waits for
   the loop.  Checked for every filter/formatter configuration in RF x CF x PF x RFMT x CFMT and every history of MaxCalls
   calls: the dumps written are exactly BurstDumps of the accepted calls in call order, nothing is dumped once Close has
   returned, every accepted call is eventually dumped.  Variant "unordered" (a buffered hand-off drained in any order) is
   the negative control. *)
EXTENDS PacketDump
CONSTANTS RF, CF, PF, RFMT, CFMT, MaxCalls, Variant
VARIABLES cfg, x, slot, hist, out, closing, exited, closeret
vars == <<cfg, x, slot, hist, out, closing, exited, closeret>>

R(pt, seq)  == [t |-> "rtp", a |-> pt, b |-> seq, pl |-> <<pt, seq>>]
C(t, a)     == [t |-> t, a |-> a, b |-> 0, pl |-> <<>>]
Alphabet == { [a |-> "rtp", p |-> <<R(96, 1)>>], [a |-> "rtp", p |-> <<R(97, 2)>>],
              [a |-> "rtcp", p |-> <<C("rr", 1)>>], [a |-> "rtcp", p |-> <<C("pli", 2), C("rr", 1)>>],
              [a |-> "rtcp", p |-> <<C("sdes", 3), C("nack", 2), C("rr", 1)>>] }
SlotCap == IF Variant = "unordered" THEN 2 ELSE 1

Init == /\ cfg \in [rf : RF, cf : CF, pf : PF, rfmt : RFMT, cfmt : CFMT]
        /\ x = Open /\ slot = <<>> /\ hist = <<>> /\ out = <<>>
        /\ closing = FALSE /\ exited = FALSE /\ closeret = FALSE

\* Log*Packet: rendezvous with the loop, or give up because the close channel is closed (either when both are possible)
CallHandOver(c) == /\ Len(hist) < MaxCalls /\ ~exited /\ Len(slot) < SlotCap
                   /\ slot' = Append(slot, c) /\ hist' = Append(hist, c)
                   /\ UNCHANGED <<cfg, x, out, closing, exited, closeret>>
CallDropped(c)  == /\ Len(hist) < MaxCalls /\ closing
                   /\ hist' = Append(hist, [a |-> "dropped", p |-> c.p])
                   /\ UNCHANGED <<cfg, x, slot, out, closing, exited, closeret>>
LoopDump(i) == /\ i \in DOMAIN slot
               /\ out' = out \o CallDumps(cfg, Open, slot[i])
               /\ slot' = SubSeq(slot, 1, i - 1) \o SubSeq(slot, i + 1, Len(slot))
               /\ UNCHANGED <<cfg, x, hist, closing, exited, closeret>>
LoopExit  == closing /\ ~exited /\ slot = <<>> /\ exited' = TRUE /\ UNCHANGED <<cfg, x, slot, hist, out, closing, closeret>>
CloseCall == ~closing /\ closing' = TRUE /\ x' = CloseStep(x) /\ UNCHANGED <<cfg, slot, hist, out, exited, closeret>>
CloseRet  == closing /\ exited /\ ~closeret /\ closeret' = TRUE /\ UNCHANGED <<cfg, x, slot, hist, out, closing, exited>>

Loop == (IF Variant = "unordered" THEN \E i \in DOMAIN slot : LoopDump(i) ELSE LoopDump(1)) \/ LoopExit
Next == \/ \E c \in Alphabet : CallHandOver(c) \/ CallDropped(c)
        \/ Loop \/ CloseCall \/ CloseRet
Spec == Init /\ [][Next]_vars /\ WF_vars(Loop) /\ WF_vars(CloseRet)

Accepted == SelectSeq(hist, LAMBDA c : c.a # "dropped")
Done     == SubSeq(Accepted, 1, Len(Accepted) - Len(slot))
\* order of dumps = order of calls, each accepted call dumped exactly once (subject to the filters)
OrderOK == out = BurstDumps(cfg, Open, Done)
\* the filters mean what their names say
FilterSound == \A i \in DOMAIN out :
   /\ out[i].k \in {"rb", "rt"} => AcceptRtp(cfg.rf, out[i].p[1]) /\ out[i].st = "rtp"
   /\ out[i].k = "cb" => AcceptPkt(cfg.pf, out[i].p[1]) /\ Len(out[i].p) = 1 /\ out[i].st = "rtcp"
   /\ out[i].k = "ct" => AcceptCompound(cfg.cf, out[i].p) /\ \E c \in Alphabet : c.p = out[i].p      \* the WHOLE compound
   /\ out[i].k = "def" => (out[i].st = "rtp" /\ cfg.rfmt = "def") \/ (out[i].st = "rtcp" /\ cfg.cfmt = "def")
\* a text formatter is called once per accepted RTP packet / compound
TextOncePerCall ==
   cfg.cfmt = "text" /\ cfg.cf = "all" =>
      Len(SelectSeq(out, LAMBDA d : d.k = "ct")) = Len(SelectSeq(Done, LAMBDA c : c.a = "rtcp"))
NothingAfterCloseReturned == [][ closeret => out' = out ]_vars
DroppedOnlyWhenClosing    == [][ \A c \in Alphabet : CallDropped(c) => closing ]_vars
EveryAcceptedCallDumped   == (slot # <<>>) ~> (slot = <<>>)
CloseReturns              == closing ~> closeret
=============================================================================

SPECIFICATION Spec
CONSTANTS
  M = 16
  Hist = 4
  Cap = 5
  JS = 256
  Rate = 1000
  MaxSteps = 5
  Deltas <- DeltasFew
  Moves <- MovesJitter
INVARIANTS TypeOK HighestIsMax LossIsTruth FractionOK TotalIsSaturatedSum SrZero SrReflected JitterBound
PROPERTIES ReportCloses TotalMonotone
CHECK_DEADLOCK FALSE

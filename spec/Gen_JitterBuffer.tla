------------------------- MODULE Gen_JitterBuffer -------------------------
(* (G) behaviour generator for C18 at the real modulus.  A *plan* fixes level ("jb" JitterBuffer / "pq"
   PriorityQueue), minimum start count, a warm-up of `warm` in-order pushes starting at Base (just below the
   2^16 wrap), a length and an alphabet; for every plan of the configured plan set TLC enumerates every sequence
   of `len` operations over the alphabet, which is partly absolute (numbers Base + push / arg offsets: around the
   wrap, duplicates, reordering) and partly relative to the specification state (the playout head, its
   neighbours, the last number pushed, the lowest / highest number buffered, a number that is not buffered).
   Each complete behaviour is printed as one JSON script; the Go harness executes it on the real code and the
   recorded trace is validated by Trace_JitterBuffer (the generator embeds no expectation). *)
EXTENDS JitterBuffer, Json
CONSTANTS Base, Plans
VARIABLES p, x, nid, hist, done
vars == <<p, x, nid, hist, done>>
Cfg == [min |-> p.min, defmin |-> 50, over |-> 100]

Plan(level, min, warm, len, letters, push, arg, ts, rel) ==
  [level |-> level, min |-> min, warm |-> warm, len |-> len, letters |-> letters, push |-> push, arg |-> arg,
   ts |-> ts, rel |-> rel]
JBAll == {"push", "pop", "popseq", "popts", "peek", "peekseq", "sethead", "clear"}
PQAll == {"qpush", "qpop", "qpopat", "qpopts", "qfind", "qclear"}

\* quick tier: full alphabets at depth 3 on both sides of the Buffering -> Emitting transition, focused ones at depth 5
QuickPlans == {
  Plan("jb", 2, 1, 3, JBAll, 0 .. 4, {}, {0, 1}, TRUE),
  Plan("pq", 0, 1, 3, PQAll, 0 .. 4, {}, {0, 1, 2}, TRUE),
  Plan("jb", 1, 0, 5, {"push", "pop", "clear"}, {0, 1, 2}, {}, {}, FALSE),
  Plan("jb", 3, 2, 5, {"push", "pop", "popseq", "sethead"}, {1, 2}, {2}, {}, FALSE),
  Plan("jb", 0, 0, 4, {"push", "pop", "popts", "peek"}, {0, 1, 2}, {}, {0, 1}, FALSE),
  Plan("pq", 0, 0, 5, {"qpush", "qpop", "qpopts", "qclear"}, {1, 2}, {}, {1}, FALSE),
  Plan("pq", 0, 0, 5, {"qpush", "qpopat", "qfind"}, {2, 3}, {2, 3}, {}, FALSE) }
\* thorough tier
ThoroughPlans == {
  Plan("jb", 2, 1, 4, JBAll, 0 .. 4, {0, 2}, {0, 1}, FALSE),
  Plan("jb", 1, 0, 3, JBAll, 0 .. 4, {}, {0, 1}, TRUE),
  Plan("jb", 3, 2, 3, JBAll, 0 .. 4, {}, {0, 1}, TRUE),
  Plan("jb", 0, 0, 3, JBAll, 0 .. 4, {}, {0, 1}, TRUE),
  Plan("pq", 0, 1, 4, PQAll, 0 .. 4, {0, 2, 4}, {0, 1, 2}, FALSE),
  Plan("jb", 1, 0, 6, {"push", "pop", "clear"}, {0, 1, 2}, {}, {}, FALSE),
  Plan("jb", 2, 0, 7, {"push", "pop", "clear"}, {1, 2}, {}, {}, FALSE),
  Plan("jb", 3, 2, 6, {"push", "pop", "popseq", "sethead"}, {1, 2}, {2}, {}, FALSE),
  Plan("jb", 2, 0, 5, {"push", "pop", "popts", "peek"}, {0, 1, 2}, {}, {0, 1}, FALSE),
  Plan("jb", 2, 1, 5, {"push", "pop", "peekseq", "clear"}, {0, 1, 2}, {0, 2}, {}, FALSE),
  Plan("pq", 0, 0, 6, {"qpush", "qpop", "qpopts", "qclear"}, {1, 2}, {}, {1}, FALSE),
  Plan("pq", 0, 0, 6, {"qpush", "qpopat", "qfind"}, {2, 3}, {2, 3}, {}, FALSE) }
\* -simulate walks (L is the walk length)
WalkPlans(L) == { Plan("jb", m, 0, L, JBAll, 0 .. 9, {}, 0 .. 4, TRUE) : m \in {0, 1, 2, 3, 5} }
                \cup { Plan("pq", 0, 0, L, PQAll, 0 .. 9, {}, 0 .. 4, TRUE) }
QuickWalks == WalkPlans(30)
ThoroughWalks == WalkPlans(60)

E(a, n, ts, b) == [a |-> a, n |-> n, ts |-> ts, b |-> b]
Num(d)  == (Base + d) % M
TsOf(n) == ((n - Base) % M) \div 2              \* two neighbouring numbers share a timestamp
Pick(S) == CHOOSE r \in S : TRUE                \* the generator follows one of the permitted duplicates
PushA(q) == IF q.level = "pq" THEN "qpush" ELSE "push"

\* numbers relative to the specification state
Nums(b) == {e.n : e \in b}
MaxNum(b) == CHOOSE m \in Nums(b) : \A k \in Nums(b) : k <= m
RelNums == IF ~p.rel THEN {}
           ELSE {x.head, (x.head + 1) % M, (x.head - 1) % M, x.last}
                \cup (IF x.buf = {} THEN {} ELSE {MinNum(x.buf), MaxNum(x.buf), (MaxNum(x.buf) + 1) % M})
ArgNums == {Num(d) : d \in p.arg} \cup RelNums
On(a) == a \in p.letters

Alphabet ==
  IF p.level = "pq" THEN
         (IF On("qpush")  THEN {E("qpush", Num(d), TsOf(Num(d)), FALSE) : d \in p.push} ELSE {})
    \cup (IF On("qpop")   THEN {E("qpop", 0, 0, FALSE)} ELSE {})
    \cup (IF On("qpopat") THEN {E("qpopat", n, 0, FALSE) : n \in ArgNums} ELSE {})
    \cup (IF On("qpopts") THEN {E("qpopts", 0, t, FALSE) : t \in p.ts} ELSE {})
    \cup (IF On("qfind")  THEN {E("qfind", n, 0, FALSE) : n \in ArgNums} ELSE {})
    \cup (IF On("qclear") THEN {E("qclear", 0, 0, FALSE)} ELSE {})
  ELSE
         (IF On("push")    THEN {E("push", Num(d), TsOf(Num(d)), FALSE) : d \in p.push} ELSE {})
    \cup (IF On("pop")     THEN {E("pop", 0, 0, FALSE)} ELSE {})
    \cup (IF On("popseq")  THEN {E("popseq", n, 0, FALSE) : n \in ArgNums} ELSE {})
    \cup (IF On("popts")   THEN {E("popts", 0, t, FALSE) : t \in p.ts} ELSE {})
    \cup (IF On("peek")    THEN {E("peek", 0, 0, b) : b \in BOOLEAN} ELSE {})
    \cup (IF On("peekseq") THEN {E("peekseq", n, 0, FALSE) : n \in ArgNums} ELSE {})
    \cup (IF On("sethead") THEN {E("sethead", n, 0, FALSE) : n \in ArgNums} ELSE {})
    \cup (IF On("clear")   THEN {E("clear", 0, 0, b) : b \in BOOLEAN} ELSE {})

Apply(c, y, k, ev) ==
  LET e == Entry(ev.n, k + 1, ev.ts) IN
  CASE ev.a = "qpush"   -> [y EXCEPT !.buf = PQPushStep(@, e)]
    [] ev.a = "qpop"    -> [y EXCEPT !.buf = PQPopStep(@, Pick(PQPopOut(y.buf)))]
    [] ev.a = "qpopat"  -> [y EXCEPT !.buf = PQPopStep(@, Pick(PQPopAtOut(y.buf, ev.n)))]
    [] ev.a = "qpopts"  -> [y EXCEPT !.buf = PQPopStep(@, Pick(PQPopAtTsOut(y.buf, ev.ts)))]
    [] ev.a = "qclear"  -> [y EXCEPT !.buf = PQClearStep(@)]
    [] ev.a = "push"    -> JBPushStep(c, y, e)
    [] ev.a = "pop"     -> JBPopStep(y, Pick(JBPopOut(y)))
    [] ev.a = "popseq"  -> JBPopAtSeqStep(y, Pick(JBPopAtSeqOut(y, ev.n)))
    [] ev.a = "popts"   -> JBPopAtTsStep(y, Pick(JBPopAtTsOut(y, ev.ts)))
    [] ev.a = "sethead" -> JBSetHeadStep(y, ev.n)
    [] ev.a = "clear"   -> JBClearStep(c, y, ev.b)
    [] OTHER            -> y
IsPush(ev) == ev.a \in {"push", "qpush"}

CfgOf(q) == [min |-> q.min, defmin |-> 50, over |-> 100]
WarmEv(q, i) == E(PushA(q), Num(i - 1), TsOf(Num(i - 1)), FALSE)
RECURSIVE WarmState(_, _)
WarmState(q, i) == IF i = 0 THEN JBInit(CfgOf(q)) ELSE Apply(CfgOf(q), WarmState(q, i - 1), i - 1, WarmEv(q, i))

Init == /\ p \in Plans /\ done = FALSE
        /\ x = WarmState(p, p.warm) /\ nid = p.warm /\ hist = [i \in 1 .. p.warm |-> WarmEv(p, i)]
Full == Len(hist) = p.warm + p.len
Next == \/ /\ ~Full
           /\ \E ev \in Alphabet :
                /\ x' = Apply(Cfg, x, nid, ev)
                /\ nid' = (IF IsPush(ev) THEN nid + 1 ELSE nid)
                /\ hist' = Append(hist, ev)
           /\ UNCHANGED <<p, done>>
        \/ Full /\ ~done /\ done' = TRUE /\ UNCHANGED <<p, x, nid, hist>>   \* only reached by -simulate walks
Script == [level |-> p.level, min |-> p.min, steps |-> hist]
\* exhaustive enumeration: print every complete behaviour and cut
Leaf == IF Full THEN PrintT(<<"TRACE", ToJson(Script)>>) /\ FALSE ELSE TRUE
\* -simulate walks (depth = len + 2): the single successor of a complete walk prints it once
Walk == IF done THEN PrintT(<<"TRACE", ToJson(Script)>>) ELSE TRUE
=============================================================================

-------------------------- MODULE Trace_Attributes --------------------------
(* events: {"a":"reset"}  {"a":"new"}  {"a":"get","slot":"h"|"c","id":n,"ok":bool,"err":bool,"ret":n,"same":bool}
   ret = identity of what was returned (the id encoded in the parsed packet, 0 on error); same = the very object returned
   by the previous successful lookup of that slot. *)
EXTENDS Attributes, Json, IOUtils
Trace == ndJsonDeserialize(IOEnv.VERIF_TRACE)
VARIABLES l, cache
Init == l = 1 /\ cache = Empty
Accept(e) == IF e.a # "get" THEN TRUE
             ELSE LET o == GetOut(cache, e.slot, [id |-> e.id, ok |-> e.ok]) IN
                  /\ e.err = o[1] /\ e.ret = o[2] /\ (e.same <=> cache[e.slot] # 0)
Next == /\ l <= Len(Trace)
        /\ LET e == Trace[l] IN
           /\ IF Accept(e) THEN TRUE ELSE PrintT(<<"MISMATCH", l, "cache", cache, "event", e>>)
           /\ cache' = IF e.a \in {"reset", "new"} THEN Empty ELSE GetStep(cache, e.slot, [id |-> e.id, ok |-> e.ok])
           /\ l' = l + 1
HW == TLCSet(1, IF TLCGet(1) < l THEN l ELSE TLCGet(1))
ASSUME TLCSet(1, 0)
Post == PrintT(<<"HW", TLCGet(1), Len(Trace)>>) /\ TLCGet(1) = Len(Trace) + 1
=============================================================================

----------------------------- MODULE Attributes -----------------------------
(* The parse cache of interceptor.Attributes (attributes.go), shared by every member of a chain for one packet:
   GetRTPHeader / GetRTCPPackets return the cached parse result if there is one (whatever bytes are passed), otherwise
   parse; a result is cached only if parsing succeeded - a failed parse must leave no trace, because the next member of the
   chain would trust it. *)
EXTENDS Integers, Sequences, TLC
\* a raw packet is a record [id |-> n, ok |-> BOOLEAN]; cache slots hold the id that was parsed (0 = empty)
Empty == [h |-> 0, c |-> 0]
GetOut(cache, slot, raw) ==     \* <<error?, id returned>>
  IF cache[slot] # 0 THEN <<FALSE, cache[slot]>>
  ELSE IF raw.ok THEN <<FALSE, raw.id>> ELSE <<TRUE, 0>>
GetStep(cache, slot, raw) ==
  IF cache[slot] # 0 \/ ~raw.ok THEN cache ELSE [cache EXCEPT ![slot] = raw.id]
=============================================================================

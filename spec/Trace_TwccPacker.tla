-------------------------- MODULE Trace_TwccPacker --------------------------
(* Specification growth attached to C05: second pass over the traces that Trace_Twcc has already accepted
   (same events, see Trace_Twcc.tla).  The abstract recorder state is replayed with Twcc!RecordStep / BuildStep and
   for every build event of a Recorder-level trace (arrival times known exactly) the packets the real code returned
   are compared with what the EXACT specification TwccPacker predicts: chunk list (PackerExact), reference time,
   deltas, symbol choice, where the report was split (see TwccPacker!BuildNotes).
   A difference is not a C05 violation (the relational clauses hold, or Trace_Twcc would have rejected the trace):
   it is printed as <<"GROWTHNOTE", event index, clause names, ...>> (first 40 of a run) and counted per clause; the check
   driver turns the counts into NOTE: lines and coverage["growth_notes"].  This pass never rejects a trace.
   Interceptor-level traces (bracketed arrival times, nondeterministic order) are skipped. *)
EXTENDS TwccPacker, Json, IOUtils
Trace == ndJsonDeserialize(IOEnv.VERIF_TRACE)

VARIABLES l, rb, x, skip
vars == <<l, rb, x, skip>>
Init == l = 1 /\ rb = 0 /\ x = Fresh0 /\ skip = FALSE

Clauses == <<"PackerExact", "RefExact", "DeltaExact", "SymbolExact", "TailExact", "SplitExact", "BaseExact", "abort">>
Note(e, notes) ==
  /\ TLCSet(2, TLCGet(2) + 1)
  /\ \A i \in DOMAIN Clauses : IF Clauses[i] \in notes THEN TLCSet(10 + i, TLCGet(10 + i) + 1) ELSE TRUE
  /\ IF TLCGet(2) <= 40
     THEN PrintT(<<"GROWTHNOTE", l, notes, "chunks", [k \in DOMAIN e.out |-> e.out[k].ch],
                   "predicted", [k \in DOMAIN e.out |-> Finish(Scan(x, rb, e.out[k]).p)]>>)
     ELSE TRUE

Next ==
  /\ l <= Len(Trace)
  /\ l' = l + 1
  /\ LET e == Trace[l] IN
     IF e.a = "reset" THEN rb' = e.rb /\ x' = Fresh0 /\ skip' = (e.lvl # "rec")
     ELSE IF skip \/ e.a = "inconclusive" THEN UNCHANGED <<rb, x>> /\ skip' = TRUE
     ELSE IF e.a = "rec" THEN x' = RecordStep(x, e.w, e.t0, e.t1) /\ UNCHANGED <<rb, skip>>
     ELSE /\ TLCSet(3, TLCGet(3) + Len(e.out))
          /\ LET notes == BuildNotes(x, rb, e.out) IN IF notes = {} THEN TRUE ELSE Note(e, notes)
          /\ x' = BuildStep(x, e.out) /\ UNCHANGED <<rb, skip>>

HW == TLCSet(1, IF TLCGet(1) < l THEN l ELSE TLCGet(1))
ASSUME TLCSet(1, 0) /\ TLCSet(2, 0) /\ TLCSet(3, 0) /\ \A i \in DOMAIN Clauses : TLCSet(10 + i, 0)
Post == /\ PrintT(<<"GROWTHCOUNT", TLCGet(2), TLCGet(3)>>)
        /\ \A i \in DOMAIN Clauses : PrintT(<<"GROWTHCLAUSE", Clauses[i], TLCGet(10 + i)>>)
        /\ PrintT(<<"HW", TLCGet(1), Len(Trace)>>) /\ TLCGet(1) = Len(Trace) + 1
=============================================================================

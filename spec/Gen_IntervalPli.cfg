INIT Init
NEXT Next
CONSTANTS
  Cap = 1
  L = 2
  Periodic = TRUE
  Warms = {0}
CONSTRAINT Leaf
CHECK_DEADLOCK FALSE

INIT Init
NEXT Next
CONSTANTS
  Cap = 1
  L = 2
  Periodic = TRUE
  Warms = {0}
  Sim = FALSE
CONSTRAINT Leaf
CHECK_DEADLOCK FALSE

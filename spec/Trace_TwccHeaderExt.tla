----------------------- MODULE Trace_TwccHeaderExt -----------------------
(* (T) validates traces recorded from the real twcc.HeaderExtensionInterceptor against TwccHeaderExt (C15).
   Sequential level (one event per Write, canonical packet records):
     reset {base}                          new instance whose counter is at `base` (modulo M)
     bind  {s, id}                         BindLocalStream; id = negotiated transport-cc extension id, 0 = none
     write {s, in, outs, ds, ok}           header+payload written on stream s, what reached the next writer(s)
                                           (outs) and which stream's writer got it (ds)
   Concurrent level (k goroutines; per-goroutine observations merged by unwrapped number, run-length encoded):
     run   {g, from, w, n, li}             goroutine g's packets number li .. li+n-1 (its own order) carried the
                                           consecutive numbers from .. from+n-1 (w = wire value of the first)
     bad   {g, li, why}                    a packet left without the extension / Write failed
     plain {g, n, touched, cross}          n packets written on a stream that did not negotiate; touched of them were
                                           modified; cross = packets delivered to another stream's writer
     end   {total}                         the script has written `total` packets on negotiated streams
   Event i of the merged log must carry base + i: a duplicate or a gap fails at its position. *)
EXTENDS TwccHeaderExt, Json, IOUtils
Trace == ndJsonDeserialize(IOEnv.VERIF_TRACE)
KnownSeq == ndJsonDeserialize(IOEnv.VERIF_KNOWN)
Known == {KnownSeq[i].tag : i \in DOMAIN KnownSeq}

VARIABLES l, base, ctr, ids, own, devs, taint
vars == <<l, base, ctr, ids, own, devs, taint>>
\* ctr = allocations since the reset (true value = base + ctr); own[g] = packets goroutine g has accounted for

Fn(f, k, d) == IF k \in DOMAIN f THEN f[k] ELSE d
Put(f, k, v) == [x \in DOMAIN f \cup {k} |-> IF x = k THEN v ELSE f[x]]

Init == l = 1 /\ base = 0 /\ ctr = 0 /\ ids = <<>> /\ own = <<>> /\ devs = {} /\ taint = ""

Accept(e) ==
  CASE e.a = "bind" -> TRUE
    [] e.a = "write" -> /\ e.s \in DOMAIN ids
                        /\ e.ok /\ Len(e.outs) = 1 /\ e.ds = <<e.s>>          \* forwarded exactly once, to its own stream
                        /\ OutOK(base + ctr, ids[e.s], e.in, e.outs[1])
    [] e.a = "run" -> /\ e.from = ctr                                         \* no gap, no duplicate
                      /\ e.w = Res16(base + ctr)
                      /\ e.li = Fn(own, e.g, 0)                               \* g's own numbers are strictly increasing
                      /\ e.n >= 1
    [] e.a = "plain" -> e.touched = 0 /\ e.cross = 0
    [] e.a = "end" -> e.total = ctr
    [] OTHER -> FALSE                                                         \* "bad" and unknown events

Step(e) ==
  CASE e.a = "bind" -> ids' = Put(ids, e.s, e.id) /\ UNCHANGED <<ctr, own>>
    [] e.a = "write" -> ctr' = CtrStep(ctr, ids[e.s]) /\ UNCHANGED <<ids, own>>
    [] e.a = "run" -> ctr' = ctr + e.n /\ own' = Put(own, e.g, e.li + e.n) /\ UNCHANGED ids
    [] OTHER -> UNCHANGED <<ctr, ids, own>>

Why(e) ==
  IF e.a = "write" /\ e.s \in DOMAIN ids /\ Len(e.outs) = 1
  THEN <<"stream id", ids[e.s], "number", Res16(base + ctr), "changed fields", Changed(e.in, e.outs[1]),
         "in.x/xp/xs", e.in.x, e.in.xp, e.in.xs, "out.x/xp/xs", e.outs[1].x, e.outs[1].xp, e.outs[1].xs>>
  ELSE IF e.a = "run" THEN <<"expected from", ctr, "wire", Res16(base + ctr), "own index", Fn(own, e.g, 0), "logged", e>>
  ELSE <<"event", e>>

NewDevs(e) == {}

Next ==
  /\ l <= Len(Trace)
  /\ LET e == Trace[l] IN
     IF e.a = "reset" THEN
        /\ base' = e.base /\ ctr' = 0 /\ ids' = <<>> /\ own' = <<>> /\ devs' = {} /\ taint' = "" /\ l' = l + 1
     ELSE IF taint # "" THEN l' = l + 1 /\ UNCHANGED <<base, ctr, ids, own, devs, taint>>
     ELSE IF Accept(e) THEN
        /\ Step(e) /\ devs' = devs \cup NewDevs(e) /\ l' = l + 1 /\ UNCHANGED <<base, taint>>
     ELSE LET k == (devs \cup NewDevs(e)) \cap Known IN
        IF k # {} THEN /\ PrintT(<<"KNOWNDEV", l, CHOOSE t \in k : TRUE>>)
                       /\ taint' = (CHOOSE t \in k : TRUE) /\ l' = l + 1 /\ UNCHANGED <<base, ctr, ids, own, devs>>
        ELSE PrintT(<<"MISMATCH", l, e.a, Why(e)>>) /\ FALSE

HW == TLCSet(1, IF TLCGet(1) < l THEN l ELSE TLCGet(1))
ASSUME TLCSet(1, 0)
Post == PrintT(<<"HW", TLCGet(1), Len(Trace)>>) /\ TLCGet(1) = Len(Trace) + 1
=============================================================================

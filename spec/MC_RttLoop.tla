---------------------------- MODULE MC_RttLoop ----------------------------
(* (M) the round-trip-time loop of RttLoop.tla, model checked at small constants.

   A sends up to MaxOut sender reports (Path = "rr") or RRTR blocks (Path = "xr"); the network delivers each of them
   to B at most once, after any delay and in ANY order (so several are in flight and B may hold an older one than A
   sent last); B reports up to MaxRep times after any holding time; the network delivers each report to A at most
   once, after any delay, in any order, or never (lost).  Every action advances the one global time by a member of
   Dts; A's clock reads the global time, B's clock reads global time + off (off chosen freely at the start).
   The middle form repeats after SecMod = 4 s here (65536 s in the code) and A's epoch lies WrapIns seconds before a
   zero of the middle form, so stamping before / at / after the wrap and reports that cross it are all reachable;
   A remembers K = 2 reports (5 in the code), so a report that names an evicted one is reachable with 3.
   The 1/65536 s wire unit, the millisecond clocks and the +-1 unit ReceiverReport.tla grants DLSR are the real ones
   (they are literals of the hop specifications).

   LoopOK is the end-to-end property in terms of GHOST values only (send instants, arrival instants, which report B
   held): whenever a report reaches A, A's statistics show one more measurement of d1 + d2 within the resolution
   [-u, 2u), or - if the wire format cannot name the report any more - are unchanged.

   Variant selects a negative control (a composition that must FAIL):
     "dlsr_ms"   B reports the holding time in milliseconds instead of 1/65536 s
     "wrong_sr"  A takes the delay against the newest report it remembers instead of the one LSR names
     "no_trunc"  A compares LSR with the untruncated seconds of its history (middle form without the modulus)  *)
EXTENDS RttLoop
CONSTANTS Path, Variant, MaxOut, MaxRep, Dts, Offs, WrapIns, DlsrTol, MaxT

VARIABLES s,      \* the two endpoints (RttLoop!LInit)
          now,    \* global time, ms
          off,    \* B's clock - A's clock
          c,      \* [wrapIn]
          outs,   \* reports A sent: [t (instant), mid (wire), arr (global arrival at B, -1 = not yet / lost)]
          held,   \* index in outs of the report B holds (0: none)
          reps,   \* reports B sent: [lsr, dlsr, sent (global), of (index B held), dlv]
          chk     \* ghost record about the last delivery to A
vars == <<s, now, off, c, outs, held, reps, chk>>

None == [kind |-> "none"]
OffsStd == {0, 7777, -3000}      \* (a .cfg cannot hold a negative number)
OffsOne == {-3000}

Init == /\ s = LInit /\ now = 0 /\ off \in Offs /\ c \in {[wrapIn |-> w] : w \in WrapIns}
        /\ outs = <<>> /\ held = 0 /\ reps = <<>> /\ chk = None

\* the middle form A's side remembers for its report (negative control: not reduced modulo SecMod)
MidA(n) == IF Variant = "no_trunc" THEN <<n.sec - c.wrapIn, n.frac \div 16>> ELSE Mid(c, n)

Send(t) ==
  /\ Len(outs) < MaxOut
  /\ LET n == NtpOf(t)
         s1 == ASend(Path, c, s, t, n) IN
     /\ s' = IF Variant = "no_trunc"
             THEN (IF Path = "rr" THEN [s1 EXCEPT !.asr = STm!Push(s.asr, MidA(n))]
                                  ELSE [s1 EXCEPT !.axr = STm!Push(s.axr, MidA(n))])
             ELSE s1
     /\ outs' = Append(outs, [t |-> t, mid |-> Mid(c, n), arr |-> -1])
  /\ chk' = None /\ UNCHANGED <<held, reps>>

Deliver(i, t) ==
  /\ outs[i].arr = -1
  /\ s' = BRecv(Path, s, outs[i].mid, t + off)
  /\ outs' = [outs EXCEPT ![i].arr = t] /\ held' = i
  /\ chk' = None /\ UNCHANGED reps

Report(t) ==
  /\ Len(reps) < MaxRep
  /\ LET o == BOut(Path, s, t + off) IN
     \E e \in (IF DlsrTol /\ held > 0 THEN {-1, 0, 1} ELSE {0}) :
        LET d == IF Variant = "dlsr_ms" /\ held > 0 THEN t - outs[held].arr ELSE o.dlsr + e IN
        /\ d >= 0
        /\ (Variant # "dlsr_ms" => BAccept(Path, s, t + off, [lsr |-> o.lsr, dlsr |-> d]))
        /\ reps' = Append(reps, [lsr |-> o.lsr, dlsr |-> d, sent |-> t, of |-> held, dlv |-> FALSE])
  /\ s' = BReported(Path, s)
  /\ chk' = None /\ UNCHANGED <<outs, held>>

\* ---- the expectation, from ghost values only ----
Window == {i \in DOMAIN outs : i > Len(outs) - K}                 \* what A still remembers
NoAlias(i) == \A j \in Window : ~Aliased(outs[i].t, outs[j].t)
Expect(j) ==
  LET r == reps[j]  i == r.of IN
  /\ i > 0 /\ (\E k \in Window : outs[k].t = outs[i].t)      \* (reports stamped at one instant are one report on the wire)
  /\ ~HeldBelowUnit(r.dlsr) /\ ~StampedAtZero(c, outs[i].t)
Ideal(j, t) == LET r == reps[j]  i == r.of IN (outs[i].arr - outs[i].t) + (t - r.sent)      \* d1 + d2

Receive(j, t) ==
  /\ ~reps[j].dlv
  /\ LET r == reps[j]
         lsr == IF Variant = "wrong_sr"
                THEN (IF Path = "rr" THEN (IF s.asr = <<>> THEN NoMid ELSE s.asr[Len(s.asr)])
                                     ELSE (IF s.axr = <<>> THEN NoMid ELSE s.axr[Len(s.axr)]))
                ELSE r.lsr IN
     /\ s' = ARecv(Path, s, lsr, r.dlsr, t)
     /\ chk' = [kind |-> "recv", j |-> j,
                cond |-> r.of = 0 \/ NoAlias(r.of),            \* the property is conditional on no aliasing
                expect |-> Expect(j), D |-> IF r.of > 0 THEN Ideal(j, t) ELSE 0,
                before |-> Obs(Path, s), after |-> Obs(Path, s'),
                otherB |-> Obs(IF Path = "rr" THEN "xr" ELSE "rr", s),
                otherA |-> Obs(IF Path = "rr" THEN "xr" ELSE "rr", s')]
  /\ reps' = [reps EXCEPT ![j].dlv = TRUE]
  /\ UNCHANGED <<outs, held>>

Next == \E dt \in Dts : LET t == now + dt IN
  /\ t <= MaxT /\ now' = t /\ UNCHANGED <<off, c>>
  /\ \/ Send(t)
     \/ \E i \in DOMAIN outs : Deliver(i, t)
     \/ Report(t)
     \/ \E j \in DOMAIN reps : Receive(j, t)
Spec == Init /\ [][Next]_vars

\* ------------------------------------------------------------------ properties
\* END-TO-END: one more measurement of d1 + d2 within the resolution, or nothing changes
LoopOK ==
  chk.kind = "recv" /\ chk.cond =>
    IF chk.expect
    THEN /\ chk.after.n = chk.before.n + 1
         /\ WithinResolution(chk.after.rtt, chk.D)
         /\ chk.after.tot = STm!RttAdd(chk.before.tot, chk.after.rtt)
    ELSE chk.after = chk.before
\* the other pair's figures are never touched
Separate == chk.kind = "recv" => chk.otherA = chk.otherB
\* A's remembered middle forms stay aligned with the instants Stats.tla remembers
Aligned == Len(s.asr) = Len(s.a.srs) /\ Len(s.axr) = Len(s.a.rrtrs)
\* with exact DLSR (no +-1) the error is in [0, u): checked when DlsrTol is off
Tight == ~DlsrTol /\ chk.kind = "recv" /\ chk.cond /\ chk.expect =>
           ErrQ(chk.after.rtt, chk.D) >= 0 /\ ErrQ(chk.after.rtt, chk.D) < 15625

\* ---- reachability controls (each must be VIOLATED: the interesting situations do occur) ----
\* a measurement whose SR was stamped before the zero of the middle form and whose report arrived after it
NegAcrossWrap == ~(chk.kind = "recv" /\ chk.expect /\ chk.cond /\ chk.after.n = chk.before.n + 1
                   /\ outs[reps[chk.j].of].t < 1000 * c.wrapIn /\ now > 1000 * c.wrapIn)
\* a report naming an evicted SR
NegEvicted == ~(chk.kind = "recv" /\ reps[chk.j].of > 0 /\ ~chk.expect /\ reps[chk.j].dlsr > 0
                /\ ~StampedAtZero(c, outs[reps[chk.j].of].t))
\* a report matched to an SR that is not the newest one A remembers
NegOlder == ~(chk.kind = "recv" /\ chk.expect /\ reps[chk.j].of < Len(outs))
=============================================================================

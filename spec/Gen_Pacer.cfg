INIT Init
NEXT Next
CONSTANTS
  BurstFloor = 12000
  Kind = "pacing"
  L = 2
  Rates <- RatesTB
  Ivals <- Iv15
CONSTRAINT Leaf
CHECK_DEADLOCK FALSE

----------------------------- MODULE GccOveruse -----------------------------
(* Growth of the C16 specification: the discrete part of the overuse detector and the rate-controller state.
   (Behaviour of the code as read, not stated by C16: divergences are NOTEs.)

   pkg/gcc/adaptive_threshold.go compare()   estimate vs. threshold -> over / under / normal; the threshold ADAPTATION
                                             is float arithmetic and stays abstract: the threshold in force at each
                                             step is an input
   pkg/gcc/overuse_detector.go onDelayStats  hysteresis: overuse is signalled only after more than one consecutive
                                             over-threshold sample, lasting longer than the overuse time, and only
                                             while the estimate is not decreasing
   pkg/gcc/state.go + rate_controller.go     the controller state driven by the usage sequence

   Units: estimates and thresholds in microseconds, elapsed times in nanoseconds (integers). *)
EXTENDS Integers, Sequences, TLC

CONSTANTS OT,          \* overuse time: 10 000 000 ns
          MaxDeltas,   \* 60
          MaxTh        \* adaptiveThreshold.max: 600 000 us (returned while fewer than 2 samples were seen)

Min2(a, b) == IF a < b THEN a ELSE b

\* ---- adaptiveThreshold.compare -------------------------------------------------------------------------------------
\* nd = numDeltas before the call; result [use, est, th]: usage, the scaled estimate, the threshold that was in force
Compare(nd, est, th) ==
  IF nd + 1 < 2 THEN [use |-> "normal", est |-> est, th |-> MaxTh]
  ELSE LET t == Min2(nd + 1, MaxDeltas) * est IN
       [use |-> IF t > th THEN "overuse" ELSE IF t < -th THEN "underuse" ELSE "normal", est |-> t, th |-> th]

\* ---- overuseDetector.onDelayStats ----------------------------------------------------------------------------------
\* d = [last, dur, cnt]: last estimate, increasingDuration (ns), increasingCounter
DetFresh == [last |-> 0, dur |-> 0, cnt |-> 0]
\* increasingDuration after a sample that is over the threshold, delta = time since the previous sample (ns)
DurAfter(d, delta) == IF d.dur = 0 THEN delta \div 2 ELSE d.dur + delta
\* c = result of Compare; dur = increasingDuration after the update
DetUse(d, c, dur) ==
  IF c.use = "overuse"
  THEN IF ((OT = 0 /\ d.cnt + 1 > 1) \/ (dur > OT /\ d.cnt + 1 > 1)) /\ c.est > d.last THEN "overuse" ELSE "normal"
  ELSE c.use
DetStep(d, c, dur) ==
  IF c.use = "overuse" THEN [last |-> c.est, dur |-> dur, cnt |-> d.cnt + 1]
  ELSE [last |-> c.est, dur |-> 0, cnt |-> 0]

\* ---- rate-controller state ------------------------------------------------------------------------------------------
Trans(s, u) ==
  CASE s = "hold"     /\ u = "overuse"  -> "decrease"
    [] s = "hold"     /\ u = "normal"   -> "increase"
    [] s = "hold"     /\ u = "underuse" -> "hold"
    [] s = "increase" /\ u = "overuse"  -> "decrease"
    [] s = "increase" /\ u = "normal"   -> "increase"
    [] s = "increase" /\ u = "underuse" -> "hold"
    [] s = "decrease" /\ u = "overuse"  -> "decrease"
    [] s = "decrease" /\ u = "normal"   -> "hold"
    [] s = "decrease" /\ u = "underuse" -> "hold"
    [] OTHER -> "increase"
\* the controller's first sample only initialises it (state increase); afterwards the table is followed from the
\* PREVIOUS state
RcStep(first, s, u) == IF first THEN "increase" ELSE Trans(s, u)
\* what rate_controller.go:85-86 does instead: the incoming sample carries State = 0 (increase) and overwrites the
\* remembered state before the transition is taken
RcMemoryless(first, u) == IF first THEN "increase" ELSE Trans("increase", u)
=============================================================================

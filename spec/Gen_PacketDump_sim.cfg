INIT Init
NEXT SimNext
CONSTANTS
  DIR = {"s", "r"}
  RF = {"all"}
  CF = {"all", "none", "hasfb"}
  PF = {"all", "none", "fb"}
  RFMT = {"bin"}
  CFMT = {"text", "bin", "both", "def"}
  L = 1
  Alpha = "full"
  Sim = TRUE
INVARIANT LeafInv
CHECK_DEADLOCK FALSE

---------------------------- MODULE Gen_GccRate ----------------------------
(* (G) input sequences for the loss-based estimator (Mode "loss") and the rate controller (Mode "rc") at the real constants:
   after a warm-up prefix every sequence of L steps over an alphabet RELATIVE TO THE MACHINE STATE.

   loss:  report (lost of 1000, or an empty report) x virtual time of the report
            lost:  0, 19 / 20 / 21 (2 % and one unit either side), 99 / 100 / 101 (10 %), 500, 1000
            time:  now, now + 1 ms, + 100 ms; lastIncrease + 199.5 / 200 / 200.5 ms; lastDecrease + 199.5 / 200 / 200.5 ms
                   (exactly at the timers and one grid step either side); now + 150 s (the averaging weight is exactly 0)
          getEstimate(w): w = bitrate - 1, bitrate + 1, twice the bitrate, one below the estimator's floor, 0, above its ceiling
   rc:    onReceivedRate(r): 0, the target, the values around "1.5 r = target", 1.5 x and 2 x the target, the decrease
                   average, both edges of its 3-sigma band (10 bit/s inside / outside), the undefined rate (Wide)
          updateRTT(d):      0, 50 ms, -99.5 ms and -100 ms (response time 0 ms), -200 ms, 200 s
          onDelayStats:      usage x State carried by the sample (all nine table entries) x elapsed time 0, 0.5 ms, 1 ms, 50 ms,
                   500 ms, 999.5 ms, 1 s, 1.0005 s, 10 s
   All virtual times are multiples of 500 us (the harness realises them with a guard band, see the harness).
   With the _sim configuration the same alphabets drive seeded random walks of length L. *)
EXTENDS GccRate, Json, Randomization
CONSTANTS L, Mode, Wide
VARIABLES ls, rc, cfg, now, hist, k
vars == <<ls, rc, cfg, now, hist, k>>

Ev(a, lost, n, dt, w, r, d, usage, st) ==
  [a |-> a, lost |-> lost, n |-> n, dt |-> dt, w |-> w, r |-> r, d |-> d, usage |-> usage, st |-> st]
Upd(lost, n, dt) == Ev("upd", lost, n, dt, 0, 0, 0, "", "")
Get(w) == Ev("get", 0, 0, 0, w, 0, 0, "", "")
Recv(r) == Ev("recv", 0, 0, 0, 0, r, 0, "", "")
Rtt(d) == Ev("rtt", 0, 0, 0, 0, 0, d, "", "")
Ds(usage, st, dt) == Ev("ds", 0, 0, dt, 0, 0, 0, usage, st)

\* one event applied to <<ls, rc, now>>
Apply(c, x, e) ==
  LET t == x[3] + e.dt IN
  CASE e.a = "upd"  -> <<LossUpd(x[1], e.lost, e.n, t), x[2], t>>
    [] e.a = "get"  -> <<LossGet(x[1], e.w), x[2], t>>
    [] e.a = "recv" -> <<x[1], RcRecv(x[2], e.r), t>>
    [] e.a = "rtt"  -> <<x[1], RcRtt(x[2], e.d), t>>
    [] e.a = "ds"   -> <<x[1], RcOnDs(c, x[2], e.usage, e.st, t).c, t>>
RECURSIVE Run(_, _, _)
Run(c, x, es) == IF es = <<>> THEN x ELSE Run(c, Apply(c, x, Head(es)), Tail(es))

LossInits == IF Wide THEN {10000, 1000000, 100000000, 0} ELSE {10000, 1000000}
LossWarm == {<<>>,
             <<Upd(500, 1000, 1000)>>,                                             \* a decrease, average exactly 0.5
             <<Upd(0, 1000, 1000), Upd(20, 1000, 100000)>>}                        \* an increase, average between 0 and 2 %
RcCfgs == IF Wide THEN {<<100000, 5000, 50000000>>, <<1000000, 100000, 1000000>>, <<300000, 300000, 2000000>>}
          ELSE {<<100000, 5000, 50000000>>, <<1000000, 100000, 1000000>>}
RcWarm == {<<>>,
           <<Recv(120000), Ds("normal", "increase", 0)>>,
           <<Recv(120000), Rtt(50000), Ds("normal", "increase", 0), Ds("overuse", "increase", 500000), Recv(130000),
             Ds("overuse", "decrease", 500000), Recv(125000)>>,                    \* two decreases: the 3-sigma band is open
           <<Recv(900000), Ds("normal", "increase", 0), Ds("overuse", "increase", 500000), Recv(880000),
             Ds("overuse", "decrease", 100000), Ds("normal", "increase", 1000000), Ds("normal", "increase", 1000000)>>,
           \* two decreases near 100 kbit/s, the received rate halves for eight seconds (uncapped multiplicative increase),
           \* then returns into the band while the target is above 1.5 x the received rate
           <<Recv(100000), Ds("normal", "increase", 0), Ds("overuse", "increase", 500000), Recv(104000),
             Ds("overuse", "increase", 500000), Recv(50000), Ds("normal", "increase", 1000000), Ds("normal", "increase", 1000000),
             Ds("normal", "increase", 1000000), Ds("normal", "increase", 1000000), Ds("normal", "increase", 1000000),
             Ds("normal", "increase", 1000000), Ds("normal", "increase", 1000000), Ds("normal", "increase", 1000000), Recv(102000)>>}

IsLoss == hist[1].n = 1          \* the configuration record says which machine the behaviour drives
Init ==
  /\ k = 0
  /\ \/ /\ Mode \in {"loss", "both"}
        /\ \E i \in LossInits, wu \in LossWarm :
            LET x == Run([min |-> 0, max |-> 0], <<LossFresh(i), RcFresh(0), 0>>, wu) IN
            /\ ls = x[1] /\ rc = x[2] /\ now = x[3] /\ cfg = [min |-> 0, max |-> 0]
            /\ hist = <<Ev("init", 0, 1, 0, i, 0, 0, "", "")>> \o wu
     \/ /\ Mode \in {"rc", "both"}
        /\ \E kc \in RcCfgs, wu \in RcWarm :
            LET c == [min |-> kc[2], max |-> kc[3]]
                x == Run(c, <<LossFresh(0), RcFresh(kc[1]), 0>>, wu) IN
            /\ ls = x[1] /\ rc = x[2] /\ now = x[3] /\ cfg = c
            /\ hist = <<Ev("init", 0, 0, 0, kc[1], kc[2], kc[3], "", "")>> \o wu

Losts == IF Wide THEN {0, 19, 20, 21, 99, 100, 101, 500, 1000} ELSE {0, 19, 20, 21, 100, 101, 500}
After(t, ds) == IF t = Never THEN {} ELSE {t + d : d \in ds}
LossTimes == LET edge == IF Wide THEN {199500, 200000, 200500} ELSE {200000, 200500} IN
             {t \in ({now + 1000, now + 150000000} \cup (IF Wide THEN {now, now + 100000} ELSE {}) \cup After(ls.ti, edge) \cup After(ls.td, edge)) :
                 t >= now /\ t < 1900000000}
LossAlphabet ==
  {Upd(lost, 1000, t - now) : lost \in Losts, t \in LossTimes} \cup {Upd(0, 0, 1000)}
  \cup {Get(w) : w \in {ls.b - 1, ls.b + 1, LMin - 1, 0} \cup (IF Wide THEN {2 * ls.b, LMax + 1} ELSE {})}

BFloorK(x) == BInt(BDivS(x, 1000))                 \* 1/1000 bit/s -> bit/s
RcRecvs ==
  LET t == rc.target
      e == rc.ema
      band == IF e.z \/ e.wild THEN {}
              ELSE LET a == BFloorK(e.avg)
                       s3 == 3 * EmaSdApprox(e) IN
                   {a} \cup (IF s3 > 20 THEN {a - s3 + 10, a + s3 - 10, a - s3 - 10, a + s3 + 10} ELSE {}) IN
  {x \in ({0, t, (3 * t) \div 2, (2 * t) \div 3, (2 * t) \div 3 + 1, 2 * t} \cup band) : x >= 0 /\ x < 1000000000}
  \cup (IF Wide THEN {RUndef} ELSE {})
RcRtts == {0, 50000, -100000, -200000, 200000000} \cup (IF Wide THEN {-99500} ELSE {})
RcDts == IF Wide THEN {0, 500, 1000, 50000, 500000, 999500, 1000000, 1000500, 10000000} ELSE {0, 1000, 500000, 1000000}
RcAlphabet ==
  {Recv(x) : x \in RcRecvs} \cup {Rtt(d) : d \in RcRtts}
  \cup {Ds(u, s, dt) : u \in {"overuse", "underuse", "normal"}, s \in {"increase", "decrease", "hold"}, dt \in {d \in RcDts : now + d < 1900000000}}

Next ==
  /\ k < L /\ k' = k + 1
  /\ \E e \in (IF IsLoss THEN LossAlphabet ELSE RcAlphabet) :
       LET x == Apply(cfg, <<ls, rc, now>>, e) IN
       ls' = x[1] /\ rc' = x[2] /\ now' = x[3] /\ hist' = Append(hist, e) /\ UNCHANGED cfg
\* seeded random walks (-simulate): ONE successor per state, drawn by TLC's seeded generator
SimNext ==
  /\ k < L /\ k' = k + 1
  /\ \E e \in {RandomElement(IF IsLoss THEN LossAlphabet ELSE RcAlphabet)} :      \* bound once: e is a value, not an expression
       LET x == Apply(cfg, <<ls, rc, now>>, e) IN
       ls' = x[1] /\ rc' = x[2] /\ now' = x[3] /\ hist' = Append(hist, e) /\ UNCHANGED cfg
Leaf == IF k >= L THEN PrintT(<<"TRACE", ToJson(hist)>>) /\ FALSE ELSE TRUE
LeafInv == k >= L => PrintT(<<"TRACE", ToJson(hist)>>)
=============================================================================

--------------------------- MODULE MC_Attributes ---------------------------
EXTENDS Attributes
VARIABLES cache, last, n
Raws == {[id |-> 1, ok |-> TRUE], [id |-> 2, ok |-> TRUE], [id |-> 3, ok |-> FALSE]}
Init == cache = Empty /\ last = <<FALSE, 0>> /\ n = 0
Next == /\ n < 5 /\ n' = n + 1
        /\ \E slot \in {"h", "c"}, raw \in Raws :
             /\ last' = GetOut(cache, slot, raw) /\ cache' = GetStep(cache, slot, raw)
Spec == Init /\ [][Next]_<<cache, last, n>>
\* a failed parse is never cached, and nothing that was not parsed successfully is ever returned
NeverCachesFailure == cache.h # 3 /\ cache.c # 3 /\ last[2] # 3
\* once something is cached every later lookup returns it
Sticky == [][\A slot \in {"h", "c"} : cache[slot] # 0 => cache'[slot] = cache[slot]]_<<cache, last, n>>
=============================================================================

SPECIFICATION Spec
CONSTANTS
  Cfg <- CfgPoint
  Feeders <- F2
  MaxWrites = 1
  MaxUpd = 2
  MaxGets = 1
  DVals <- DV
  LVals <- LV
  LossLo = 1
  LossHi = 5
  FinalClamp = TRUE
  CloseWaits = TRUE
INVARIANTS InBounds AbsOK Consistent Sub GetterOK ClosedErr NoPanic
PROPERTIES NoPublishAfterClose WriteReturns CloseReturns AllDelivered

SPECIFICATION Spec
CONSTANTS
  M = 4
  MaxSteps = 5
  ClearDetaches = TRUE
  HeadInsertLE = TRUE
  HeadPopClearsPrev = FALSE
INVARIANTS NothingOutside
CHECK_DEADLOCK FALSE

----------------------------- MODULE Trace_Mock -----------------------------
(* (T) validates the executions of the REPOSITORY'S OWN TEST SUITE: every interceptor the repository's tests drive through
   internal/test.MockStream, recorded at MockStream's linearization points (verif hooks commit "MockStream ...",
   recorder harness/repotests/zz_verif_tracemain_test.go.tpl, driver checks/c01_repotests.py).

   One trace = one interceptor instance with all the MockStreams built on it (reset {pkg, ic, kinds, tests}); events in the
   order of the per-process sequence number taken at the hook:
     new   {st, info}                     a MockStream st was constructed on the instance
     wpre / wret  {st, c, pkt, err}       application WriteRTP started / returned             (c = call id)
     wire  {st, c, pkt}                   RTP reached the transport writer (c = the application call whose header object it
                                          is, 0 = originated by the interceptor)
     cwpre / cwire / cwret                the same for WriteRTCP (raw = marshalled compound as hex, sum = feedback summary)
     feed / cfeed                         the test scheduled a packet on the transport's read side
     in / cin  {raw, err, pkt, took}      the transport reader returned bytes / an error to the interceptor
     read / cread {raw, err}              the application side's Read returned
     clpre / clret                        MockStream.Close started / returned

   Only what holds for ANY use of an interceptor behind a MockStream and for ANY timing of the real tickers is demanded;
   the operators are those of the existing modules:
     C01 (verdict)  Trace_Chain!WireOk / SameBut (application RTP reaches the transport once, inside its call, unmodified
                    but for the documented TWCC extension), byte equality for RTCP and for both read directions, errors of
                    the wrapped reader surface, injected traffic leaves the application packet in place.
     notes          C03 NackGen!RecvStep/Missing under the widest window; C04 Trace_NackResp!Form; C05/C06/C08/PLI
                    Trace_Chain!SumOkWith; C07 counters bounded by what was written; C11 nothing originated after Close;
                    C14 FEC ids; C15 TwccHeaderExt!OutOK + one run without duplicates; C17 paced = written, in order;
                    C18 jitter buffer hands out what it was given.
   Left out because they depend on tick timing: completeness of any feedback (a missing number WILL be requested, every
   packet IS reported by the next feedback), NACK repetition limits, report contents that integrate over time (fraction
   lost, jitter, LSR/DLSR, SR NTP/RTP time, TWCC reference time and deltas, RFC 8888 arrival offsets), PLI intervals,
   pacing rates, jitter-buffer playout order.  Not judged either: an error of the interceptor's own on a read or write
   (tests close interceptors directly, which no hook sees, and a closed interceptor may answer with an error - C11), and
   anything about Bind/Unbind/Close fan-out (MockStream binds each direction once and has no Unbind). *)
EXTENDS Integers, Sequences, FiniteSets, TLC, Json, IOUtils
Trace == ndJsonDeserialize(IOEnv.VERIF_TRACE)

VARIABLES l, base, members, lcfg, fly, cfly, pend, inq, cinq, fedq, cfedq, fed, fedTw, xs, jbuf, twSeen, nWr,
          closed, devs, taint
vars == <<l, base, members, lcfg, fly, cfly, pend, inq, cinq, fedq, cfedq, fed, fedTw, xs, jbuf, twSeen, nWr,
          closed, devs, taint>>

\* ---- the existing modules, instantiated on this module's state ------------------------------------------------------
TC == INSTANCE Trace_Chain WITH rcfg <- lcfg, okSeq <- fed, okTw <- fedTw, nW <- nWr, cnt <- <<>>, closedSeen <- closed
NR == INSTANCE Trace_NackResp WITH M <- 65536, size <- 0, cur <- <<>>, gens <- <<>>, bufs <- <<>>, rtx <- <<>>,
                                   content <- <<>>, jobs <- <<>>
NG == INSTANCE NackGen WITH M <- 65536
HE == INSTANCE TwccHeaderExt WITH M <- 65536

\* Everything a stream has sent is history that only the retransmission clause consults; it grows to thousands of packet
\* records in the repository's race tests, and as a state variable TLC would serialise and fingerprint it at every event
\* (measured: 10 s instead of 4 s).  It lives in TLC register 2 instead: the trace is a single path explored by one worker,
\* so the register at event l holds exactly what the events before l put there (as register 1 does for the high-water mark).
Sent == TLCGet(2)

Range(f) == {f[i] : i \in DOMAIN f}
Fn(f, k, d) == IF k \in DOMAIN f THEN f[k] ELSE d
Put(f, k, v) == [x \in DOMAIN f \cup {k} |-> IF x = k THEN v ELSE f[x]]
Del(f, k) == [x \in DOMAIN f \ {k} |-> f[x]]
Has(k) == k \in Range(members)
\* remove the first element equal to v
RemoveOne(s, v) == LET I == {i \in DOMAIN s : s[i] = v} IN
                   IF I = {} THEN s
                   ELSE LET k == CHOOSE i \in I : \A j \in I : i <= j IN SubSeq(s, 1, k - 1) \o SubSeq(s, k + 1, Len(s))

\* kind names of Trace_Chain.tla / lib/vlib.py for the dynamic types the recorder prints; an unknown type is held to the
\* full pass-through clauses
KindOf(t) ==
  CASE t = "interceptor.NoOp" -> "noop"
    [] t = "nack.GeneratorInterceptor" -> "nackgen"           [] t = "nack.ResponderInterceptor" -> "nackresp"
    [] t = "report.ReceiverInterceptor" -> "rrecv"            [] t = "report.SenderInterceptor" -> "rsend"
    [] t = "twcc.SenderInterceptor" -> "twccsend"             [] t = "twcc.HeaderExtensionInterceptor" -> "twcchdr"
    [] t = "rfc8888.SenderInterceptor" -> "rfc8888"           [] t = "rtpfb.Interceptor" -> "rtpfb"
    [] t = "stats.Interceptor" -> "stats"                     [] t = "intervalpli.GeneratorInterceptor" -> "pli"
    [] t = "packetdump.ReceiverInterceptor" -> "pdrecv"       [] t = "packetdump.SenderInterceptor" -> "pdsend"
    [] t = "flexfec.FecInterceptor" -> "flexfec"              [] t = "cc.Interceptor" -> "cc"
    [] t = "pacing.Interceptor" -> "pacing"                   [] t = "jitterbuffer.ReceiverInterceptor" -> "jitter"
    [] OTHER -> t
\* C01 speaks about non-buffering members: these hold packets back on the write / on the read side
WriteBuffered == Has("pacing") \/ Has("cc")
ReadBuffered == Has("jitter")

Init == /\ l = 1 /\ base = 0 /\ members = <<>> /\ lcfg = <<>> /\ fly = <<>> /\ cfly = <<>> /\ pend = <<>>
        /\ inq = <<>> /\ cinq = <<>> /\ fedq = <<>> /\ cfedq = <<>> /\ fed = <<>> /\ fedTw = {} /\ xs = <<>> /\ jbuf = <<>>
        /\ twSeen = {} /\ nWr = <<>> /\ closed = FALSE /\ devs = {} /\ taint = ""

\* ---- helpers over the logged records ------------------------------------------------------------------------------------
Info(st) == lcfg[st]
Key(p) == <<p.seq, p.ssrc, p.ts>>
StreamsOf(ssrc) == {st \in DOMAIN lcfg : lcfg[st].ssrc = ssrc}
MaybeRead(ssrc) == UNION {Fn(fed, st, {}) : st \in StreamsOf(ssrc)}
\* the transport-wide number an RTP record carries under extension id (or -1)
TwNum(p, id) == LET m == HE!Mine(p.xs, id) IN
                IF id # 0 /\ p.x /\ m # <<>> /\ Len(m[1].d) = 2 THEN m[1].d[1] * 256 + m[1].d[2] ELSE -1
\* signed distance of two 16-bit numbers (half-range rule)
Dist(a, b) == ((a - b + 32768) % 65536) - 32768
Widest == [size |-> 32768, skip |-> 0, max |-> 0]          \* the widest window the NACK generator can be configured with
RtxOf(st) == <<Info(st).rtxssrc, Info(st).rtxpt>>

\* ---- C03: a NACK is explained by SOME prefix of what the stream received (the generator computed it at some tick between
\* two reads; the write may be logged later), under the widest window: nothing ahead of the highest, nothing received,
\* nothing before the first packet.  One stream per SSRC only (a second bind of the SSRC replaces the generator's log).
NackExplained(x) ==
  LET S == StreamsOf(x.ssrc) IN
  Cardinality(S) = 1 =>
    LET st == CHOOSE s \in S : TRUE  h == Fn(xs, st, <<>>) IN
    \E i \in DOMAIN h : Range(x.nums) \subseteq {NG!Res(t) : t \in NG!Missing(Widest, h[i])}

\* ---- the clause table: [n: name, cls: property that owns it, on: applies to this event, ok: holds] --------------------
C(n, cls, on, ok) == [n |-> n, cls |-> cls, on |-> on, ok |-> (on => ok)]
SumClauses(e) ==
  UNION {LET x == e.sum[i] IN
         {C("NackExplained", "C03", x.t = "nack", NackExplained(x)),
          C("NackBehindARead", "C03", x.t = "nack", TC!SumOkWith(x, {}, MaybeRead(x.ssrc), fedTw, TRUE)),
          C("TwccFbNamesReadOnly", "C05", x.t = "twcc", TC!SumOkWith(x, {}, {}, fedTw, TRUE)),
          C("RrHighestWasRead", "C06", x.t = "rr", TC!SumOkWith(x, {}, MaybeRead(x.ssrc), fedTw, TRUE)),
          C("CcfbNamesReadOnly", "C08", x.t = "ccfb", TC!SumOkWith(x, {}, MaybeRead(x.ssrc), fedTw, TRUE)),
          C("PliNamesBoundStream", "C11", x.t = "pli", TC!SumOkWith(x, {}, {}, {}, StreamsOf(x.ssrc) # {})),
          C("SrCountsBounded", "C07", x.t = "sr" /\ members = <<"rsend">>,
            LET w == [st \in StreamsOf(x.ssrc) |-> Fn(nWr, st, <<0, 0>>)] IN
            \E st \in DOMAIN w : x.hi >= 0 /\ x.hi <= w[st][1] /\ x.cyc >= 0 /\ x.cyc <= w[st][2])}
         : i \in DOMAIN e.sum}

\* how often the packet of an application write reached the transport during the call: as the caller's own header object
\* (hits), or - a member may forward a copy of the header - as a packet of another header object with the same content (anon)
Arrived(w) == IF w.hits # <<>> THEN Len(w.hits)
              ELSE Cardinality({i \in DOMAIN w.anon : TC!WireOk(w.st, w.pkt, w.anon[i])})

CArrived(w) == IF w.hits # <<>> THEN Len(w.hits) ELSE Cardinality({i \in DOMAIN w.anon : w.rawok /\ w.anon[i] = w.raw})

Quiet == DOMAIN fly = {} /\ DOMAIN cfly = {}          \* no application write is in progress on this instance

Clauses(e) ==
  CASE e.a = "wret" ->
         {C("CallKnown", "BIND", TRUE, e.c \in DOMAIN fly),
          C("AppRtpOnce", "C01", ~WriteBuffered /\ e.c \in DOMAIN fly /\ e.err = "", Arrived(fly[e.c]) = 1),
          C("AppRtpErrSurfaces", "C01", ~WriteBuffered /\ e.c \in DOMAIN fly /\ e.err # "", Arrived(fly[e.c]) <= 1)}
    [] e.a = "wire" /\ e.c # 0 ->
         {C("CallKnown", "BIND", TRUE, e.c \in DOMAIN fly),
          C("AppRtpUnmodified", "C01", e.c \in DOMAIN fly, TC!WireOk(e.st, fly[e.c].pkt, e.pkt)),
          C("TwccHeaderOutOK", "C15", e.c \in DOMAIN fly /\ TC!AddsTwcc(e.st),
            HE!OutOK(TwNum(e.pkt, Info(e.st).twcc), Info(e.st).twcc, fly[e.c].pkt, e.pkt)),
          C("TwccOneRunNoDuplicates", "C15", e.c \in DOMAIN fly /\ TC!AddsTwcc(e.st) /\ TwNum(e.pkt, Info(e.st).twcc) >= 0,
            LET n == TwNum(e.pkt, Info(e.st).twcc)
                S == twSeen \cup {n}
                first == CHOOSE f \in S : \A g \in S : Dist(g, f) >= 0
                last == CHOOSE f \in S : \A g \in S : Dist(g, f) <= 0 IN
            \* a hole in the run belongs to a write that has its number but has not reached the transport yet
            /\ n \notin twSeen
            /\ Dist(last, first) + 1 - Cardinality(S) <= Cardinality(DOMAIN fly) - 1)}
    [] e.a = "wire" /\ e.c = 0 ->
         {C("RetransmissionAsWritten", "C04",
            /\ Has("nackresp") /\ ~Has("twcchdr")
            /\ e.pkt.ssrc = Info(e.st).ssrc \/ (NR!IsRtx(RtxOf(e.st)) /\ e.pkt.ssrc = Info(e.st).rtxssrc),
            \* the original number: the packet's own, or the 2-byte prefix of an RFC 4588 payload
            LET rtx == e.pkt.ssrc # Info(e.st).ssrc
                osn == IF ~rtx THEN e.pkt.seq ELSE IF Len(e.pkt.pl) >= 2 THEN e.pkt.pl[1] * 256 + e.pkt.pl[2] ELSE -1 IN
            \E p \in Fn(Fn(Sent, e.st, <<>>), osn, {}) :
               e.pkt = NR!Form(p, IF rtx THEN RtxOf(e.st) ELSE NR!NoRtx, e.pkt.seq)),
          C("FecUsesNegotiatedIds", "C14", members = <<"flexfec">>,
            Info(e.st).fecssrc # 0 /\ e.pkt.ssrc = Info(e.st).fecssrc /\ e.pkt.pt = Info(e.st).fecpt),
          C("PacedIsWrittenInOrder", "C17", WriteBuffered,
            Fn(pend, e.st, <<>>) # <<>> /\ Head(pend[e.st]) = e.pkt),
          C("NothingOriginatedAfterClose", "C11", closed /\ Quiet /\ ~WriteBuffered, FALSE)}
    [] e.a = "cwret" ->
         {C("CallKnown", "BIND", TRUE, e.c \in DOMAIN cfly),
          C("AppRtcpOnce", "C01", e.c \in DOMAIN cfly /\ e.err = "", CArrived(cfly[e.c]) = 1),
          C("AppRtcpErrSurfaces", "C01", e.c \in DOMAIN cfly /\ e.err # "", CArrived(cfly[e.c]) <= 1)}
    [] e.a = "cwire" /\ e.c # 0 ->
         {C("CallKnown", "BIND", TRUE, e.c \in DOMAIN cfly),
          C("AppRtcpUnmodified", "C01", e.c \in DOMAIN cfly,
            LET w == cfly[e.c] IN e.np = w.np /\ e.sum = w.sum /\ e.rawok = w.rawok /\ e.raw = w.raw)}
    [] e.a = "cwire" /\ e.c = 0 ->
         SumClauses(e) \cup {C("NothingOriginatedAfterClose", "C11", closed /\ Quiet, FALSE)}
    [] e.a = "in" ->
         {C("InWasFed", "BIND", e.took, \E i \in DOMAIN Fn(fedq, e.st, <<>>) : fedq[e.st][i] = Key(e.pkt))}
    [] e.a = "cin" ->
         {C("InWasFed", "BIND", e.took /\ e.err = "", \E i \in DOMAIN Fn(cfedq, e.st, <<>>) : cfedq[e.st][i] = e.raw)}
    \* an error of the interceptor's own on a read (the transport had delivered a packet) is not judged: tests close
    \* interceptors directly, which no hook sees, and a closed interceptor may answer with an error (C11)
    [] e.a = "read" ->
         LET q == Fn(inq, e.st, <<>>) IN
         {C("ReadRtpUnmodified", "C01", ~ReadBuffered /\ e.err = "", q # <<>> /\ Head(q).err = "" /\ Head(q).raw = e.raw),
          C("ReadErrSurfaces", "C01", ~ReadBuffered /\ q # <<>> /\ Head(q).err # "", Head(q).err = e.err),
          C("JitterHandsOutWhatItWasGiven", "C18", ReadBuffered /\ e.err = "",
            \E i \in DOMAIN Fn(jbuf, e.st, <<>>) : jbuf[e.st][i] = e.raw)}
    [] e.a = "cread" ->
         LET q == Fn(cinq, e.st, <<>>) IN
         {C("ReadRtcpUnmodified", "C01", e.err = "", q # <<>> /\ Head(q).err = "" /\ Head(q).raw = e.raw),
          C("ReadErrSurfaces", "C01", q # <<>> /\ Head(q).err # "", Head(q).err = e.err)}
    [] OTHER -> {}

\* ---- state ---------------------------------------------------------------------------------------------------------------
App(q, st, v) == Put(q, st, Append(Fn(q, st, <<>>), v))
Pop(q, st) == IF Fn(q, st, <<>>) = <<>> THEN q ELSE Put(q, st, Tail(q[st]))
Step(e) ==
  /\ members' = members
  /\ lcfg' = IF e.a = "new" THEN Put(lcfg, e.st, e.info) ELSE lcfg
  /\ fly' = CASE e.a = "wpre" -> Put(fly, e.c, [st |-> e.st, pkt |-> e.pkt, hits |-> <<>>, anon |-> <<>>])
              [] e.a = "wire" /\ e.c \in DOMAIN fly -> [fly EXCEPT ![e.c].hits = Append(@, e.pkt)]
              [] e.a = "wire" /\ e.c = 0 ->
                   [c \in DOMAIN fly |-> IF fly[c].st = e.st THEN [fly[c] EXCEPT !.anon = Append(@, e.pkt)] ELSE fly[c]]
              [] e.a = "wret" -> Del(fly, e.c)
              [] OTHER -> fly
  /\ cfly' = CASE e.a = "cwpre" -> Put(cfly, e.c, [st |-> e.st, raw |-> e.raw, rawok |-> e.rawok, np |-> e.np, sum |-> e.sum, hits |-> <<>>,
                                                    anon |-> <<>>])
               [] e.a = "cwire" /\ e.c \in DOMAIN cfly -> [cfly EXCEPT ![e.c].hits = Append(@, e.raw)]
               [] e.a = "cwire" /\ e.c = 0 ->
                    [c \in DOMAIN cfly |-> IF cfly[c].st = e.st THEN [cfly[c] EXCEPT !.anon = Append(@, e.raw)] ELSE cfly[c]]
               [] e.a = "cwret" -> Del(cfly, e.c)
               [] OTHER -> cfly
  \* application packets as they reached the transport, by stream and sequence number (RtpBuffer.tla: any packet sent with
  \* the number).  History only: kept in a TLC register, see Sent.
  /\ IF e.a = "wire" /\ e.c # 0 /\ Has("nackresp")
     THEN LET f == Fn(Sent, e.st, <<>>) IN
          TLCSet(2, (e.st :> ((e.pkt.seq :> (Fn(f, e.pkt.seq, {}) \cup {e.pkt})) @@ f)) @@ Sent)
     ELSE TRUE
  /\ pend' = CASE e.a = "wpre" /\ WriteBuffered -> App(pend, e.st, e.pkt)
               [] e.a = "wire" /\ WriteBuffered -> Put(pend, e.st, RemoveOne(Fn(pend, e.st, <<>>), e.pkt))
               [] OTHER -> pend
  /\ inq' = CASE e.a = "in" /\ ~ReadBuffered -> App(inq, e.st, [raw |-> e.raw, err |-> e.err])
              [] e.a = "read" /\ ~ReadBuffered -> Pop(inq, e.st)
              [] OTHER -> inq
  /\ cinq' = CASE e.a = "cin" -> App(cinq, e.st, [raw |-> e.raw, err |-> e.err])
               [] e.a = "cread" -> Pop(cinq, e.st)
               [] OTHER -> cinq
  /\ fedq' = CASE e.a = "feed" -> App(fedq, e.st, Key(e.pkt))
               [] e.a = "in" /\ e.took -> Put(fedq, e.st, RemoveOne(Fn(fedq, e.st, <<>>), Key(e.pkt)))
               [] OTHER -> fedq
  /\ cfedq' = CASE e.a = "cfeed" -> App(cfedq, e.st, e.raw)
                [] e.a = "cin" /\ e.took /\ e.err = "" -> Put(cfedq, e.st, RemoveOne(Fn(cfedq, e.st, <<>>), e.raw))
                [] OTHER -> cfedq
  \* what the interceptor MAY have processed: counted from the moment the transport reader hands the packet over
  /\ fed' = IF e.a = "in" /\ e.err = "" /\ e.parsed THEN Put(fed, e.st, Fn(fed, e.st, {}) \cup {e.pkt.seq}) ELSE fed
  /\ fedTw' = IF e.a = "in" /\ e.err = "" /\ e.parsed /\ TwNum(e.pkt, Info(e.st).twcc) >= 0
              THEN fedTw \cup {TwNum(e.pkt, Info(e.st).twcc)} ELSE fedTw
  \* the NACK generator's property-level state after every prefix of the stream's packets (the newest 48 prefixes)
  /\ xs' = IF e.a = "in" /\ e.err = "" /\ e.parsed /\ Has("nackgen")
           THEN LET h == Fn(xs, e.st, <<>>)
                    x == IF h = <<>> THEN NG!Fresh ELSE h[Len(h)]
                    h2 == Append(h, NG!RecvStep(Widest, x, e.pkt.seq)) IN
                Put(xs, e.st, IF Len(h2) > 48 THEN Tail(h2) ELSE h2)
           ELSE xs
  /\ jbuf' = CASE e.a = "in" /\ e.err = "" /\ ReadBuffered -> App(jbuf, e.st, e.raw)
               [] e.a = "read" /\ e.err = "" /\ ReadBuffered -> Put(jbuf, e.st, RemoveOne(Fn(jbuf, e.st, <<>>), e.raw))
               [] OTHER -> jbuf
  /\ twSeen' = IF e.a = "wire" /\ e.c # 0 /\ TC!AddsTwcc(e.st) /\ TwNum(e.pkt, Info(e.st).twcc) >= 0
               THEN twSeen \cup {TwNum(e.pkt, Info(e.st).twcc)} ELSE twSeen
  /\ nWr' = IF e.a = "wpre" THEN LET w == Fn(nWr, e.st, <<0, 0>>) IN Put(nWr, e.st, <<w[1] + 1, w[2] + Len(e.pkt.pl)>>) ELSE nWr
  /\ closed' = (closed \/ e.a = "clret")

\* ---- per-clause hit counters live in TLC registers (one worker): a clause that never fired is vacuous -----------------
Names == <<"CallKnown", "InWasFed",
           "AppRtpOnce", "AppRtpErrSurfaces", "AppRtpUnmodified", "AppRtcpOnce", "AppRtcpErrSurfaces", "AppRtcpUnmodified",
           "ReadRtpUnmodified", "ReadRtcpUnmodified", "ReadErrSurfaces",
           "NackExplained", "NackBehindARead", "RetransmissionAsWritten", "TwccFbNamesReadOnly", "RrHighestWasRead",
           "SrCountsBounded", "CcfbNamesReadOnly", "PliNamesBoundStream", "NothingOriginatedAfterClose",
           "FecUsesNegotiatedIds", "TwccHeaderOutOK", "TwccOneRunNoDuplicates", "PacedIsWrittenInOrder",
           "JitterHandsOutWhatItWasGiven">>
Reg(n) == 10 + (CHOOSE i \in DOMAIN Names : Names[i] = n)
Bump(S) == \A c \in S : c.on => TLCSet(Reg(c.n), TLCGet(Reg(c.n)) + 1)

Next ==
  /\ l <= Len(Trace)
  /\ LET e == Trace[l] IN
     IF e.a = "reset" THEN
        /\ members' = [i \in DOMAIN e.kinds |-> KindOf(e.kinds[i])]
        /\ lcfg' = <<>> /\ fly' = <<>> /\ cfly' = <<>> /\ pend' = <<>> /\ TLCSet(2, <<>>) /\ inq' = <<>> /\ cinq' = <<>>
        /\ fedq' = <<>> /\ cfedq' = <<>> /\ fed' = <<>> /\ fedTw' = {} /\ xs' = <<>> /\ jbuf' = <<>> /\ twSeen' = {}
        /\ nWr' = <<>> /\ closed' = FALSE /\ devs' = {} /\ taint' = "" /\ l' = l + 1 /\ base' = l
     ELSE IF taint # "" THEN
        /\ l' = l + 1
        /\ UNCHANGED <<base, members, lcfg, fly, cfly, pend, inq, cinq, fedq, cfedq, fed, fedTw, xs, jbuf, twSeen, nWr,
                       closed, devs, taint>>
     ELSE LET cl == Clauses(e)
              bad == {c \in cl : ~c.ok}
              hard == {c \in bad : c.cls \in {"C01", "BIND"}} IN
        /\ Bump(cl)
        /\ \A c \in bad \ hard : PrintT(<<"NOTECLAUSE", l, c.cls, c.n>>)
        /\ IF hard = {} THEN Step(e) /\ l' = l + 1 /\ UNCHANGED <<base, devs, taint>>
           ELSE /\ \A c \in hard : PrintT(<<IF c.cls = "BIND" THEN "BINDFAIL" ELSE "MISMATCH", l, c.cls, c.n, "event", e.a>>)
                /\ taint' = "?" /\ l' = l + 1
                /\ UNCHANGED <<base, members, lcfg, fly, cfly, pend, inq, cinq, fedq, cfedq, fed, fedTw, xs, jbuf, twSeen,
                               nWr, closed, devs>>

HW == TLCSet(1, IF TLCGet(1) < l THEN l ELSE TLCGet(1))
ASSUME TLCSet(1, 0) /\ TLCSet(2, <<>>) /\ \A i \in DOMAIN Names : TLCSet(10 + i, 0)
Post == /\ \A i \in DOMAIN Names : PrintT(<<"HIT", Names[i], TLCGet(10 + i)>>)
        /\ PrintT(<<"HW", TLCGet(1), Len(Trace)>>) /\ TLCGet(1) = Len(Trace) + 1
=============================================================================

SPECIFICATION Spec
CONSTANTS
  Size = 3
  MaxSize = 28
  MaxOps = 6
  Allow = 3
INVARIANTS InvBuf InvLog InvFb
CHECK_DEADLOCK FALSE

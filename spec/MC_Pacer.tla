------------------------------ MODULE MC_Pacer ------------------------------
(* (M) the pacer machine with concurrent producers, the timer, a rate change and Close (C17), at scaled-down
   constants: 2 producers x 3 packets, bits 1..4 against a burst floor of 3 (one packet can never be paid for and must be
   refused), rates 1..2 bits/ms.  Write is three steps (call, accept-or-refuse, return) so that every interleaving of
   the two producers with releases, ticks, SetRate and Close is explored; the caller overwrites its buffer as soon as
   Write has returned.  Negative controls: AcceptAll (the oversized packet is accepted -> liveness fails: head-of-line
   blocking for ever), CopyOnAccept = FALSE (the queue keeps a reference to the caller's buffer -> content differs). *)
EXTENDS Pacer
CONSTANTS Kind, Producers, NP, Rates, Ival, MaxRC,
          Clocked, MaxT,          \* Clocked: keep the clock and the envelope (bounded run); else no clock (liveness run)
          AcceptAll, CopyOnAccept,
          Registered              \* streams with a writer (gcc pacers)
VARIABLES st, pc, nxt, buf, stored, acc, retd, before, out, rc, clock, env
vars == <<st, pc, nxt, buf, stored, acc, retd, before, out, rc, clock, env>>

P2 == {1, 2}
R12 == {1, 2}
S12 == {1, 2}
S1 == {1}
Pid(g, k) == 10 * g + k
Pkts == {Pid(g, k) : g \in Producers, k \in 1 .. NP}
\* bits of the packets (4 > BurstFloor: can never be paid for at the lowest rate) and their streams
BitsTab == <<<<1, 4, 3>>, <<3, 2, 4>>>>
Bits(p) == BitsTab[p \div 10][p % 10]
Stream(p) == IF p = 12 THEN 2 ELSE p \div 10

Range(f) == {f[i] : i \in DOMAIN f}
Pos(s, x) == CHOOSE i \in DOMAIN s : s[i] = x
R0 == CHOOSE r \in Rates : \A r2 \in Rates : r <= r2

Init == /\ st = [New(Kind, R0, Ival) EXCEPT !.streams = Registered]
        /\ pc = [g \in Producers |-> "idle"] /\ nxt = [g \in Producers |-> 1] /\ buf = [g \in Producers |-> 0]
        /\ stored = <<>> /\ acc = <<>> /\ retd = {} /\ before = <<>> /\ out = <<>> /\ rc = 0 /\ clock = 0
        /\ env = EnvStart(New(Kind, R0, Ival))

Cur(g) == Pid(g, nxt[g])
Refuses(p) == ~st.open \/ ~Routable(st, Stream(p)) \/ (~AcceptAll /\ ~Releasable(st, Bits(p)))

WriteCall(g) == /\ pc[g] = "idle" /\ nxt[g] <= NP
                /\ pc' = [pc EXCEPT ![g] = "called"] /\ buf' = [buf EXCEPT ![g] = Cur(g)]
                /\ before' = (Cur(g) :> retd) @@ before
                /\ UNCHANGED <<st, nxt, stored, acc, retd, out, rc, clock, env>>
Accept(g) == /\ pc[g] = "called" /\ ~Refuses(Cur(g))
             /\ st' = AcceptStep(st, Cur(g)) /\ acc' = Append(acc, Cur(g))
             /\ stored' = (Cur(g) :> (IF CopyOnAccept THEN buf[g] ELSE -g)) @@ stored
             /\ pc' = [pc EXCEPT ![g] = "acc"]
             /\ UNCHANGED <<nxt, buf, retd, before, out, rc, clock, env>>
Refuse(g) == /\ pc[g] = "called" /\ Refuses(Cur(g))
             /\ pc' = [pc EXCEPT ![g] = "ref"]
             /\ UNCHANGED <<st, nxt, buf, stored, acc, retd, before, out, rc, clock, env>>
WriteRet(g) == /\ pc[g] \in {"acc", "ref"}
               /\ retd' = IF pc[g] = "acc" THEN retd \cup {Cur(g)} ELSE retd
               /\ pc' = [pc EXCEPT ![g] = "idle"] /\ nxt' = [nxt EXCEPT ![g] = @ + 1]
               /\ buf' = [buf EXCEPT ![g] = 0]            \* the caller reuses its buffers
               /\ UNCHANGED <<st, stored, acc, before, out, rc, clock, env>>
Content(p) == IF stored[p] > 0 THEN stored[p] ELSE buf[-stored[p]]
Release == /\ st.q # <<>>
           /\ LET p == Head(st.q) IN
              /\ CanRelease(st, p, Bits(p))
              /\ st' = ReleaseStep(st, Bits(p))
              /\ out' = Append(out, [p |-> p, w |-> Stream(p), c |-> Content(p)])
              /\ env' = EnvRelease(env, Bits(p))
           /\ UNCHANGED <<pc, nxt, buf, stored, acc, retd, before, rc, clock>>
Tick == /\ st' = TickStep(st, st.ival)
        /\ IF Clocked THEN /\ clock < MaxT /\ clock' = clock + st.ival /\ env' = EnvTime(env, st.rate, st.ival)
                      ELSE UNCHANGED <<clock, env>>
        /\ UNCHANGED <<pc, nxt, buf, stored, acc, retd, before, out, rc>>
SetRate(r) == /\ rc < MaxRC /\ r # st.rate /\ st.open
              /\ st' = SetRateStep(st, r) /\ rc' = rc + 1
              /\ env' = EnvBurst(env, Burst(st.kind, r, st.ival))
              /\ UNCHANGED <<pc, nxt, buf, stored, acc, retd, before, out, clock>>
Close == /\ st.open /\ st' = CloseStep(st)
         /\ UNCHANGED <<pc, nxt, buf, stored, acc, retd, before, out, rc, clock, env>>

Next == \/ \E g \in Producers : WriteCall(g) \/ Accept(g) \/ Refuse(g) \/ WriteRet(g)
        \/ Release \/ Tick \/ Close
        \/ \E r \in Rates : SetRate(r)
Spec == Init /\ [][Next]_vars /\ WF_vars(Tick) /\ WF_vars(Release)

\* ---- the clauses of C17 ----
Rel == [i \in DOMAIN out |-> out[i].p]
TypeOK == /\ st.tokens >= 0 /\ st.tokens <= st.burst
          /\ st.q = SubSeq(acc, Len(out) + 1, Len(acc))
\* released = a prefix of the accepted packets in acceptance order: in order, exactly once, nothing skipped, nothing
\* that was refused
Fifo == Rel = SubSeq(acc, 1, Len(out))
\* header and payload at release are those the packet had when it was accepted
ContentOK == \A i \in DOMAIN out : out[i].c = out[i].p
\* handed to the next writer of its own stream
WriterOK == \A i \in DOMAIN out : out[i].w = Stream(out[i].p)
\* acceptance order respects real time: a Write that returned before another was called is ahead of it
RealTimeOrder == \A p \in Range(acc) : \A x \in before[p] : Pos(acc, x) < Pos(acc, p)
\* token bucket: cumulative released bits <= largest burst + sum rate_i * dt_i
Envelope == (Clocked /\ IsTB(Kind)) => EnvOK(env)
\* liveness while open: every accepted packet is eventually released (under fairness of Tick and of the release step)
Live == \A p \in Pkts : ((p \in Range(acc) /\ st.open) ~> (p \in Range(Rel) \/ ~st.open))
=============================================================================

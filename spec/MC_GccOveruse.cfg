SPECIFICATION Spec
CONSTANTS
  OT = 10
  MaxDeltas = 3
  MaxTh = 100
  Ests <- EstsSmall
  Ths = {6, 12}
  Deltas = {1, 6, 12}
  MaxSteps = 5
INVARIANTS Hysteresis PassThrough Counter WarmUp
PROPERTIES NoDirectIncrease
CHECK_DEADLOCK FALSE

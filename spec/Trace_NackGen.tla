-------------------------- MODULE Trace_NackGen --------------------------
(* (T) validates ndjson traces recorded from pkg/nack (receiveLog and GeneratorInterceptor)
   against NackGen.  Events:
     {"a":"reset","size":..,"skip":..,"max":..}      new instance
     {"a":"bind","s":ssrc,"nack":bool}  {"a":"unbind","s":ssrc}
     {"a":"recv","s":ssrc,"w":n16}                    a packet was read successfully on stream s
     {"a":"stale","s":ssrc,"w":n16}                   a straggler was read through the reader of an UNBOUND binding of s
                                                      (no effect on any stream: the event changes no state)
     {"a":"missing","s":ssrc,"out":[n16..]}           receiveLog.missingSeqNumbers(skip) was called
     {"a":"tick","out":[{"s":ssrc,"nums":[n16..]}..]} one pass of the generator loop wrote these NACKs *)
EXTENDS NackGen, Json, IOUtils
Trace == ndJsonDeserialize(IOEnv.VERIF_TRACE)
KnownSeq == ndJsonDeserialize(IOEnv.VERIF_KNOWN)
Known == {KnownSeq[i].tag : i \in DOMAIN KnownSeq}

VARIABLES l, cfg, st, devs, taint
vars == <<l, cfg, st, devs, taint>>

Range(f) == {f[i] : i \in DOMAIN f}
Get(s) == IF s \in DOMAIN st THEN st[s] ELSE Unbound
Put(s, x) == [t \in DOMAIN st \cup {s} |-> IF t = s THEN x ELSE st[t]]

Init == l = 1 /\ cfg = [size |-> 64, skip |-> 0, max |-> 0] /\ st = <<>> /\ devs = {} /\ taint = ""

\* expected observable of event e in the current state
Expected(e) ==
  IF e.a = "missing" THEN {Res(t) : t \in Missing(cfg, Get(e.s))}
  ELSE IF e.a = "tick" THEN TickOut(cfg, st)
  ELSE {}
Logged(e) ==
  IF e.a = "missing" THEN Range(e.out)
  ELSE IF e.a = "tick" THEN [s \in {e.out[i].s : i \in DOMAIN e.out} |->
         UNION {Range(e.out[i].nums) : i \in {j \in DOMAIN e.out : e.out[j].s = s}}]
  ELSE {}
WellFormed(e) ==      \* one NACK per stream and no number listed twice
  IF e.a = "tick" THEN /\ \A i, j \in DOMAIN e.out : e.out[i].s = e.out[j].s => i = j
                       /\ \A i \in DOMAIN e.out : Cardinality(Range(e.out[i].nums)) = Len(e.out[i].nums)
  ELSE IF e.a = "missing" THEN Cardinality(Range(e.out)) = Len(e.out)
  ELSE TRUE

StepState(e) ==
  IF e.a = "bind" THEN IF e.nack THEN Put(e.s, Fresh) ELSE st
  ELSE IF e.a = "unbind" THEN Put(e.s, Unbound)
  ELSE IF e.a = "recv" THEN Put(e.s, RecvStep(cfg, Get(e.s), e.w))
  ELSE IF e.a = "tick" THEN [s \in DOMAIN st |-> TickStep(cfg, st[s])]
  ELSE st

NewDevs(e) ==
  (IF e.a = "recv" /\ LateBeyondWindow(cfg, Get(e.s), e.w) THEN {"C03.LateBeyondWindow"} ELSE {})
  \cup (IF e.a = "missing" /\ FullSpan(cfg, Get(e.s)) THEN {"C03.FullSpan32768"} ELSE {})
  \cup (IF e.a = "tick" /\ \E s \in DOMAIN st : FullSpan(cfg, st[s]) THEN {"C03.FullSpan32768"} ELSE {})
  \cup (IF e.a = "tick" /\ \E s \in DOMAIN st : CountAlias(cfg, st[s]) THEN {"C03.CountAliasAcrossCycle"} ELSE {})

Next ==
  /\ l <= Len(Trace)
  /\ LET e == Trace[l] IN
     IF e.a = "reset" THEN
        /\ cfg' = [size |-> e.size, skip |-> e.skip, max |-> e.max]
        /\ st' = <<>> /\ devs' = {} /\ taint' = "" /\ l' = l + 1
     ELSE IF taint # "" THEN l' = l + 1 /\ UNCHANGED <<cfg, st, devs, taint>>
     ELSE IF WellFormed(e) /\ Expected(e) = Logged(e) THEN
        /\ st' = StepState(e) /\ devs' = devs \cup NewDevs(e) /\ l' = l + 1 /\ UNCHANGED <<cfg, taint>>
     ELSE LET k == (devs \cup NewDevs(e)) \cap Known IN
        IF k # {} THEN /\ PrintT(<<"KNOWNDEV", l, CHOOSE t \in k : TRUE>>)
                       /\ taint' = (CHOOSE t \in k : TRUE) /\ l' = l + 1 /\ UNCHANGED <<cfg, st, devs>>
        ELSE PrintT(<<"MISMATCH", l, "expected", Expected(e), "logged", Logged(e), "devs", devs \cup NewDevs(e)>>) /\ FALSE

HW == TLCSet(1, IF TLCGet(1) < l THEN l ELSE TLCGet(1))
ASSUME TLCSet(1, 0)
Post == PrintT(<<"HW", TLCGet(1), Len(Trace)>>) /\ TLCGet(1) = Len(Trace) + 1
=============================================================================

---------------------------- MODULE MC_GccGroups ----------------------------
(* (M) the arrival-group accumulator and the rate calculator at scaled-down constants: every acknowledgement sequence
   of MaxSteps packets over a small time grid. *)
EXTENDS GccGroups
CONSTANTS Grid, Sizes, MaxSteps
VARIABLES g, fed, emitted, ignored, r, rates, n
vars == <<g, fed, emitted, ignored, r, rates, n>>

Init == g = NoGroup /\ fed = <<>> /\ emitted = <<>> /\ ignored = {} /\ r = RateFresh /\ rates = <<>> /\ n = 0
Next == /\ n < MaxSteps /\ n' = n + 1
        /\ \E dep \in Grid, arr \in Grid \cup {Lost}, sz \in Sizes :
             LET a == [id |-> n + 1, dep |-> dep, arr |-> arr] IN
             /\ fed' = Append(fed, a)
             /\ g' = GroupStep(g, a)
             /\ emitted' = emitted \o GroupOut(g, a)
             /\ ignored' = IF Ignored(g, a) THEN ignored \cup {a.id} ELSE ignored
             \* the rate calculator sees the same arrivals (milliseconds on this grid)
             /\ r' = RateStep(r, [arr |-> arr, size |-> sz])
             /\ rates' = rates \o RateOut(r, [arr |-> arr, size |-> sz])
Spec == Init /\ [][Next]_vars

Range(s) == {s[i] : i \in DOMAIN s}
Groups == emitted \o (IF g.init THEN <<Emitted(g)>> ELSE <<>>)
Ack(id) == fed[id]
\* every acknowledgement is in exactly one group or was ignored
Partition == /\ \A id \in 1 .. Len(fed) : (id \in ignored) # (\E i \in DOMAIN Groups : id \in Range(Groups[i].ids))
             /\ \A i, j \in DOMAIN Groups : i # j => Range(Groups[i].ids) \cap Range(Groups[j].ids) = {}
\* inside a group: feed order, departures after the first one's, arrivals never going back
GroupShape == \A i \in DOMAIN Groups : LET ids == Groups[i].ids IN
                /\ \A k \in 1 .. Len(ids) - 1 : ids[k] < ids[k + 1]
                /\ Groups[i].dep = Ack(ids[1]).dep /\ Groups[i].arr = Ack(ids[Len(ids)]).arr
                /\ \A k \in 2 .. Len(ids) : Ack(ids[k]).dep > Groups[i].dep
                /\ \A k \in 1 .. Len(ids) - 1 : ~ArrBefore(Ack(ids[k + 1]).arr, Ack(ids[k]).arr)
\* consecutive groups: strictly later first departure, more than a burst apart; the arrival of a later group is not
\* before the arrival of the group before it
GroupOrder == \A i \in 1 .. Len(Groups) - 1 :
                /\ Groups[i + 1].dep - Groups[i].dep > BT
                /\ ~ArrBefore(Groups[i + 1].arr, Groups[i].arr)
\* with both thresholds equal the delay-variation condition never decides anything: a packet sent more than a burst
\* after the group's first packet but arriving within a burst of its last one always has a shrinking delay
VariationRedundant == \A a \in Range(fed) : \A dep0 \in Grid, arr0 \in Grid :
                         LET gg == [init |-> TRUE, ids |-> <<0>>, dep |-> dep0, arr |-> arr0] IN
                         (a.arr # Lost /\ InterDep(gg, a) > BT /\ InterArr(gg, a) <= BT /\ InterArr(gg, a) >= 0)
                            => InterArr(gg, a) - InterDep(gg, a) < 0
\* rate calculator: the window never holds a packet older than W before the newest one IF arrivals are in order; the sum
\* is the sum of the window; one update per acknowledgement that arrived
RateShape == /\ r.sum = SumOf(r.h)
             /\ Len(rates) = Cardinality({i \in DOMAIN fed : fed[i].arr # Lost})
             /\ (r.h # <<>> => r.h[Len(r.h)].arr - r.h[1].arr <= W
                               \/ \E i \in 1 .. Len(r.h) - 1 : r.h[i].arr > r.h[i + 1].arr)
=============================================================================

------------------------- MODULE Gen_TwccHeaderExt -------------------------
(* (G) behaviour generator for C15 (sequential level): every sequence of L writes over
     streams   1 = negotiated with extension id Ext, 2 = not negotiated, 3 = negotiated with another id
     shapes    header shapes relative to the stream's extension id (see vfHxHeader in the Go harness):
               0 plain                     1 marker + padding + 2 CSRC       2 one-byte profile, one other extension
               3 one-byte, stale element with the stream's id                4 one-byte, other / own id / other (order!)
               5 two-byte profile, other extension      6 two-byte, own id + a 20-byte element
               7 extension flag set, one-byte profile, no element           8 one-byte, 13 other elements (all ids but ours)
   for every extension id 1..14 and counter bases {0, just below the 2^16 wrap, just below the 2^32 wrap of the
   uint32 counter}.  The expected wire number of each write is part of the behaviour (exp, -1 = none). *)
EXTENDS TwccHeaderExt, Json
CONSTANTS L, Exts, Bases
VARIABLES ext, base, ctr, hist
vars == <<ext, base, ctr, hist>>
AllExts == 1 .. 14
SomeExts == {1, 7, 14}
B3 == {0, 65534, 65535}
Shapes == 0 .. 8
OtherId(e) == (e % 14) + 1
IdOf(e, s) == IF s = 1 THEN e ELSE IF s = 2 THEN 0 ELSE OtherId(e)
Ev(s, sh, x) == [a |-> "write", s |-> s, shape |-> sh, exp |-> x, ext |-> ext, base |-> base]
Init == ext \in Exts /\ base \in Bases /\ ctr = 0 /\ hist = <<>>
Next == /\ Len(hist) < L
        /\ \E s \in {1, 2, 3}, sh \in Shapes :
             /\ ctr' = CtrStep(ctr, IdOf(ext, s))
             /\ hist' = Append(hist, Ev(s, sh, IF Negotiated(IdOf(ext, s)) THEN Res16(base + ctr) ELSE -1))
             /\ UNCHANGED <<ext, base>>
Leaf == IF Len(hist) = L THEN PrintT(<<"TRACE", ToJson(hist)>>) /\ FALSE ELSE TRUE
=============================================================================

INIT Init
NEXT Next
CONSTANTS
  M = 65536
  Size = 8
  Base = 65530
  L = 3
CONSTRAINT Leaf
CHECK_DEADLOCK FALSE

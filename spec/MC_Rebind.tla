----------------------------- MODULE MC_Rebind -----------------------------
(* (M) the two-run relation of Rebind.tla, both runs in lock step:
     instance a:  Bind(S); H; Unbind(S); Bind(S); B        instance b (fresh):  Bind(S); B
   the other streams are bound in both instances and see the same traffic in both phases; ticks happen in both.
   TwoRun: after the second Bind the observations about S agree modulo the per-instance fields (AbsExempt).
   Released: an unbound stream holds no state.
   Negative controls: Forget = "log" / "rep" (an Unbind that keeps one field) violates both; Exempt = {} (comparing the
   transport-wide counter as well) violates TwoRun, i.e. the exemption list is necessary. *)
EXTENDS Rebind
CONSTANTS Streams, S, Inputs, MaxSteps, Forget, Exempt
VARIABLES a, b, phase, obsA, obsB, n
vars == <<a, b, phase, obsA, obsB, n>>
Others == Streams \ {S}
ExemptAbs == AbsExempt
NoExempt == {}
S2 == {1, 2}
I2 == {10, 11}

BindAll(i, ss) == [i EXCEPT !.st = [s \in DOMAIN @ |-> IF s \in ss THEN [@[s] EXCEPT !.bound = TRUE] ELSE @[s]]]
Init == /\ a = BindAll(NewInstance(Streams), Streams)            \* first life of S starts
        /\ b = BindAll(NewInstance(Streams), Others)
        /\ phase = "H" /\ obsA = <<>> /\ obsB = <<>> /\ n = 0

\* first life of S: only instance a sees it
TrafficH(x) == /\ phase = "H" /\ a' = TrafficStep(a, S, x) /\ UNCHANGED <<b, phase, obsA, obsB>>
\* the other streams: same history in both instances, in both phases
TrafficO(o, x) == /\ a' = TrafficStep(a, o, x) /\ b' = TrafficStep(b, o, x) /\ UNCHANGED <<phase, obsA, obsB>>
Tick == /\ a' = TickStep(a) /\ b' = TickStep(b)
        /\ obsA' = IF phase = "B" THEN obsA \o TickOut(a, S) ELSE obsA
        /\ obsB' = IF phase = "B" THEN obsB \o TickOut(b, S) ELSE obsB
        /\ UNCHANGED phase
Rebind == /\ phase = "H" /\ phase' = "B"
          /\ a' = BindStep(UnbindStep(Forget, a, S), S)
          /\ b' = BindStep(b, S)
          /\ UNCHANGED <<obsA, obsB>>
TrafficB(x) == /\ phase = "B" /\ a' = TrafficStep(a, S, x) /\ b' = TrafficStep(b, S, x)
               /\ obsA' = obsA \o TrafficOut(a, S, x) /\ obsB' = obsB \o TrafficOut(b, S, x)
               /\ UNCHANGED phase
\* S may be unbound again in the suffix (state must be released then, too)
UnbindB == /\ phase = "B" /\ a.st[S].bound /\ a' = UnbindStep(Forget, a, S) /\ b' = UnbindStep(Forget, b, S)
           /\ UNCHANGED <<phase, obsA, obsB>>
Next == /\ n < MaxSteps /\ n' = n + 1
        /\ \/ \E x \in Inputs : TrafficH(x) \/ TrafficB(x) \/ \E o \in Others : TrafficO(o, x)
           \/ Tick \/ Rebind \/ UnbindB
Spec == Init /\ [][Next]_vars

TwoRun == ProjAbsSeq(Exempt, obsA) = ProjAbsSeq(Exempt, obsB)
Released == \A s \in Streams : ~a.st[s].bound => a.st[s] = Unbound
\* not vacuous: the suffix really observes something and the first life really left state behind in instance a
Reach == ~(phase = "B" /\ Len(obsA) >= 2 /\ a.tw > b.tw)
=============================================================================

SPECIFICATION Spec
CONSTANTS
  M = 8
  SSRC = {1, 2}
  Sizes = {19, 24, 27, 28, 36, 44}
  Ecns = {0, 3}
  FirstEcn = 1
  MaxAdds = 2
  MaxBuilds = 2
  Tick = 3000000
  Even = TRUE
INVARIANTS TypeOK SizeBound
PROPERTIES Contiguous Flags NeverLostAgain NewAppear Cursor Independent
CHECK_DEADLOCK FALSE

SPECIFICATION Spec
CONSTANTS
  BT = 2
  W = 3
  Grid = {0, 1, 2, 3, 4}
  Sizes = {1}
  MaxSteps = 4
INVARIANTS Partition GroupShape GroupOrder VariationRedundant RateShape
CHECK_DEADLOCK FALSE

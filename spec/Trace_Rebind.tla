---------------------------- MODULE Trace_Rebind ----------------------------
(* (T) C11/P5, two-run relation of Rebind.tla on the real interceptors.  The universal harness executes every generated
   script twice and records, per script:
     {"a":"reset","members":[..],"kind":k,"s":ssrc,"bnums":[..],"hlen":n,"inc":why}    (inc # "": not orderable, skipped)
     {"a":"obs","r":"re","k":i,...}*   {"a":"done","r":"re","k":n}        run with first life, Unbind, second Bind, suffix
     {"a":"obs","r":"fresh","k":i,...}* {"a":"done","r":"fresh","k":n}    fresh instance: Bind, suffix
   An observation is the result of the i-th step of the suffix plus everything written about the stream during it.
   TLC pairs them: the i-th observation of the fresh run must equal the i-th of the re-bind run under ProjObs (which drops
   the per-instance quantities listed in Rebind.tla), and both runs must have the same number of observations.
   A mismatch on a kind whose deviation tag (DevTags) is a recorded finding is a KNOWNDEV, any other a MISMATCH. *)
EXTENDS Rebind, Json, IOUtils
Trace == ndJsonDeserialize(IOEnv.VERIF_TRACE)
KnownSeq == ndJsonDeserialize(IOEnv.VERIF_KNOWN)
Known == {KnownSeq[i].tag : i \in DOMAIN KnownSeq}

VARIABLES l, info, obsRe, nRe, devs, taint
vars == <<l, info, obsRe, nRe, devs, taint>>
NoInfo == [kind |-> "", bnums |-> {}, hlen |-> 0]
Init == l = 1 /\ info = NoInfo /\ obsRe = <<>> /\ nRe = -1 /\ devs = {} /\ taint = ""

Accept(e) ==
  IF e.a = "obs" /\ e.r = "fresh"
  THEN /\ e.k + 1 \in DOMAIN obsRe
       /\ ProjObs(info.kind, info, e) = ProjObs(info.kind, info, obsRe[e.k + 1])
  ELSE IF e.a = "done" /\ e.r = "fresh" THEN e.k = nRe
  ELSE TRUE
\* diagnostic: the projected pair
Diff(e) == IF e.a = "obs" /\ e.k + 1 \in DOMAIN obsRe
           THEN <<"fresh", ProjObs(info.kind, info, e), "rebound", ProjObs(info.kind, info, obsRe[e.k + 1])>>
           ELSE <<"count", e.k, nRe>>
Next ==
  /\ l <= Len(Trace)
  /\ LET e == Trace[l] IN
     IF e.a = "reset" THEN
        /\ info' = [kind |-> e.kind, bnums |-> Range(e.bnums), hlen |-> e.hlen]
        /\ obsRe' = <<>> /\ nRe' = -1 /\ devs' = DevTags(e.kind, e.hlen > 0)
        /\ taint' = (IF e.inc # "" THEN "inc" ELSE "") /\ l' = l + 1
     ELSE IF taint # "" THEN l' = l + 1 /\ UNCHANGED <<info, obsRe, nRe, devs, taint>>
     ELSE IF Accept(e) THEN
        /\ obsRe' = IF e.a = "obs" /\ e.r = "re" THEN Append(obsRe, e) ELSE obsRe
        /\ nRe' = IF e.a = "done" /\ e.r = "re" THEN e.k ELSE nRe
        /\ l' = l + 1 /\ UNCHANGED <<info, devs, taint>>
     ELSE LET k == devs \cap Known IN
        IF k # {} THEN /\ PrintT(<<"KNOWNDEV", l, CHOOSE t \in k : TRUE>>)
                       /\ taint' = (CHOOSE t \in k : TRUE) /\ l' = l + 1 /\ UNCHANGED <<info, obsRe, nRe, devs>>
        ELSE /\ PrintT(<<"MISMATCH", l, "kind", info.kind, "k", e.k, "diff", Diff(e)>>)
             /\ taint' = "?" /\ l' = l + 1 /\ UNCHANGED <<info, obsRe, nRe, devs>>

HW == TLCSet(1, IF TLCGet(1) < l THEN l ELSE TLCGet(1))
ASSUME TLCSet(1, 0)
Post == PrintT(<<"HW", TLCGet(1), Len(Trace)>>) /\ TLCGet(1) = Len(Trace) + 1
=============================================================================

------------------------ MODULE Trace_FlexFecDec ------------------------
(* (T) for the decoder growth of C14: validates round-trip traces recorded from the real FlexEncoder03 and the real fecDecoder
   (harness/pkg/flexfec/zz_verif_fecdec_test.go) against FlexFecDec.  Events:
     reset {level, ssrc, fecssrc}        new script: fresh encoders, fresh decoder (protected SSRC = ssrc)
     media {pkts}                        canonical records (FlexFec.tla) of all media packets of the script
     enc   {c, e, at, k, n, reps}        encoder e protected media[at .. at+k-1] with n repair packets; reps = what it returned
     recv  {t, i, c, j, seq, pl, mutated, ph, out, err, nerr}      one DecodeFec call
              t = "m": media packet i (0-based) was delivered; "f": repair packet j of encoding c with RTP number seq and
              payload pl (after the channel's byte operations, if any); "x": a packet of a foreign SSRC; "-": nothing
              ph  = what parseFlexFEC03Header / decodeMask returned for pl: [ok, ssrc, snbase, prot, body (length), panic]
              out = the packets DecodeFec returned: [seq, raw (marshalled bytes), merr]
              err = "" | "hang" (the recovery loop did not terminate) | "panic: ..."
   TLC lays out the delivered media packet, parses the delivered repair payload, runs the abstract decoder (buffers with the
   real limits, peeling to the fixpoint, XOR recovery) and compares the SET of returned packets byte for byte.
   Nothing here is a verdict on C14: a divergence prints
        <<"NOTEDEC", event index, "{classes}", "{deviation predicates that held so far}">>
   and the rest of that trace is skipped (the real decoder's state is no longer the specification's).  <<"DEV", event index,
   "{...}">> is printed when a predicate of FlexFecDec holds for the first time in a trace (coverage of the limit mechanisms
   and of the places where the code, as read, leaves the abstract machine).  Classes:
        wrong-bytes      a returned packet differs from the original with that number
        invented         a returned packet whose number no media packet of the script has
        not-recovered    a packet of the peeling closure was not returned
        beyond-closure   an (intact) packet was returned that the specification does not expect
        returned-twice, unmarshallable, header-parse, hang, panic
   If the SPECIFICATION's own recovery from the delivered packets does not give the original (or cannot decode an unmodified
   repair packet) the encoder is suspect: <<"ENCSUSPECT", event index, numbers>> - the check driver then sends the script's
   batches through the C14 path proper (Trace_FlexFec), which alone decides. *)
EXTENDS FlexFecDec, Json, IOUtils
Trace == ndJsonDeserialize(IOEnv.VERIF_TRACE)

VARIABLES l, cfg, dst, ml, idx, devs, taint
vars == <<l, cfg, dst, ml, idx, devs, taint>>

Init == l = 1 /\ cfg = [pssrc |-> <<0, 0, 0, 0>>] /\ dst = EmptyDec /\ ml = 0 /\ idx = <<>> /\ devs = {} /\ taint = ""

Range(s)  == {s[i] : i \in 1 .. Len(s)}
OrigW(s)  == Wire(Trace[ml].pkts[idx[s] + 1])
Packet(e) == IF e.t = "m" THEN [t |-> "m", seq |-> e.seq, w |-> Wire(Trace[ml].pkts[e.i + 1])]
             ELSE IF e.t = "f" THEN [t |-> "f", seq |-> e.seq, pl |-> e.pl]
             ELSE [t |-> "x", seq |-> 0]

\* parseFlexFEC03Header / decodeMask against FlexFec!ParseFec
ParseOK(e) == e.t # "f" \/
  LET f == ParseFec(e.pl) IN
  IF e.ph.panic # "" THEN FALSE
  ELSE IF ~(f.ok /\ f.cnt = 1) THEN ~e.ph.ok
  ELSE /\ e.ph.ok /\ e.ph.ssrc = f.ssrc /\ e.ph.snbase = f.snbase /\ e.ph.body = Len(f.body)
       /\ Range(e.ph.prot) = ProtOf(f) /\ Len(e.ph.prot) = Cardinality(f.mask)

Classes(e, exp) ==
  LET got  == Range(e.out)
      eseq == {q.seq : q \in exp}
  IN (IF e.err = "hang" THEN {"hang"} ELSE IF e.err # "" THEN {"panic"} ELSE {})
     \cup (IF \E g \in got : g.merr # "" THEN {"unmarshallable"} ELSE {})
     \cup (IF \E g \in got : g.merr = "" /\ g.seq \in DOMAIN idx /\ g.raw # OrigW(g.seq) THEN {"wrong-bytes"} ELSE {})
     \cup (IF \E g \in got : g.seq \notin DOMAIN idx THEN {"invented"} ELSE {})
     \cup (IF e.err = "" /\ \E q \in exp : q.seq \notin {g.seq : g \in got} THEN {"not-recovered"} ELSE {})
     \cup (IF \E g \in got : g.merr = "" /\ g.seq \in DOMAIN idx /\ g.raw = OrigW(g.seq) /\ g.seq \notin eseq
           THEN {"beyond-closure"} ELSE {})
     \cup (IF Cardinality({g.seq : g \in got}) # Len(e.out) THEN {"returned-twice"} ELSE {})
     \cup (IF ParseOK(e) THEN {} ELSE {"header-parse"})

NewDevs(e, p, r) ==
  (IF r.haz THEN {"AliasHazard"} ELSE {})
  \cup (IF LinearDiscard(RealLim, dst, p) THEN {"LinearDiscard"} ELSE {})
  \cup (IF GapNoReset(RealLim, dst, p) THEN {"GapNoReset"} ELSE {})
  \cup (IF WideSpan(r.st) THEN {"WideSpan"} ELSE {})
  \cup (IF ResetApplies(RealLim, dst, p) THEN {"Reset"} ELSE {})
  \cup (IF HalfDrops(RealLim, dst, p) THEN {"HalfSpaceDiscard"} ELSE {})
  \cup (IF FecOverflows(RealLim, dst, p, r.st) THEN {"RepairBufferFull"} ELSE {})
  \cup (IF MedOverflows(RealLim, dst, p, r.st) THEN {"MediaBufferFull"} ELSE {})
  \cup (IF Len(r.out) >= 2 THEN {"PeeledMoreThanOne"} ELSE {})
  \cup (IF e.mutated THEN {"HeaderErrorCase"} ELSE {})

Next ==
  /\ l <= Len(Trace)
  /\ LET e == Trace[l] IN
     IF e.a = "reset" THEN
        /\ cfg' = [pssrc |-> e.ssrc] /\ dst' = EmptyDec /\ ml' = 0 /\ idx' = <<>> /\ devs' = {} /\ taint' = "" /\ l' = l + 1
     ELSE IF e.a = "media" THEN
        /\ ml' = l /\ l' = l + 1 /\ UNCHANGED <<cfg, dst, devs, taint>>
        /\ idx' = [s \in {e.pkts[i].seq : i \in 1 .. Len(e.pkts)} |->
                     (CHOOSE i \in 1 .. Len(e.pkts) : e.pkts[i].seq = s /\ \A j \in i + 1 .. Len(e.pkts) : e.pkts[j].seq # s) - 1]
     ELSE IF e.a # "recv" \/ taint # "" \/ e.t = "-" THEN l' = l + 1 /\ UNCHANGED <<cfg, dst, ml, idx, devs, taint>>
     ELSE \E p \in {Packet(e)} : \E r \in {Dec(RealLim, cfg, dst, p)} :      \* (a singleton set binds the VALUE: evaluated once)
          \E exp \in {Range(r.out)} : \E nd \in {devs \cup NewDevs(e, p, r)} :
          LET got == {[seq |-> g.seq, w |-> g.raw] : g \in Range(e.out)}
              sus == {q.seq : q \in {x \in exp : x.seq \notin DOMAIN idx \/ x.w # OrigW(x.seq)}}
                     \cup (IF e.t = "f" /\ ~e.mutated
                           THEN {x.seq : x \in {y \in Range(r.st.fec) : y.dead}} \ {x.seq : x \in {y \in Range(dst.fec) : y.dead}}
                           ELSE {})
          IN /\ l' = l + 1 /\ UNCHANGED <<cfg, ml, idx>>
             /\ IF sus # {} /\ "HeaderErrorCase" \notin nd
                THEN PrintT(<<"ENCSUSPECT", l, ToString(sus)>>) /\ taint' = "encoder" /\ UNCHANGED <<dst, devs>>
                ELSE IF e.err = "" /\ got = exp /\ Len(e.out) = Cardinality(exp) /\ (\A g \in Range(e.out) : g.merr = "") /\ ParseOK(e)
                THEN /\ dst' = r.st /\ devs' = nd /\ UNCHANGED taint
                     /\ LET add == {t \in nd : t \notin devs} IN add = {} \/ PrintT(<<"DEV", l, ToString(add)>>)
                ELSE /\ PrintT(<<"NOTEDEC", l, ToString(Classes(e, exp)), ToString(nd)>>)
                     /\ taint' = "diverged" /\ UNCHANGED <<dst, devs>>

HW == TLCSet(1, IF TLCGet(1) < l THEN l ELSE TLCGet(1))
ASSUME TLCSet(1, 0)
Post == PrintT(<<"HW", TLCGet(1), Len(Trace)>>) /\ TLCGet(1) = Len(Trace) + 1
=============================================================================

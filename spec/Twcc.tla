------------------------------- MODULE Twcc -------------------------------
(* Property-level specification of the TWCC feedback recorder (C05).
   pkg/twcc/twcc.go (Recorder.Record, Recorder.BuildFeedbackPacket, feedback, chunk),
   pkg/twcc/arrival_time_map.go, internal/sequencenumber/unwrapper.go.

   State over *true* (unwrapped) sequence numbers and integer microsecond clocks (offsets from a time base that the
   driver chooses: real arrival time = rb * RU + t, so that TLC never holds more than 2^31):
     last   the last unwrapped number (-1 before the first Record); wire numbers are resolved relative to it
     arr    true number |-> <<lo, hi>>: the FIRST arrival recorded for that number that is still in the history
            (lo = hi when the arrival time is known exactly; the interceptor-level driver only knows an interval)
     end    one past the highest number ever recorded; the history never reaches further back than end - HMAX
     lo     a lower bound of DOMAIN arr (bookkeeping that keeps RecordStep cheap on long histories)
     fresh  no Record since the last Build: everything in the history has been reported
     pend   numbers recorded since the previous Build that are still in the history
     fb     the feedback packet counter the next packet must carry (-1: nothing sent yet)

   One operator per public call:  RecordStep (Recorder.Record)  and  BuildStep (Recorder.BuildFeedbackPacket).
   Build is specified RELATIONALLY: C05 is a statement about what the packets decode to, it does not prescribe the
   choice of chunks or how a report is split.  Accept(x, rb, Ps) says whether the packet list Ps - given in the
   *structural form* logged by the harness after rtcp Marshal + Unmarshal - is a legal answer in state x:

     P = [base, cnt, ref, fb, ch, d, wl, hl, rt]
       ch  sequence of chunks [k, s, n, v]: k = 0 run length of n symbols s; k = 1 / 2 one-bit / two-bit status
           vector with the symbols v as they are on the wire (14 / 7 of them)
       d   receive deltas in ticks of TU microseconds, wl marshalled length, hl length declared by the RTCP header,
       rt  the packet re-parsed to the structure that was built

     W1  one status symbol (0 not received, 1 small delta, 2 large delta) per number base .. base+cnt-1
     W2  exactly one delta per received status, a small one in 0..SMAX, a large one in LMIN..LMAX
     W3  wl = hl = 20 + 2 * chunks + delta bytes, padded to 4; re-parses to the same structure
     T1  every status marked received decodes to a time within TOL of the arrival recorded for that number
         (ref is compared modulo RMOD against the time base)
     T2  every status marked not received belongs to a number with no arrival in the history
     C1  every pending number is marked received by one of the packets
     R1  the packets of one build cover ordered, disjoint ranges; consecutive unless the next received number is
         more than GAPMAX away
     K1  feedback packet counters are consecutive modulo FBMOD across all packets ever produced             *)
EXTENDS Integers, Sequences, FiniteSets, FiniteSetsExt, SequencesExt, Functions, TLC

CONSTANTS M,        \* sequence-number modulus (65536)
          HMAX,     \* history limit in sequence numbers (maxNumberOfPackets = 2^15)
          WIN,      \* age in us beyond which already reported entries are culled (500 000)
          GAPMAX,   \* longest run of missing numbers reported in front of a received one (0x7FFE)
          RMOD,     \* reference-time modulus (2^24)
          RU,       \* microseconds per reference-time unit (64 000)
          TU,       \* microseconds per delta tick (250)
          SMAX,     \* largest small delta (255)
          LNEG, LMAX, \* a large delta lies in -LNEG .. LMAX (-32768 .. 32767)
          TOL,      \* decoding tolerance in us (125)
          FBMOD     \* feedback packet counter modulus (256)

H == M \div 2
LMIN == -LNEG
Max2(a, b) == IF a > b THEN a ELSE b
Min2(a, b) == IF a < b THEN a ELSE b
LIM == 1000000000          \* all times handled are below this; anything larger is rejected before multiplying

Fresh0 == [last |-> -1, arr |-> <<>>, lo |-> 0, end |-> 0, fresh |-> FALSE, pend |-> {}, fb |-> -1]

\* sequencenumber.Unwrapper: the wire number denotes the true number nearest to the last one; a distance of exactly
\* M/2 goes forward iff the new residue is the larger one; never below zero.
Unwrap(last, w) ==
  LET d == (w - last) % M IN
  IF d = 0 THEN last
  ELSE IF d < H \/ (d = H /\ w > last % M) THEN last + d
  ELSE IF last + d - M >= 0 THEN last + d - M ELSE last + d

TrueNum(x, w) == IF x.last < 0 THEN w ELSE Unwrap(x.last, w)

\* Record(w, arrival in [t0, t1]).  Culling: when everything has been reported, entries in front of the new number
\* that are older than WIN leave the history (from the oldest up to the first younger one).  The first arrival of a
\* number wins.  A number more than HMAX behind the newest is not recorded; a new highest number pushes everything
\* more than HMAX behind it out of the history.
\* (lo is bookkeeping only: a lower bound of DOMAIN arr that lets the operator skip work when nothing can leave.)
RecordStep(x, w, t0, t1) ==
  LET first  == x.last < 0
      n      == TrueNum(x, w)
      upto   == Min2(n, x.end)
      young  == {m \in DOMAIN x.arr : m < upto /\ x.arr[m][1] > t0 - WIN}
      cull   == x.fresh /\ x.lo < upto
      cut    == IF cull THEN FoldSet(Min2, upto, young) ELSE x.lo
      arr1   == IF cull THEN Restrict(x.arr, {m \in DOMAIN x.arr : m >= cut}) ELSE x.arr
      has    == n \in DOMAIN arr1
      tooOld == ~first /\ n < x.end /\ x.end - n > HMAX
      ne     == IF first \/ n >= x.end THEN n + 1 ELSE x.end
      trim   == ~first /\ n >= x.end /\ cut < n + 1 - HMAX
      arr2   == IF has \/ tooOld THEN arr1
                ELSE IF trim THEN Restrict(arr1, {m \in DOMAIN arr1 : m >= n + 1 - HMAX}) @@ (n :> <<t0, t1>>)
                ELSE arr1 @@ (n :> <<t0, t1>>)
      lo2    == IF first THEN n
                ELSE IF has \/ tooOld THEN cut
                ELSE IF trim THEN n + 1 - HMAX
                ELSE Min2(cut, n)
      pend1  == IF trim THEN {m \in x.pend : m >= n + 1 - HMAX} ELSE x.pend      \* (culling: pend is empty)
  IN [x EXCEPT !.last = n, !.arr = arr2, !.lo = lo2, !.end = ne, !.fresh = FALSE,
               !.pend = IF has \/ tooOld THEN pend1 ELSE pend1 \cup {n}]

\* A run of n <= HMAX consecutive numbers w, w+1, ... recorded on a FRESH recorder with arrival times t, t+dt, ...: the closed
\* form of n RecordSteps (nothing is culled - nothing has been reported - and nothing is trimmed - the run fits the
\* history).  One trace event stands for the whole run, so that a full 2^15 history costs TLC one step instead of 2^15
\* function copies.  MC_TwccRecRun checks RecRun = RecIter for every small run at the real constants.
RecRun(w, n, t, dt) ==
  [Fresh0 EXCEPT !.last = w + n - 1,
                 !.arr = [m \in w .. (w + n - 1) |-> <<t + (m - w) * dt, t + (m - w) * dt>>],
                 !.lo = w, !.end = w + n, !.fresh = FALSE, !.pend = w .. (w + n - 1)]
RECURSIVE RecIterFrom(_, _, _, _, _, _)
RecIterFrom(x, w, i, n, t, dt) ==
  IF i = n THEN x ELSE RecIterFrom(RecordStep(x, (w + i) % M, t + i * dt, t + i * dt), w, i + 1, n, t, dt)
RecIter(w, n, t, dt) == RecIterFrom(Fresh0, w, 0, n, t, dt)

\* deviation-predicate style helpers (state, action)
Dropped(x, w) == x.last >= 0 /\ LET n == TrueNum(x, w) IN n < x.end /\ x.end - n > HMAX

\* ------------------------------------------------------------------------------------------------------------
\* Decoding of the logged structural form (definitional; used by (M) at small constants)
IsRecv(s) == s \in {1, 2}
ChunkSyms(c) == IF c.k = 0 THEN [j \in 1 .. c.n |-> c.s] ELSE c.v
Expand(chs) == FlattenSeq([i \in DOMAIN chs |-> ChunkSyms(chs[i])])
St(P) == SubSeq(Expand(P.ch), 1, P.cnt)
Kn(P, i) == Cardinality({j \in 1 .. i : IsRecv(St(P)[j])})
SumSeq(s) == FoldLeft(+, 0, s)
Ticks(P, i) == SumSeq(SubSeq(P.d, 1, Kn(P, i)))
\* the true number of a 16-bit base: the history lies in end-HMAX .. end-1 and HMAX <= M/2
Tn(x, base) == (x.end - 1) - ((x.end - 1 - base) % M)
EndOf(x, P) == Tn(x, P.base) + P.cnt
RefOff(P, rb) == (P.ref - rb) % RMOD
RefOk(P, rb) == RefOff(P, rb) <= LIM \div RU
TimeUs(P, rb, i) == RefOff(P, rb) * RU + TU * Ticks(P, i)
DeltaBytes(P) == SumSeq([i \in 1 .. P.cnt |-> IF IsRecv(St(P)[i]) THEN St(P)[i] ELSE 0])
Pad4(n) == 4 * ((n + 3) \div 4)

W1(P) == /\ \A i \in DOMAIN P.ch : P.ch[i].k \in {0, 1, 2}
         /\ Len(Expand(P.ch)) >= P.cnt
         /\ \A i \in 1 .. P.cnt : St(P)[i] \in {0, 1, 2}
W2(P) == /\ Len(P.d) = Kn(P, P.cnt)
         /\ \A i \in 1 .. P.cnt : IsRecv(St(P)[i]) =>
               LET d == P.d[Kn(P, i)] IN IF St(P)[i] = 1 THEN d \in 0 .. SMAX ELSE d \in LMIN .. LMAX
W3(P) == P.wl = Pad4(20 + 2 * Len(P.ch) + DeltaBytes(P)) /\ P.hl = P.wl /\ P.rt
T1(x, rb, P) == /\ RefOk(P, rb)
                /\ \A i \in 1 .. P.cnt : IsRecv(St(P)[i]) =>
                     LET n == Tn(x, P.base) + i - 1 IN
                     /\ n \in DOMAIN x.arr
                     /\ Ticks(P, i) <= LIM \div TU /\ Ticks(P, i) >= -(LIM \div TU)
                     /\ TimeUs(P, rb, i) >= x.arr[n][1] - TOL
                     /\ TimeUs(P, rb, i) <= x.arr[n][2] + TOL
T2(x, P) == \A i \in 1 .. P.cnt : St(P)[i] = 0 => (Tn(x, P.base) + i - 1) \notin DOMAIN x.arr
C1(x, Ps) == \A n \in x.pend : \E k \in DOMAIN Ps :
                LET b == Tn(x, Ps[k].base) IN n >= b /\ n < b + Ps[k].cnt /\ IsRecv(St(Ps[k])[n - b + 1])
R1(x, Ps) == \A k \in 1 .. Len(Ps) - 1 :
                LET e == EndOf(x, Ps[k]) nb == Tn(x, Ps[k + 1].base) IN
                /\ e <= nb
                /\ nb > e => \A m \in DOMAIN x.arr : m < e \/ m > e + GAPMAX
K1(x, Ps) == \A k \in DOMAIN Ps : Ps[k].fb = ((IF x.fb < 0 THEN Ps[1].fb ELSE x.fb) + k - 1) % FBMOD

Accept(x, rb, Ps) ==
  /\ \A k \in DOMAIN Ps : W1(Ps[k])
  /\ \A k \in DOMAIN Ps : W2(Ps[k]) /\ W3(Ps[k]) /\ T1(x, rb, Ps[k]) /\ T2(x, Ps[k])
  /\ C1(x, Ps) /\ R1(x, Ps) /\ K1(x, Ps)

BuildStep(x, Ps) ==
  [x EXCEPT !.fresh = TRUE, !.pend = {},
            !.fb = IF Ps = <<>> THEN x.fb ELSE (Ps[Len(Ps)].fb + 1) % FBMOD]

\* ------------------------------------------------------------------------------------------------------------
\* The same obligations as one left-to-right pass over the chunks (linear in the packet size; this is what the
\* trace validator evaluates on packets with up to 2^15 statuses).  Returns the set of violated clause names.
\* (M) checks  Accept(x, rb, Ps) <=> Bad(x, rb, Ps) = {}  on every packet list it constructs.
SymStep(x, rb, P, b, acc, s) ==
  IF acc.off >= P.cnt THEN acc                         \* symbols after the status count are padding
  ELSE LET n == b + acc.off IN
    IF s = 0 THEN [acc EXCEPT !.off = @ + 1, !.bad = @ \cup (IF n \in DOMAIN x.arr THEN {"T2"} ELSE {})]
    ELSE IF s \in {1, 2} THEN
      IF acc.k >= Len(P.d) THEN [acc EXCEPT !.off = @ + 1, !.k = @ + 1, !.bytes = @ + s, !.bad = @ \cup {"W2"}]
      ELSE LET d    == P.d[acc.k + 1]
               c    == IF acc.c > LIM \div TU \/ acc.c < -(LIM \div TU) THEN acc.c ELSE acc.c + d
               w2ok == IF s = 1 THEN d \in 0 .. SMAX ELSE d \in LMIN .. LMAX
               tm   == RefOff(P, rb) * RU + TU * c
               t1ok == /\ RefOk(P, rb) /\ c <= LIM \div TU /\ c >= -(LIM \div TU)
                       /\ n \in DOMAIN x.arr /\ tm >= x.arr[n][1] - TOL /\ tm <= x.arr[n][2] + TOL
           IN [acc EXCEPT !.off = @ + 1, !.k = @ + 1, !.c = c, !.bytes = @ + s,
                          !.bad = @ \cup (IF w2ok THEN {} ELSE {"W2"}) \cup (IF t1ok THEN {} ELSE {"T1"})]
    ELSE [acc EXCEPT !.off = @ + 1, !.bad = @ \cup {"W1"}]

ChunkStep(x, rb, P, b, acc, c) ==
  IF c.k = 0 THEN
    LET take == Min2(c.n, P.cnt - acc.off) lo == b + acc.off IN
    IF take <= 0 THEN acc
    ELSE IF c.s = 0 THEN
      [acc EXCEPT !.off = @ + take,
                  !.bad = @ \cup (IF \E m \in DOMAIN x.arr : m >= lo /\ m < lo + take THEN {"T2"} ELSE {})]
    ELSE FoldLeft(LAMBDA a, s : SymStep(x, rb, P, b, a, s), acc, [j \in 1 .. take |-> c.s])
  ELSE IF c.k \in {1, 2} THEN FoldLeft(LAMBDA a, s : SymStep(x, rb, P, b, a, s), acc, c.v)
  ELSE [acc EXCEPT !.bad = @ \cup {"W1"}]

PacketBad(x, rb, P) ==
  LET b == Tn(x, P.base)
      r == FoldLeft(LAMBDA a, c : ChunkStep(x, rb, P, b, a, c),
                    [off |-> 0, k |-> 0, c |-> 0, bytes |-> 0, bad |-> {}], P.ch)
  IN r.bad \cup (IF r.off = P.cnt THEN {} ELSE {"W1"})
           \cup (IF r.k = Len(P.d) THEN {} ELSE {"W2"})
           \cup (IF P.wl = Pad4(20 + 2 * Len(P.ch) + r.bytes) /\ P.hl = P.wl /\ P.rt THEN {} ELSE {"W3"})
           \cup (IF RefOk(P, rb) THEN {} ELSE {"T1"})

Bad(x, rb, Ps) ==
  UNION {PacketBad(x, rb, Ps[k]) : k \in DOMAIN Ps}
  \cup (IF \A n \in x.pend : \E k \in DOMAIN Ps : LET b == Tn(x, Ps[k].base) IN n >= b /\ n < b + Ps[k].cnt
        THEN {} ELSE {"C1"})
  \cup (IF R1(x, Ps) THEN {} ELSE {"R1"})
  \cup (IF K1(x, Ps) THEN {} ELSE {"K1"})
=============================================================================

---------------------------- MODULE Gen_Unwrap ----------------------------
(* (G) behaviour generator for the unwrapper (C20): every sequence of L inputs over a boundary-value alphabet
   that is *relative to the specification state* (distance to the previous result: +-1, +-2, the half-range
   breakpoint M/2 and its neighbours, the same number again) plus the absolute residues at the edges of the
   number space, at the real modulus.  A behaviour starts on a fresh Unwrapper with the input Base followed by
   Pre steps of +(M/2 - 1) (Pre = 0 keeps the walk in the first cycle where the floor at zero is reachable).
   Each complete behaviour is printed as the list of inputs; the Go harness feeds it to the real Unwrapper and the
   recorded trace (every result) is validated by Trace_Unwrap. *)
EXTENDS Unwrap, Sequences, TLC, Json
CONSTANTS Base, Pre, L
VARIABLES x, hist
vars == <<x, hist>>

Deltas == {0, 1, 2, 3, H - 1, H, H + 1, -1, -2, -3, -(H - 1), -H, -(H + 1), 100, -100}
Edges  == {0, 1, H - 1, H, M - 1}

RECURSIVE Feed(_, _)
Feed(s, seq) == IF seq = <<>> THEN s ELSE Feed(UnwrapNext(s, Head(seq)), Tail(seq))
Warm == [i \in 1 .. Pre + 1 |-> (Base + (i - 1) * (H - 1)) % M]

Init == x = Feed(Fresh, Warm) /\ hist = Warm
Alphabet == {(x.last + d) % M : d \in Deltas} \cup Edges
Next == /\ Len(hist) < Len(Warm) + L
        /\ \E w \in Alphabet : x' = UnwrapNext(x, w) /\ hist' = Append(hist, w)
Leaf == IF Len(hist) = Len(Warm) + L
        THEN PrintT(<<"TRACE", ToJson(hist)>>) /\ FALSE
        ELSE TRUE
=============================================================================

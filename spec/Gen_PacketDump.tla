--------------------------- MODULE Gen_PacketDump ---------------------------
(* (G) script generator for the packet-dump growth specification: every filter/formatter configuration in
   DIR x RF x CF x PF x RFMT x CFMT  x  every sequence of L steps over the alphabet selected by Alpha:
     "full"   single calls: RTP with even / odd payload type, EVERY RTCP compound of 1-3 packets over {rr, sdes, pli, nack}
     "small"  single calls (2 RTP, 5 compounds), two bursts (calls made back to back, no completion barrier in between:
              binds the order of dumps to the order of calls), Close (calls after Close are not dumped)
   A behaviour is printed as [cfg, steps]; a final Close is appended.  Packet ids are made unique per step. *)
EXTENDS PacketDump, Json
CONSTANTS DIR, RF, CF, PF, RFMT, CFMT, L, Alpha, Sim
VARIABLES cfg, x, hist
vars == <<cfg, x, hist>>

Types == <<"rr", "sdes", "pli", "nack">>
R(pt, n)   == [t |-> "rtp", a |-> pt, b |-> n, pl |-> <<pt, n % 256, 7>>]
C(ti, n)   == [t |-> Types[ti], a |-> n, b |-> IF Types[ti] = "nack" THEN n + 5 ELSE 0, pl |-> <<>>]
Rtp(pt, n) == [a |-> "rtp", p |-> <<R(pt, n)>>]
Comp(ts, n) == [a |-> "rtcp", p |-> [i \in DOMAIN ts |-> C(ts[i], 10 * n + i)]]
AllShapes   == UNION {[1 .. k -> 1 .. 4] : k \in 1 .. 3}
SmallShapes == {<<1>>, <<3>>, <<3, 1>>, <<1, 2>>, <<2, 4, 1>>}

Step(a, calls) == [a |-> a, calls |-> calls]
Singles(n) == {<<Rtp(96, n)>>, <<Rtp(97, n)>>}
                 \cup {<<Comp(ts, n)>> : ts \in (IF Alpha = "full" THEN AllShapes ELSE SmallShapes)}
Bursts(n)  == IF Alpha = "full" THEN {}
              ELSE {<<Rtp(96, n), Comp(<<3, 1>>, n), Rtp(97, n + 50), Comp(<<1>>, n + 50)>>,
                    <<Comp(<<1, 4, 2>>, n), Comp(<<4>>, n + 50), Rtp(98, n)>>}

Init == /\ cfg \in [dir : DIR, rf : RF, cf : CF, pf : PF, rfmt : RFMT, cfmt : CFMT]
        /\ x = Open /\ hist = <<>>
\* Sim (random walks with TLC's simulator): the last step is fixed, because the simulator evaluates the leaf invariant on every
\* successor of the last-but-one state and would print one behaviour per possible last step
Next == /\ Len(hist) < L
        /\ ~(Sim /\ Len(hist) = L - 1)
        /\ LET n == Len(hist) + 1 IN
           \/ \E cs \in Singles(n) \cup Bursts(n) : hist' = Append(hist, Step("calls", cs)) /\ UNCHANGED <<cfg, x>>
           \/ Alpha # "full" /\ ~x.closed /\ x' = CloseStep(x) /\ hist' = Append(hist, Step("close", <<>>)) /\ UNCHANGED cfg
SimLast == Sim /\ Len(hist) = L - 1 /\ hist' = Append(hist, Step("calls", <<Rtp(96, L), Comp(<<3, 1, 4>>, L)>>)) /\ UNCHANGED <<cfg, x>>
SimNext == Next \/ SimLast
Final == [cfg |-> cfg, steps |-> Append(hist, Step("close", <<>>))]
Leaf == IF Len(hist) = L THEN PrintT(<<"TRACE", ToJson(Final)>>) /\ FALSE ELSE TRUE
LeafInv == Len(hist) = L => PrintT(<<"TRACE", ToJson(Final)>>)
=============================================================================

----------------------------- MODULE GccKalman -----------------------------
(* Growth of the C16 specification: the delay-gradient filter (pkg/gcc/kalman.go, slope_estimator.go) as far as it can be
   said exactly.  Numeric accuracy of the estimate is out of scope; what is specified is the STRUCTURE of one
   updateEstimate(measurement) - which fields are read and written, in which order, and the clamps - as a relation
   between the fields before the call, the measurement, and the fields after it.

     z      = measurement - estimate                       (time.Duration, ns)
     zms    = float64(z.Microseconds()) / 1000             (the innovation is truncated to whole microseconds)
     mu'    = max(alpha mu + (1 - alpha) min(zms, 3 sqrt(mu))^2, 1)       unless updates are disabled; CLAMP: mu' >= 1
     gain   = (ee + q) / (ee + q + mu')                    the NEW mu' is used: 0 < gain < 1 whenever ee + q > 0
     est'   = estimate + Duration(gain zms 1e6)            truncation toward zero; est' lies between estimate and measurement
     ee'    = (1 - gain) (ee + q)
     return = est'

   Units in the recorded events: estimate, measurement in ns (|.| <= 10^9); gain, q in ppb; ee, mu in ppb as natural
   numbers of any size (GccRate.tla section 1), each the floor of the float64.

   OBSERVATION (exact, from the constants): alpha = (1 - 0.001)^(30 / (1000 * 5 * float64(time.Millisecond))) - the divisor
   contains float64(time.Millisecond) = 10^6, so the exponent is 6e-9 and 1 - alpha = 6.0e-12.  The measurement-noise
   estimate therefore never adapts: from mu = 0 the first update gives max(6e-12 zms^2, 1) = 1 and afterwards
   mu' <= max(mu, 1) + 7e-12 max(zms^2, 9 mu); the filter is a fixed recurrence gain' = f(gain) (-> 0.0311) that does not
   depend on the measurements.  KalInert states the bound; it is part of the relation. *)
EXTENDS GccRate

KAbs(x) == IF x < 0 THEN -x ELSE x
KSign(x) == IF x < 0 THEN -1 ELSE IF x > 0 THEN 1 ELSE 0
KTruncDiv(x, d) == IF x >= 0 THEN x \div d ELSE -((-x) \div d)
BS9 == B(S9)

\* e: one recorded update {m, pest, est, ret, gain, pee, ee, pmu, mu, q, finite}
KalZus(e) == KTruncDiv(e.m - e.pest, 1000)
KalClamp(e) == BLe(BS9, e.mu)                                                   \* mu' >= 1
KalGainRange(e) == 0 < e.gain /\ e.gain < S9
\* gain (eu + mu') = eu with eu in [EU, EU + 2), mu' in [MU, MU + 1), gain in [G, G + 1)
KalGain(e) ==
  LET eu == BAdd(e.pee, B(e.q))
      den == BAdd(eu, e.mu) IN
  /\ BLe(BMul(B(e.gain), den), BMul(BAdd(eu, <<2>>), BS9))
  /\ BLe(BMul(eu, BS9), BMul(B(e.gain + 1), BAdd(den, <<3>>)))
\* est' - est = trunc(gain zus 1000 ns): |.| within 1 of G |zus| / 10^6, sign of the innovation (or 0); returned = stored
KalEstimate(e) ==
  LET zus == KalZus(e)
      d == e.est - e.pest
      lo == BigMulDiv(e.gain, KAbs(zus), <<1000, 1000>>)
      hi == BigMulDiv(e.gain + 1, KAbs(zus), <<1000, 1000>>) IN
  /\ e.ret = e.est
  /\ (d = 0 \/ KSign(d) = KSign(zus))
  /\ lo - 1 <= KAbs(d) /\ KAbs(d) <= hi + 1
\* ee' = (1 - gain) eu within 4 ppb
KalError(e) ==
  LET eu == BAdd(e.pee, B(e.q)) IN
  BNear(BMul(e.ee, BS9), BMul(B(S9 - e.gain), eu), <<0, 0, 40>>)
\* mu' <= max(mu, 1) + 1 ppb + 7e-12 max(zms^2, 9 mu) and mu' >= max(1, mu (1 - 7e-12)) - 1 ppb
KalInert(e) ==
  LET zus == KAbs(KalZus(e))
      mx == IF BLe(BS9, e.pmu) THEN e.pmu ELSE BS9
      z2 == BDivSeq(BMul(BSq(B(zus)), B(7)), D9)[1]                            \* 7e-12 zms^2 in ppb = 7 zus^2 / 10^9
      m9 == BDivSeq(BMul(e.pmu, B(63)), <<10000, 10000, 1000>>)[1] IN          \* 7e-12 * 9 mu
  /\ BLe(e.mu, BAdd(BAdd(mx, <<2>>), BAdd(z2, m9)))
  /\ BLe(BSubSat(mx, BAdd(<<2>>, BDivSeq(e.pmu, <<10000, 10000, 1000>>)[1])), e.mu)
KalAccept(e) == e.finite /\ KalClamp(e) /\ KalGainRange(e) /\ KalGain(e) /\ KalEstimate(e) /\ KalError(e) /\ KalInert(e)
KalWhy(e) == <<e.finite, KalClamp(e), KalGainRange(e), KalGain(e), KalEstimate(e), KalError(e), KalInert(e)>>
=============================================================================

----------------------------- MODULE Gen_Chain -----------------------------
(* (G) program generator for C01: TLC enumerates chains (every ordered selection of member kinds up to length
   MaxLen) and/or traffic programs (every sequence of L steps over the step alphabet, with fault positions). *)
EXTENDS Integers, Sequences, FiniteSets, TLC, Json
CONSTANTS Kinds, MaxLen, L, Mode
VARIABLES chain, prog, phase
AllKinds == {"noop", "probe", "nackgen", "nackresp", "rrecv", "rsend", "twccsend", "twcchdr", "rfc8888", "rtpfb",
             "stats", "pdrecv", "pdsend", "pli", "flexfec", "cc"}
Rich == {"nackresp", "twcchdr", "flexfec", "rrecv"}
StepsAlpha == {"wok", "wfail", "rok", "rfail", "cwok", "cwfail", "crnack", "crsr", "crfail"}
Init == chain = <<>> /\ prog = <<>> /\ phase = "chain"
NoDup(s) == \A i, j \in DOMAIN s : i # j => s[i] # s[j]
Next ==
  \/ /\ phase = "chain" /\ Len(chain) < MaxLen
     /\ \E k \in Kinds : NoDup(Append(chain, k)) /\ chain' = Append(chain, k) /\ UNCHANGED <<prog, phase>>
  \/ /\ phase = "chain" /\ L > 0 /\ (Mode = "all" \/ Len(chain) = MaxLen) /\ phase' = "prog" /\ UNCHANGED <<chain, prog>>
  \/ /\ phase = "prog" /\ Len(prog) < L
     /\ \E a \in StepsAlpha : prog' = Append(prog, a) /\ UNCHANGED <<chain, phase>>
Leaf == IF (L = 0 /\ phase = "chain") \/ (phase = "prog" /\ Len(prog) = L)
        THEN PrintT(<<"TRACE", ToJson([chain |-> chain, prog |-> prog])>>) /\ (L = 0)
        ELSE TRUE
=============================================================================

INIT Init
NEXT Next
CONSTANTS
  M = 65536
  Base = 65534
  Plans <- ThoroughWalks
INVARIANT Walk
CHECK_DEADLOCK FALSE

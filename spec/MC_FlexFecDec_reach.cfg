INIT Init
NEXT NextWin
CONSTANTS
  M = 64
  MaxK = 2
  MaxN = 2
  NB = 4
  Bases = {60}
  FBases = {62}
  Gaps = {0, 9}
  Window = 2
  Track = TRUE
  Lim <- SmallLim
INVARIANTS NoReset
CHECK_DEADLOCK FALSE

INIT Init
NEXT Next
CONSTANTS
  L = 3
INVARIANT LeafInv
CHECK_DEADLOCK FALSE

------------------------------ MODULE MC_Sync ------------------------------
(* Programs transcribed from the code; one configuration per interceptor. *)
EXTENDS Sync
\* rtpfb history (pkg/rtpfb/history.go): addOutgoing and buildReport take the write lock; onTWCCFeedback /
\* onCCFBFeedback take only the READ lock although they write p.Arrived / highestAcked  (as found in the code)
Writer(h)  == <<<<"acq", "hist", "w">>, <<"wr", "packets">>, <<"inc", "counter">>, <<"rel", "hist">>>>
FbRLock    == <<<<"acq", "hist", "r">>, <<"rd", "packets">>, <<"wr", "highestAcked">>, <<"rel", "hist">>,
                <<"acq", "hist", "w">>, <<"rd", "highestAcked">>, <<"rel", "hist">>>>
FbLock     == <<<<"acq", "hist", "w">>, <<"rd", "packets">>, <<"wr", "highestAcked">>, <<"rel", "hist">>,
                <<"acq", "hist", "w">>, <<"rd", "highestAcked">>, <<"rel", "hist">>>>
RtpfbAsFound == [w1 |-> Writer(1), w2 |-> Writer(2), r1 |-> FbRLock, r2 |-> FbRLock]
RtpfbFixed   == [w1 |-> Writer(1), w2 |-> Writer(2), r1 |-> FbLock, r2 |-> FbLock]
\* nack responder: Write takes rtpBufferMutex; the resend goroutine looks the stream up under streamsMu, gets under
\* rtpBufferMutex, writes outside any lock; Unbind deletes under streamsMu then clears under rtpBufferMutex
RespWrite  == <<<<"acq", "buf", "w">>, <<"wr", "ring">>, <<"rel", "buf">>>>
RespResend == <<<<"acq", "streams", "w">>, <<"rd", "map">>, <<"rel", "streams">>,
                <<"acq", "buf", "w">>, <<"rd", "ring">>, <<"inc", "refcount">>, <<"rel", "buf">>>>
RespUnbind == <<<<"acq", "streams", "w">>, <<"wr", "map">>, <<"rel", "streams">>,
                <<"acq", "buf", "w">>, <<"wr", "ring">>, <<"rel", "buf">>>>
NackResp   == [w1 |-> RespWrite, w2 |-> RespWrite, j1 |-> RespResend, u |-> RespUnbind]
\* transport-wide CC header extension: one atomic counter shared by all writers
HdrExt     == [w1 |-> <<<<"ainc", "nextSeq">>, <<"ainc", "nextSeq">>>>, w2 |-> <<<<"ainc", "nextSeq">>>>, w3 |-> <<<<"ainc", "nextSeq">>>>]
\* negative control: the same counter incremented with a plain load and store
HdrExtPlain == [w1 |-> <<<<"inc", "nextSeq">>>>, w2 |-> <<<<"inc", "nextSeq">>>>]
\* nack generator: readers add to the log under its own lock; the loop holds receiveLogsMu then the log's read lock;
\* Bind/Unbind take receiveLogsMu
GenRead    == <<<<"acq", "log", "w">>, <<"wr", "bitmap">>, <<"rel", "log">>>>
GenLoop    == <<<<"acq", "logs", "w">>, <<"rd", "logsmap">>, <<"acq", "log", "r">>, <<"rd", "bitmap">>, <<"rel", "log">>,
                <<"wr", "nackcount">>, <<"rel", "logs">>>>
GenUnbind  == <<<<"acq", "logs", "w">>, <<"wr", "logsmap">>, <<"wr", "nackcount">>, <<"rel", "logs">>>>
NackGen    == [r1 |-> GenRead, r2 |-> GenRead, l |-> GenLoop, u |-> GenUnbind]
=============================================================================

--------------------------- MODULE Gen_IntervalPli ---------------------------
(* (G) behaviour generator for the interval-PLI growth specification: every sequence of L calls/ticks over three SSRCs
   (after each warm-up prefix in Warms), restricted to what the specification enables: BindRTCPWriter at most
   once, ticks only while the loop runs with an interval, no call that would block for ever (a second forced request
   without a loop).  Each behaviour is one script for harness/pkg/intervalpli; a final Close is appended.
   The generator state follows the harness discipline: while the loop runs, every request is written before the next call
   (the harness drains), so pend is empty between calls. *)
EXTENDS IntervalPli, Json
CONSTANTS L, Periodic, Warms, Sim
VARIABLES x, hist, n0
vars == <<x, hist, n0>>
Cfg == [periodic |-> Periodic]

Pli       == <<[t |-> "nack", p |-> "pli"]>>
PliSecond == <<[t |-> "goog-remb", p |-> ""], [t |-> "nack", p |-> "pli"]>>
NackOnly  == <<[t |-> "nack", p |-> ""]>>
CcmPli    == <<[t |-> "ccm", p |-> "pli"], [t |-> "nack", p |-> "fir"]>>
NoFb      == <<>>
Binds   == {<<1, Pli>>, <<2, Pli>>, <<3, PliSecond>>, <<1, NackOnly>>, <<2, CcmPli>>, <<3, NoFb>>}
Forces  == {<<>>, <<1>>, <<2, 3>>, <<3, 3, 9>>}

Ev(a, s, fb, ss) == [a |-> a, s |-> s, fb |-> fb, ss |-> ss]
Drained(y) == IF y.running THEN [y EXCEPT !.pend = <<>>] ELSE y

WarmSeq(w) == IF w = 0 THEN <<>>
              ELSE IF w = 1 THEN <<Ev("bindw", 0, <<>>, <<>>)>>
              ELSE IF w = 2 THEN <<Ev("bindw", 0, <<>>, <<>>), Ev("bind", 1, Pli, <<>>), Ev("bind", 2, Pli, <<>>)>>
              ELSE <<Ev("bind", 3, Pli, <<>>)>>                    \* a request pending before there is a loop
WarmState(w) == IF w = 0 THEN Fresh
                ELSE IF w = 1 THEN BindWriterStep(Fresh)
                ELSE IF w = 2 THEN Drained(BindRemoteStep(Drained(BindRemoteStep(BindWriterStep(Fresh), 1, Pli)), 2, Pli))
                ELSE BindRemoteStep(Fresh, 3, Pli)

Init == \E w \in Warms : x = WarmState(w) /\ hist = WarmSeq(w) /\ n0 = Len(WarmSeq(w))
Do(y, e) == x' = Drained(y) /\ hist' = Append(hist, e) /\ UNCHANGED n0
\* Sim (random walks with TLC's simulator): the last step is fixed, because the simulator evaluates the leaf invariant on every
\* successor of the last-but-one state and would print one behaviour per possible last step
Next == /\ Len(hist) < n0 + L
        /\ ~(Sim /\ Len(hist) = n0 + L - 1)
        /\ \/ ~x.started /\ Do(BindWriterStep(x), Ev("bindw", 0, <<>>, <<>>))
           \/ \E b \in Binds : ~(SupportsPli(b[2]) /\ BlocksForever(x)) /\ Do(BindRemoteStep(x, b[1], b[2]), Ev("bind", b[1], b[2], <<>>))
           \/ \E s \in 1 .. 3 : Do(UnbindStep(x, s), Ev("unbind", s, <<>>, <<>>))
           \/ \E s \in 1 .. 3 : Do(UnbindStep(x, s), Ev("unbindl", s, <<>>, <<>>))
           \/ \E ss \in Forces : ~BlocksForever(x) /\ Do(ForceStep(x, ss), Ev("force", 0, <<>>, ss))
           \/ TickEnabled(Cfg, x) /\ Do(x, Ev("tick", 0, <<>>, <<>>))
           \/ Do(CloseStep(x), Ev("close", 0, <<>>, <<>>))
SimLast == Sim /\ Len(hist) = n0 + L - 1 /\ Do(CloseStep(x), Ev("close", 0, <<>>, <<>>))
SimNext == Next \/ SimLast
Leaf == IF Len(hist) = n0 + L
        THEN PrintT(<<"TRACE", ToJson(Append(hist, Ev("close", 0, <<>>, <<>>)))>>) /\ FALSE
        ELSE TRUE
LeafInv == Len(hist) = n0 + L => PrintT(<<"TRACE", ToJson(Append(hist, Ev("close", 0, <<>>, <<>>)))>>)
=============================================================================

SPECIFICATION Spec
CONSTANTS
  M = 16
  K = 2
  MaxSteps = 3
INVARIANTS NegLoss
CHECK_DEADLOCK FALSE

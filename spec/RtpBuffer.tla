----------------------------- MODULE RtpBuffer -----------------------------
(* Property-level specification of the retransmission buffer (C04):
   internal/rtpbuffer/rtpbuffer.go as used by pkg/nack/responder_interceptor.go.

   The buffer remembers, for the `size` most recent TRUE sequence numbers up to the highest one sent,
   which packets (ids) were written with each number.  Wire numbers are residues modulo M. *)
EXTENDS Integers, FiniteSets, Sequences, TLC

CONSTANT M
H == M \div 2

EmptyBuf == [started |-> FALSE, hi |-> 0, sent |-> <<>>]

\* RTPBuffer.Add for a packet with wire number w and identity id
AddStep(size, x, w, id) ==
  IF ~x.started THEN [started |-> TRUE, hi |-> w + M, sent |-> ((w + M) :> {id})]
  ELSE LET d == (w - x.hi) % M IN
       IF d = 0 THEN [x EXCEPT !.sent[x.hi] = @ \cup {id}]          \* re-send of the highest number
       ELSE IF d < H
            THEN LET nh == x.hi + d IN
                 [x EXCEPT !.hi = nh,
                           !.sent = [t \in {u \in DOMAIN x.sent : u > nh - size} \cup {nh} |->
                                        IF t = nh THEN {id} ELSE x.sent[t]]]
       ELSE LET t == x.hi - (M - d) IN                               \* late / out-of-order send
            IF t > x.hi - size
            THEN [x EXCEPT !.sent = [u \in DOMAIN x.sent \cup {t} |->
                                        IF u = t THEN (IF t \in DOMAIN x.sent THEN x.sent[t] ELSE {}) \cup {id}
                                        ELSE x.sent[u]]]
            ELSE x                                                   \* outside the window: not retransmittable

\* RTPBuffer.Get(n): the set of packet ids any of which may be returned ({} = nothing is returned)
GetOut(size, x, n) ==
  IF ~x.started THEN {}
  ELSE LET d == (x.hi - n) % M IN
       IF d >= size \/ d >= H THEN {}
       ELSE LET t == x.hi - d IN IF t \in DOMAIN x.sent THEN x.sent[t] ELSE {}

ClearStep(x) == EmptyBuf

\* deviation predicate: a late Add at least `size` behind the highest
LateAddBeyondWindow(size, x, w) ==
  x.started /\ LET d == (w - x.hi) % M IN d >= H /\ x.hi - (M - d) <= x.hi - size
=============================================================================

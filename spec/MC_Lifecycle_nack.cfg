SPECIFICATION Spec
CONSTANTS
  Streams <- S2
  Handoff = FALSE
  SendSelects = FALSE
  PerStream = TRUE
  MaxTicks = 2
  MaxReads = 2
INVARIANTS P1 P2 P4
PROPERTIES P3 CloseReturns
CHECK_DEADLOCK FALSE

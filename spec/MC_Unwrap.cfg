SPECIFICATION Spec
CONSTANTS
  M = 16
  K = 4
CONSTRAINT Bound
INVARIANTS NonNegative Congruent FirstIsInput Near FloorAtZero LemmaInRange Exact Idempotent
CHECK_DEADLOCK FALSE

SPECIFICATION Spec
CONSTANTS
  RF = {"all"}
  CF = {"all"}
  PF = {"all"}
  RFMT = {"text"}
  CFMT = {"bin"}
  MaxCalls = 3
  Variant = "unordered"
INVARIANTS OrderOK
CHECK_DEADLOCK FALSE

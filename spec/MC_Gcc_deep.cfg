SPECIFICATION Spec
CONSTANTS
  Cfg <- CfgSmall
  Feeders <- F2
  MaxWrites = 2
  MaxUpd = 1
  MaxGets = 1
  DVals <- DV
  LVals <- LV
  LossLo = 1
  LossHi = 5
  FinalClamp = TRUE
  CloseWaits = TRUE
INVARIANTS InBounds AbsOK Consistent Sub GetterOK ClosedErr NoPanic
PROPERTIES NoPublishAfterClose

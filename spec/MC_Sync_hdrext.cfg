SPECIFICATION Spec
CONSTANTS
  Progs <- HdrExt
INVARIANTS NoRace NoLostUpdate
PROPERTIES Termination
CHECK_DEADLOCK FALSE

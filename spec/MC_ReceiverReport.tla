------------------------ MODULE MC_ReceiverReport ------------------------
(* (M) exhaustive check of the receiver-report specification at scaled-down constants.
   History variables: `ever` (true numbers received), `sum` (unsaturated sum of the reported interval losses),
   `beyond` (a packet arrived >= Hist behind the highest), `maxD` (largest |D| fed to the jitter recurrence). *)
EXTENDS ReceiverReport
CONSTANTS MaxSteps, Rate, Deltas, Moves
VARIABLES x, now, ever, sum, beyond, maxD, last, steps
vars == <<x, now, ever, sum, beyond, maxD, last, steps>>
Cfg == [rate |-> Rate]

\* true number denoted by wire number w in state x (same half-range reading as RtpStep)
TrueNum(w) == IF ~x.started THEN w
              ELSE LET d == (w - x.hi) % M IN IF d > 0 /\ d < H THEN x.hi + d ELSE x.hi - ((M - d) % M)

Init == /\ x = RFresh /\ now = 0 /\ ever = {} /\ sum = 0 /\ beyond = FALSE /\ maxD = 0
        /\ last = ReportOut(RFresh, 0) /\ steps = 0

\* Moves: set of (dts, darr) = RTP time advance and arrival advance (ms); Rate = 1000 makes one RTP unit one millisecond
\* Deltas: wire numbers offered, relative to the highest
MovesLoss   == {<<0, 0>>}
MovesJitter == {<<0, 0>>, <<3, 3>>, <<5, 1>>, <<-2, 0>>}
DeltasAll   == (0 - H) .. (H - 1)
DeltasFew   == {1, 2, -1}
Rtp(w, mv) ==
  LET ts == x.pTs + mv[1]  arr == now + mv[2] IN
  /\ x' = RtpStep(Cfg, x, w, ts, arr)
  /\ now' = arr
  /\ ever' = ever \cup {TrueNum(w)}
  /\ beyond' = (beyond \/ LateBeyondHistory(x, w))
  /\ maxD' = IF x.started THEN Max(maxD, JitterD(Cfg, x, ts, arr)) ELSE maxD
  /\ UNCHANGED <<sum, last>>
Sr(mid) == x' = SrStep(x, mid, now) /\ UNCHANGED <<now, ever, sum, beyond, maxD, last>>
Wait    == now' = now + 1500 /\ UNCHANGED <<x, ever, sum, beyond, maxD, last>>
Report  == /\ last' = ReportOut(x, now)
           /\ sum' = sum + IntervalLost(x)
           /\ x' = ReportStep(x)
           /\ UNCHANGED <<now, ever, beyond, maxD>>
IsReport == steps' = steps + 1 /\ x' = ReportStep(x) /\ last' = ReportOut(x, now) /\ sum' = sum + IntervalLost(x)

Next == /\ steps < MaxSteps /\ steps' = steps + 1
        /\ \/ \E d \in Deltas, mv \in Moves : Rtp((x.hi + d) % M, mv)
           \/ \E mid \in {<<1, 2>>} : Sr(mid)
           \/ Wait
           \/ Report
Spec == Init /\ [][Next]_vars

\* ---- the clauses of C06 ----
TypeOK == /\ x.started => /\ x.lastRep <= x.hi /\ x.hi >= 0
                          /\ x.miss \subseteq (Max(x.lastRep, x.hi - Hist) + 1) .. (x.hi - 1)
          /\ x.old >= 0 /\ x.total >= 0 /\ x.total <= Cap /\ x.J >= 0
\* the extended highest sequence number is the highest true number ever received
HighestIsMax == x.started => /\ x.hi \in ever /\ \A t \in ever : t <= x.hi
\* interval loss = numbers of the open interval (lastRep, hi) never received (history semantics excluded)
LossIsTruth == (x.started /\ ~beyond) =>
                 IntervalLost(x) = Cardinality({n \in (x.lastRep + 1) .. (x.hi - 1) : n \notin ever})
\* fraction = floor(256 * lost / expected), a byte
FractionOK == /\ Fraction(x) \in 0 .. 255
              /\ Expected(x) > 0 => LET r == 256 * IntervalLost(x) - Fraction(x) * Expected(x) IN r >= 0 /\ r < Expected(x)
\* cumulative lost = saturating sum of the interval losses
TotalIsSaturatedSum == x.total = Min(sum, Cap)
\* LSR / DLSR are zero before any sender report
SrZero == ~x.hasSr => /\ ReportOut(x, now).lsr = <<0, 0>> /\ ReportOut(x, now).dlsr = 0
SrReflected == x.hasSr => /\ ReportOut(x, now).lsr = x.lsr
                          /\ LET d == now - x.srMs IN 1000 * ReportOut(x, now).dlsr <= d * 65536
                                                      /\ 1000 * (ReportOut(x, now).dlsr + 1) > d * 65536
\* the jitter estimate never exceeds the largest deviation seen and is zero for a perfectly paced stream
JitterBound == x.J <= maxD * JS
\* a report closes the interval; the cumulative counter never decreases
ReportCloses == [][ IsReport => /\ IntervalLost(x') = 0 /\ Expected(x') = 0
                                /\ last'.cyc * M + last'.seq = x.hi /\ last'.tot = Min(sum', Cap) ]_vars
TotalMonotone == [][ x'.total >= x.total ]_vars
\* the as-found ring model agrees with the property while the interval fits the history ...
AsFoundAgrees == (x.started /\ ~beyond /\ ~IntervalBeyondHistory(x)) => AsFoundLost(x) = IntervalLost(x)
RingTypeOK == x.ring \subseteq 0 .. (Hist - 1) /\ (x.started => Slot(x.hi) \in x.ring \/ IntervalBeyondHistory(x) \/ beyond)
\* ... and (negative control, expected to be violated) it does NOT beyond it: the recorded finding is reachable
AsFoundAlways == (x.started /\ ~beyond) => AsFoundLost(x) = IntervalLost(x)
\* negative control (expected to be violated): the unsaturated sum exceeds the cap, i.e. saturation is exercised
ReachSaturated == sum <= Cap
=============================================================================

INIT Init
NEXT Next
CONSTANTS
  M = 65536
  MaxK = 3
  MaxN = 3
  MaxLen = 1
  Shapes = {0, 1, 3}
  Bases = {65534}
  MaskNs = {0}
  Mutant = "none"
INVARIANTS TypeOK Conform20 EvaluatorAccepts20
CHECK_DEADLOCK FALSE

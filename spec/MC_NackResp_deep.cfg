SPECIFICATION Spec
CONSTANTS
  M = 16
  Size = 2
  Streams <- StreamsOne
  Cells <- Cells2
  MaxWrites = 4
  MaxJobs = 2
  MaxBinds = 2
  WDeltas <- WDs
  NDeltas <- NDs
  EarlyRelease = FALSE
INVARIANTS ContentOK GetOK PoolOK AtMostOnce
CHECK_DEADLOCK FALSE

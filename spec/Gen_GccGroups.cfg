INIT Init
NEXT Next
CONSTANTS
  BT = 5000
  W = 500
  L = 2
  Mode = "groups"
CONSTRAINT Leaf
CHECK_DEADLOCK FALSE

INIT Init
NEXT Next
CONSTANTS
  M = 65536
  Base = 65534
  Plans <- QuickPlans
CONSTRAINT Leaf
CHECK_DEADLOCK FALSE

SPECIFICATION Spec
CONSTANTS
  Classes <- AllClasses
  MaxLen = 3
  NPackets = 2
  MaxInj = 1
INVARIANTS ExactlyOnceInOrder OnlyTwccAdded ErrorsSurface CloseOnce
CHECK_DEADLOCK FALSE

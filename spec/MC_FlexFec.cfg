INIT Init
NEXT Next
CONSTANTS
  M = 65536
  MaxK = 3
  MaxN = 3
  MaxLen = 2
  Shapes = {0, 1, 2}
  Bases = {0, 65534}
  MaskNs = {0}
  Mutant = "none"
INVARIANTS TypeOK EvaluatorAccepts
CHECK_DEADLOCK FALSE

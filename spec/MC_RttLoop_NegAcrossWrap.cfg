SPECIFICATION Spec
CONSTANTS
  K = 1
  SecMod = 4
  Path = "rr"
  Variant = "ok"
  MaxOut = 2
  MaxRep = 1
  Dts = {0, 1, 1000}
  Offs <- OffsOne
  WrapIns = {2}
  DlsrTol = FALSE
  MaxT = 5000
INVARIANTS NegAcrossWrap
CHECK_DEADLOCK FALSE

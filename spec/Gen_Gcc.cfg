INIT Init
NEXT Next
CONSTANTS
  L = 2
  N = 8
  Gaps = {0, 6000}
CONSTRAINT Leaf
CHECK_DEADLOCK FALSE

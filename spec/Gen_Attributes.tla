--------------------------- MODULE Gen_Attributes ---------------------------
EXTENDS Integers, Sequences, TLC, Json
CONSTANTS L
VARIABLES hist
Alpha == {"h1", "h2", "hbad", "htrunc", "c1", "c2", "cbad", "new"}      \* "new": a fresh Attributes map (next packet)
Init == hist = <<>>
Next == Len(hist) < L /\ \E a \in Alpha : hist' = Append(hist, a)
Leaf == IF Len(hist) = L THEN PrintT(<<"TRACE", ToJson(hist)>>) /\ FALSE ELSE TRUE
=============================================================================

SPECIFICATION Spec
CONSTANTS
  Cfg <- CfgSmall
  Feeders <- F2
  MaxWrites = 1
  MaxUpd = 1
  MaxGets = 1
  DVals <- DV
  LVals <- LV
  LossLo = 1
  LossHi = 5
  FinalClamp = TRUE
  CloseWaits = FALSE
INVARIANTS NoPanic
PROPERTIES NoPublishAfterClose

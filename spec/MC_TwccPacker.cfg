INIT Init
NEXT Next
CONSTANTS
  M = 65536
  HMAX = 32768
  WIN = 500000
  GAPMAX = 32766
  RMOD = 16777216
  RU = 64000
  TU = 250
  SMAX = 255
  LNEG = 32768
  LMAX = 32767
  TOL = 125
  FBMOD = 256
  MAXSIZE = 65535
  MARGIN = 32
  V1 = 14
  V2 = 7
  RLMAX = 8191
  MaxLen = 9
  Slack = 1
INVARIANTS RoundTrip WellFormed SanityBound NearOptimal BulkAgrees
CHECK_DEADLOCK FALSE

INIT Init
NEXT NextFree
CONSTANTS
  M = 65536
  MaxK = 3
  MaxN = 2
  NB = 1
  Bases = {65534}
  FBases = {1000}
  Gaps = {0}
  Window = 1
  Track = FALSE
  Lim <- TwoLim
INVARIANTS NoWrongRecovery
CHECK_DEADLOCK FALSE

-------------------------- MODULE Gen_SenderReport --------------------------
(* (G) behaviour generator for C07: every sequence of L actions over a boundary-value alphabet relative to the
   specification state (sequence number relative to the newest sent, timestamp relative to the reference, payload
   size, elapsed time, a packet on another stream, a report tick) at the real constants.  RTP timestamps are
   offsets; the harness adds the base chosen by the check (0 makes the first timestamp 0 on the wire, 2^32-3000
   makes the second frame hit the wrap exactly, 2^31).  The option setting and the clock rate are constants of the run.
   Alpha = 1: full alphabet;  Alpha = 2: reduced alphabet for deeper enumeration. *)
EXTENDS SenderReport, Json
CONSTANTS Base, L, Alpha, Rate, Latest
VARIABLES x, now, aux, hist
vars == <<x, now, aux, hist>>
C1 == [rate |-> Rate, latest |-> Latest]
SeqD == IF Alpha = 1 THEN {1, 2, -1, -5, 0} ELSE {1, -1}
TsD  == IF Alpha = 1 THEN {0, 3000, -3000} ELSE {0, 3000}
\* (payload length, ms elapsed before the packet)
Pay  == IF Alpha = 1 THEN {<<0, 0>>, <<1, 33>>, <<1460, 1000>>} ELSE {<<1, 33>>, <<1460, 0>>}
Ev(a, s, w, ts, len, t) == [a |-> a, s |-> s, w |-> w, ts |-> ts, len |-> len, t |-> t, k |-> 1, rate |-> 0]
Bind(s, r)              == [a |-> "bind", s |-> s, w |-> 0, ts |-> 0, len |-> 0, t |-> 0, k |-> 1, rate |-> r]
Warm == <<Bind(1, Rate), Bind(2, 8000), Ev("rtp", 1, Base % M, 0, 100, 0), Ev("rtp", 2, 7, 500, 10, 0)>>
Init == /\ x = RtpStep(C1, SFresh, Base % M, 0, 100, 0, 1)
        /\ now = 0
        /\ aux = 7
        /\ hist = Warm
Next == /\ Len(hist) < Len(Warm) + L
        /\ \/ \E d \in SeqD, dt \in TsD, p \in Pay :
                LET w == (x.lastSn + d) % M  ts == x.refTs + dt  t == now + p[2] IN
                /\ x' = RtpStep(C1, x, w, ts, p[1], t, 1) /\ now' = t
                /\ hist' = Append(hist, Ev("rtp", 1, w, ts, p[1], t)) /\ UNCHANGED aux
           \/ /\ now' = now + 1000 /\ hist' = Append(hist, Ev("report", 0, 0, 0, 0, now + 1000)) /\ UNCHANGED <<x, aux>>
           \/ /\ aux' = aux + 1 /\ hist' = Append(hist, Ev("rtp", 2, (aux + 1) % M, 660, 20, now)) /\ UNCHANGED <<x, now>>
Leaf == IF Len(hist) = Len(Warm) + L
        THEN PrintT(<<"TRACE", ToJson(Append(hist, Ev("report", 0, 0, 0, 0, now + 1234)))>>) /\ FALSE
        ELSE TRUE
=============================================================================

---------------------------- MODULE MC_GccOveruse ----------------------------
(* (M) the overuse detector's hysteresis and the controller state at scaled-down constants: every sequence of
   MaxSteps samples over small sets of estimates / thresholds / elapsed times. *)
EXTENDS GccOveruse
CONSTANTS Ests, Ths, Deltas, MaxSteps
VARIABLES nd, d, use, tuse, st, stm, overRun, n
vars == <<nd, d, use, tuse, st, stm, overRun, n>>
EstsSmall == {-9, -3, 0, 2, 3, 5, 9}

Init == nd = 0 /\ d = DetFresh /\ use = "normal" /\ tuse = "normal" /\ st = "increase" /\ stm = "increase"
        /\ overRun = 0 /\ n = 0
Next == /\ n < MaxSteps /\ n' = n + 1
        /\ \E e \in Ests, th \in Ths, dl \in Deltas :
             LET c == Compare(nd, e, th)
                 dur == IF c.use = "overuse" THEN DurAfter(d, dl) ELSE 0
                 u == DetUse(d, c, dur) IN
             /\ nd' = nd + 1 /\ tuse' = c.use /\ use' = u /\ d' = DetStep(d, c, dur)
             /\ overRun' = IF c.use = "overuse" THEN overRun + 1 ELSE 0
             /\ st' = RcStep(n = 0, st, u) /\ stm' = RcMemoryless(n = 0, u)
Spec == Init /\ [][Next]_vars

\* overuse is signalled only on an over-threshold sample, never on the first of a run, only after the overuse time
Hysteresis == use = "overuse" => tuse = "overuse" /\ overRun >= 2 /\ d.cnt >= 2 /\ d.dur > OT
\* under-use and normal pass through and reset the run
PassThrough == /\ (tuse = "underuse" <=> use = "underuse")
               /\ (tuse # "overuse" => d.cnt = 0 /\ d.dur = 0 /\ use = tuse)
Counter == d.cnt = overRun
\* fewer than two samples: always normal
WarmUp == n <= 1 => use = "normal"
\* the table followed from the previous state never goes from decrease to increase directly ...
NoDirectIncrease == [][st = "decrease" => st' # "increase"]_vars
\* ... which is exactly where the memoryless application differs (negative control: this property fails)
MemorylessNoDirectIncrease == [][stm = "decrease" => stm' # "increase"]_vars
=============================================================================

------------------------- MODULE Trace_FlexFec20 -------------------------
(* (T) for the RFC 8627 growth of C14: same events as Trace_FlexFec (kind "enc": FlexEncoder20.EncodeFec directly;
   kind "icpt": FecInterceptor built with FECEncoderFactory(-> NewFlexEncoder)), plus
        panic   "" or the text of a Go panic raised by the call (the harness recovers it; the batch has no output)
   TLC lays out the media packets, parses the repair packets and performs the XOR recovery itself, but a divergence
   is NOT a verdict: every event is consumed, and the failed clauses are printed as
        <<"NOTE20", event index, number of repair packets, "{<<clause, number of repair packets failing it>>, ...}">>
   for the check driver to aggregate into growth notes. *)
EXTENDS FlexFec20, Json, IOUtils
Trace == ndJsonDeserialize(IOEnv.VERIF_TRACE)

VARIABLES l, nxt
vars == <<l, nxt>>
Init == l = 1 /\ nxt = <<>>

Cfg(e)  == [ssrc |-> e.ssrc, fecssrc |-> e.fecssrc, fecpt |-> e.fecpt]
K(e)    == Len(e.media)
Reps(e) == IF e.kind = "enc" THEN e.out
           ELSE IF Len(e.out) > K(e) THEN SubSeq(e.out, K(e) + 1, Len(e.out)) ELSE <<>>
Next0(e) == IF e.s \in DOMAIN nxt THEN nxt[e.s] ELSE -1

Fails(e) ==
  IF e.panic # "" THEN {<<0, "panic">>}
  ELSE (IF e.kind = "enc" THEN (IF e.intact THEN {} ELSE {<<0, "media-modified">>})
        ELSE IF Len(e.out) >= K(e) /\ SubSeq(e.out, 1, K(e)) = e.media THEN {} ELSE {<<0, "media-first-unmodified">>})
       \cup (IF K(e) = 0 \/ ~Consecutive(e.media) THEN {}
             ELSE IF ~e.full THEN (IF Reps(e) = <<>> THEN {} ELSE {<<0, "repair-count">>})
             ELSE BatchFails20(Cfg(e), e.media, e.n, Reps(e), Next0(e)))
ByClause(fails) == {<<c, Cardinality({x \in fails : x[2] = c})>> : c \in {x[2] : x \in fails}}

StepNxt(e) ==
  IF e.panic = "" /\ Reps(e) # <<>>
  THEN [s \in DOMAIN nxt \cup {e.s} |-> IF s = e.s THEN (Reps(e)[Len(Reps(e))].seq + 1) % M ELSE nxt[s]]
  ELSE nxt

Next ==
  /\ l <= Len(Trace)
  /\ LET e == Trace[l] IN
     IF e.a = "reset" THEN nxt' = <<>> /\ l' = l + 1
     ELSE LET fails == Fails(e) IN
          /\ (fails = {} \/ PrintT(<<"NOTE20", l, Len(Reps(e)), ToString(ByClause(fails))>>))
          /\ nxt' = StepNxt(e) /\ l' = l + 1

HW == TLCSet(1, IF TLCGet(1) < l THEN l ELSE TLCGet(1))
ASSUME TLCSet(1, 0)
Post == PrintT(<<"HW", TLCGet(1), Len(Trace)>>) /\ TLCGet(1) = Len(Trace) + 1
=============================================================================

----------------------------- MODULE GccProto -----------------------------
(* Protocol-level (implementation-shaped) model of gcc.SendSideBWE for C16: the close protocol and the
   publication of the target bitrate, one action per critical section / channel operation / goroutine step.

     feeders f        WriteRTCP:  closeLock.RLock ; isClosed? ; ackPipe <- acks ; ackRatePipe <- acks ; RUnlock
                      (send_side_bwe.go:185-239, delay_based_bwe.go:101-104; both channels are unbuffered)
     g1               arrivalGroupAccumulator.run ... rateController.onDelayStats -> SendSideBWE.onDelayUpdate:
                      range ackPipe ; per update: e.lock ; min(delay, loss) ; latestBitrate := v ;
                      pacer.SetTargetBitrate(v) ; go onTargetBitrateChange(v) ; unlock   (send_side_bwe.go:295-316)
     g2               rateCalculator.run: range ackRatePipe
     callbacks        one goroutine per spawned change callback
     getter           GetTargetBitrate: e.lock ; read ; unlock
     closer           Close: closeLock.Lock ; close(ackPipe) ; close(ackRatePipe) ; wg.Wait ; close(e.close) ;
                      pacer.Close ; Unlock                          (send_side_bwe.go:283-293, delay_based_bwe.go:106-113)

   closeLock is a Go sync.RWMutex: a waiting writer blocks new readers.
   The ghost variable `abs` runs the property-level machine of Gcc.tla next to the implementation-shaped
   variables; the inputs d, l of every update are ANY element of DVals / LVals.

   Negative controls (constants):
     FinalClamp = FALSE   the update publishes min(clamp(d, min, max), clamp'(l, LossLo, LossHi)) as
                          send_side_bwe.go:299-301 does (the loss controller has its own floor)
     CloseWaits = FALSE   Close does not wait for the pipeline goroutines before it marks the estimator closed *)
EXTENDS Gcc

CONSTANTS Cfg,            \* [init, min, max]
          Feeders,        \* goroutines calling WriteRTCP
          MaxWrites,      \* WriteRTCP calls per feeder
          MaxUpd,         \* onDelayUpdate invocations one feedback batch may cause
          MaxGets,        \* GetTargetBitrate polls
          DVals, LVals,   \* what the numeric pipeline may produce
          LossLo, LossHi, \* the loss controller's own clamp (scaled)
          FinalClamp, CloseWaits

VARIABLES fpc, fres, fcnt, fafter,   \* feeders: program counter, last result, calls made, ghost: call began after Close returned
          rw,                        \* closeLock: [readers, writer, wwait]
          p1closed, p2closed,        \* ackPipe / ackRatePipe closed
          g1, g2,                    \* pipeline goroutines: g1 = [pc, todo], g2 = pc
          elock,                     \* holder of e.lock: "none", "g1"
          latest, pacerlog, pend, dlv,
          closedch,                  \* e.close is closed
          cpc,                       \* closer
          gets,                      \* ghost: results of the getter: <<value, Len(pubs) at the read>>
          abs,                       \* ghost: property-level machine
          panic
vars == <<fpc, fres, fcnt, fafter, rw, p1closed, p2closed, g1, g2, elock, latest, pacerlog, pend, dlv,
          closedch, cpc, gets, abs, panic>>

Init ==
  /\ fpc = [f \in Feeders |-> "idle"] /\ fres = [f \in Feeders |-> "none"] /\ fcnt = [f \in Feeders |-> 0]
  /\ fafter = [f \in Feeders |-> FALSE]
  /\ rw = [readers |-> {}, writer |-> FALSE, wwait |-> FALSE]
  /\ p1closed = FALSE /\ p2closed = FALSE
  /\ g1 = [pc |-> "recv", todo |-> 0] /\ g2 = "recv"
  /\ elock = "none" /\ latest = Cfg.init /\ pacerlog = <<>> /\ pend = EmptyBag /\ dlv = EmptyBag
  /\ closedch = FALSE /\ cpc = "idle" /\ gets = <<>> /\ abs = Fresh(Cfg) /\ panic = FALSE

\* ---- feeders: WriteRTCP ---------------------------------------------------------------------------------
Call(f) ==
  /\ fpc[f] = "idle" /\ fcnt[f] < MaxWrites
  /\ fpc' = [fpc EXCEPT ![f] = "rlock"] /\ fcnt' = [fcnt EXCEPT ![f] = @ + 1]
  /\ fafter' = [fafter EXCEPT ![f] = (cpc = "done")]
  /\ UNCHANGED <<fres, rw, p1closed, p2closed, g1, g2, elock, latest, pacerlog, pend, dlv, closedch, cpc, gets, abs, panic>>
RLock(f) ==
  /\ fpc[f] = "rlock" /\ ~rw.writer /\ ~rw.wwait
  /\ rw' = [rw EXCEPT !.readers = @ \cup {f}]
  /\ fpc' = [fpc EXCEPT ![f] = "check"]
  /\ UNCHANGED <<fres, fcnt, fafter, p1closed, p2closed, g1, g2, elock, latest, pacerlog, pend, dlv, closedch, cpc, gets, abs, panic>>
Check(f) ==
  /\ fpc[f] = "check"
  /\ IF closedch THEN fpc' = [fpc EXCEPT ![f] = "runlock"] /\ fres' = [fres EXCEPT ![f] = "closed"]
                 ELSE fpc' = [fpc EXCEPT ![f] = "send1"] /\ fres' = [fres EXCEPT ![f] = "ok"]
  /\ UNCHANGED <<fcnt, fafter, rw, p1closed, p2closed, g1, g2, elock, latest, pacerlog, pend, dlv, closedch, cpc, gets, abs, panic>>
\* ackPipe <- acks : rendezvous with g1 (a send on a closed channel panics)
Send1(f) ==
  /\ fpc[f] = "send1"
  /\ IF p1closed
     THEN panic' = TRUE /\ UNCHANGED <<fpc, g1>>
     ELSE /\ g1.pc = "recv" /\ g1' = [pc |-> "proc", todo |-> MaxUpd]
          /\ fpc' = [fpc EXCEPT ![f] = "send2"] /\ UNCHANGED panic
  /\ UNCHANGED <<fres, fcnt, fafter, rw, p1closed, p2closed, g2, elock, latest, pacerlog, pend, dlv, closedch, cpc, gets, abs>>
Send2(f) ==
  /\ fpc[f] = "send2"
  /\ IF p2closed
     THEN panic' = TRUE /\ UNCHANGED <<fpc, g2>>
     ELSE /\ g2 = "recv" /\ g2' = "proc"
          /\ fpc' = [fpc EXCEPT ![f] = "runlock"] /\ UNCHANGED panic
  /\ UNCHANGED <<fres, fcnt, fafter, rw, p1closed, p2closed, g1, elock, latest, pacerlog, pend, dlv, closedch, cpc, gets, abs>>
RUnlock(f) ==
  /\ fpc[f] = "runlock"
  /\ rw' = [rw EXCEPT !.readers = @ \ {f}]
  /\ fpc' = [fpc EXCEPT ![f] = "ret"]
  /\ UNCHANGED <<fres, fcnt, fafter, p1closed, p2closed, g1, g2, elock, latest, pacerlog, pend, dlv, closedch, cpc, gets, abs, panic>>
Return(f) ==
  /\ fpc[f] = "ret" /\ fpc' = [fpc EXCEPT ![f] = "idle"]
  /\ UNCHANGED <<fres, fcnt, fafter, rw, p1closed, p2closed, g1, g2, elock, latest, pacerlog, pend, dlv, closedch, cpc, gets, abs, panic>>
Feeder(f) == Call(f) \/ RLock(f) \/ Check(f) \/ Send1(f) \/ Send2(f) \/ RUnlock(f) \/ Return(f)

\* ---- g1: the delay pipeline up to onDelayUpdate ---------------------------------------------------------------
Impl(d, l) == IF FinalClamp THEN Target(Cfg, d, l)
              ELSE Min2(Clamp(d, Cfg.min, Cfg.max), Clamp(l, LossLo, LossHi))
G1Batch ==         \* the batch causes no (further) update
  /\ g1.pc = "proc" /\ g1' = [pc |-> "recv", todo |-> 0]
  /\ UNCHANGED <<fpc, fres, fcnt, fafter, rw, p1closed, p2closed, g2, elock, latest, pacerlog, pend, dlv, closedch, cpc, gets, abs, panic>>
G1Update ==        \* onDelayUpdate: lock, compute, compare, store
  /\ g1.pc = "proc" /\ g1.todo > 0 /\ elock = "none"
  /\ \E d \in DVals, l \in LVals :
       LET v == Impl(d, l) IN
       /\ abs' = Update(Cfg, abs, d, l)
       /\ IF v # latest
          THEN /\ latest' = v /\ elock' = "g1" /\ g1' = [pc |-> "set", todo |-> g1.todo - 1]
          ELSE /\ UNCHANGED <<latest, elock>> /\ g1' = [g1 EXCEPT !.todo = @ - 1]
  /\ UNCHANGED <<fpc, fres, fcnt, fafter, rw, p1closed, p2closed, g2, pacerlog, pend, dlv, closedch, cpc, gets, panic>>
G1PacerSet ==      \* e.pacer.SetTargetBitrate(e.latestBitrate)
  /\ g1.pc = "set" /\ pacerlog' = Append(pacerlog, latest) /\ g1' = [g1 EXCEPT !.pc = "spawn"]
  /\ UNCHANGED <<fpc, fres, fcnt, fafter, rw, p1closed, p2closed, g2, elock, latest, pend, dlv, closedch, cpc, gets, abs, panic>>
G1Spawn ==         \* go e.onTargetBitrateChange(bitrate)
  /\ g1.pc = "spawn" /\ pend' = pend (+) SetToBag({latest}) /\ g1' = [g1 EXCEPT !.pc = "unlock"]
  /\ UNCHANGED <<fpc, fres, fcnt, fafter, rw, p1closed, p2closed, g2, elock, latest, pacerlog, dlv, closedch, cpc, gets, abs, panic>>
G1Unlock ==
  /\ g1.pc = "unlock" /\ elock' = "none" /\ g1' = [g1 EXCEPT !.pc = "proc"]
  /\ UNCHANGED <<fpc, fres, fcnt, fafter, rw, p1closed, p2closed, g2, latest, pacerlog, pend, dlv, closedch, cpc, gets, abs, panic>>
G1Exit ==          \* range over the closed channel ends
  /\ g1.pc = "recv" /\ p1closed /\ g1' = [g1 EXCEPT !.pc = "exit"]
  /\ UNCHANGED <<fpc, fres, fcnt, fafter, rw, p1closed, p2closed, g2, elock, latest, pacerlog, pend, dlv, closedch, cpc, gets, abs, panic>>
G1 == G1Batch \/ G1Update \/ G1PacerSet \/ G1Spawn \/ G1Unlock \/ G1Exit

G2 == /\ \/ g2 = "proc" /\ g2' = "recv"
         \/ g2 = "recv" /\ p2closed /\ g2' = "exit"
      /\ UNCHANGED <<fpc, fres, fcnt, fafter, rw, p1closed, p2closed, g1, elock, latest, pacerlog, pend, dlv, closedch, cpc, gets, abs, panic>>

\* ---- callbacks and the getter ---------------------------------------------------------------------------------
CallbackRun(v) ==
  /\ BagIn(v, pend) /\ pend' = pend (-) SetToBag({v}) /\ dlv' = dlv (+) SetToBag({v})
  /\ abs' = IF CanDeliver(abs, v) THEN Deliver(abs, v) ELSE abs
  /\ UNCHANGED <<fpc, fres, fcnt, fafter, rw, p1closed, p2closed, g1, g2, elock, latest, pacerlog, closedch, cpc, gets, panic>>
GetTarget ==
  /\ Len(gets) < MaxGets /\ elock = "none"
  /\ gets' = Append(gets, <<latest, Len(abs.pubs)>>)
  /\ UNCHANGED <<fpc, fres, fcnt, fafter, rw, p1closed, p2closed, g1, g2, elock, latest, pacerlog, pend, dlv, closedch, cpc, abs, panic>>

\* ---- closer ---------------------------------------------------------------------------------------------------
Closer ==
  /\ \/ cpc = "idle" /\ cpc' = "lock" /\ rw' = [rw EXCEPT !.wwait = TRUE] /\ UNCHANGED <<p1closed, p2closed, closedch, abs>>
     \/ cpc = "lock" /\ rw.readers = {} /\ rw' = [rw EXCEPT !.writer = TRUE, !.wwait = FALSE] /\ cpc' = "pipes"
                     /\ UNCHANGED <<p1closed, p2closed, closedch, abs>>
     \/ cpc = "pipes" /\ p1closed' = TRUE /\ p2closed' = TRUE /\ cpc' = "wait" /\ UNCHANGED <<rw, closedch, abs>>
     \/ cpc = "wait" /\ (CloseWaits => (g1.pc = "exit" /\ g2 = "exit"))
                     /\ closedch' = TRUE /\ abs' = CloseStep(abs) /\ cpc' = "unlock" /\ UNCHANGED <<rw, p1closed, p2closed>>
     \/ cpc = "unlock" /\ rw' = [rw EXCEPT !.writer = FALSE] /\ cpc' = "done" /\ UNCHANGED <<p1closed, p2closed, closedch, abs>>
  /\ UNCHANGED <<fpc, fres, fcnt, fafter, g1, g2, elock, latest, pacerlog, pend, dlv, gets, panic>>

Finished == /\ \A f \in Feeders : fpc[f] = "idle" /\ fcnt[f] = MaxWrites
            /\ cpc = "done" /\ g1.pc = "exit" /\ g2 = "exit" /\ pend = EmptyBag
Terminated == Finished /\ UNCHANGED vars

Next == \/ \E f \in Feeders : Feeder(f)
        \/ G1 \/ G2 \/ Closer \/ GetTarget
        \/ \E v \in Cfg.min - 2 .. Cfg.max + 2 : CallbackRun(v)
        \/ Terminated
Fair == /\ \A f \in Feeders : WF_vars(Feeder(f))
        /\ WF_vars(G1) /\ WF_vars(G2) /\ WF_vars(Closer)
        /\ \A v \in Cfg.min - 2 .. Cfg.max + 2 : WF_vars(CallbackRun(v))
Spec == Init /\ [][Next]_vars /\ Fair

\* ---- the clauses of C16 -------------------------------------------------------------------------------------------
\* positive, finite, within the configured bounds - always, and for everything that was ever published/told
InBounds == /\ InEnvelope(Cfg, latest)
            /\ \A i \in DOMAIN pacerlog : InEnvelope(Cfg, pacerlog[i])
            /\ \A v \in BagToSet(pend) \cup BagToSet(dlv) : InEnvelope(Cfg, v)
\* the implementation-shaped variables agree with the property-level machine
AbsOK == abs.pub = latest /\ abs.dlv = dlv
\* whenever e.lock is free (that is what GetTargetBitrate / a callback can observe): the pacer was told exactly the
\* published sequence, exactly one callback per published value exists, the getter's value is the last published one
Consistent == elock = "none" =>
                 /\ latest = LastOr(abs.pubs, Cfg.init)
                 /\ pacerlog = abs.pubs
                 /\ pend (+) dlv = SeqBag(abs.pubs)
\* never more deliveries than publications, and the pacer never runs ahead
Sub == /\ dlv \sqsubseteq SeqBag(abs.pubs)
       /\ Len(pacerlog) <= Len(abs.pubs) /\ pacerlog = SubSeq(abs.pubs, 1, Len(pacerlog))
GetterOK == \A i \in DOMAIN gets : gets[i][1] = PubAt(Cfg, abs.pubs, gets[i][2])
\* closed error: exactly when closed; a call that began after Close returned fails with it
ClosedErr == \A f \in Feeders : /\ (fres[f] = "closed" => closedch)
                                /\ (fpc[f] = "ret" /\ fafter[f] => fres[f] = "closed")
NoPanic == ~panic
NoPublishAfterClose == [][closedch => (abs.pubs' = abs.pubs /\ pacerlog' = pacerlog /\ latest' = latest)]_vars
\* liveness under fairness: every WriteRTCP returns, Close returns, every spawned callback is delivered
WriteReturns == \A f \in Feeders : (fpc[f] = "rlock") ~> (fpc[f] = "idle")
CloseReturns == (cpc = "lock") ~> (cpc = "done")
AllDelivered == <>[](Finished /\ dlv = SeqBag(abs.pubs))

\* ---- the envelope and the state table, as theorems over the model's value sets -----------------------------------
EnvelopeThm == /\ ValidCfg(Cfg)
               /\ \A d \in DVals, l \in LVals : InEnvelope(Cfg, Target(Cfg, d, l))
               /\ \A v \in Cfg.min .. Cfg.max : \E d \in DVals, l \in LVals : Target(Cfg, d, l) = v
TableThm == /\ \A s \in States, u \in Usages : Trans(s, u) \in States
            /\ \A s \in States : Trans(s, "overuse") = "decrease"                 \* overuse always decreases
            /\ \A s \in States : Trans(s, "underuse") = "hold"                    \* underuse always holds
            /\ \A s \in States : Trans(s, "normal") # "decrease"
            /\ Trans("decrease", "normal") = "hold" /\ Trans("hold", "normal") = "increase"   \* no decrease -> increase edge
            /\ \A u, s \in {"overuse", "underuse", "normal", "increase", "decrease", "hold"} :
                  StatsPairOK(u, s) <=> (<<u, s>> \in {<<"overuse", "decrease">>, <<"underuse", "hold">>,
                                                        <<"normal", "increase">>, <<"normal", "hold">>})
=============================================================================

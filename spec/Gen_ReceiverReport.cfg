INIT Init
NEXT Next
CONSTANTS
  M = 65536
  Hist = 8192
  Cap = 16777215
  JS = 256
  Base = 65530
  L = 2
  Alpha = 1
CONSTRAINT Leaf
CHECK_DEADLOCK FALSE

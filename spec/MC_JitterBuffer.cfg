SPECIFICATION Spec
CONSTANTS
  M = 8
  MaxSteps = 5
  Mins = {1, 2, 3}
  DefMin = 2
  Over = 2
INVARIANTS TypeOK VeryObject AtMostOnce Consecutive StartsAtFirst ClearedGone
PROPERTIES ClearEmpties ReturnedNotCleared PopRemovesOne StartRule
CHECK_DEADLOCK FALSE

INIT Init
NEXT Next
CONSTANTS
  M = 65536
  L = 2
  Exts <- AllExts
  Bases <- B3
CONSTRAINT Leaf
CHECK_DEADLOCK FALSE

SPECIFICATION Spec
INVARIANT NeverCachesFailure
PROPERTY Sticky
CHECK_DEADLOCK FALSE

--------------------------- MODULE Trace_Gcc ---------------------------
(* (T) validates ndjson traces recorded from gcc.SendSideBWE (levels "bwe", "conc"), from cc.Interceptor (level
   "cc") and from state.transition (level "table") against Gcc.tla.  The event order of one trace is the order
   in which the events were appended to the script's log (one mutex): pacer events are appended inside
   SetTargetBitrate, i.e. under the estimator's lock, cb events inside the change callback.

     reset {level, pacer, fb, defaults, init, min, max}
     send {n, ok, gap}                       packets written to the stream writer (inputs, not checked)
     fb {pat, loss, n, res}                  one WriteRTCP call and its result "ok" | "closed" | "err"
     pacer {v}                               SetTargetBitrate(v) on the recording pacer   (absent with pacer = default)
     cb {v}                                  the change callback ran with v
     get {v, lo, hi}                         GetTargetBitrate returned v; lo / hi = pacer calls logged before / after
     stats {usage, state, dt, lt, fin, keys} GetStats
     quiesce {get, lo, hi, ncb, leaky, flush}   pipeline idle and callbacks run (see the harness); leaky = target of the
                                             real leaky bucket pacer or -1
     close {err}                             Close returned
     wcall {f} / wret {f, res}, ccall / cret {err}      level conc: concurrent WriteRTCP calls and Close
     trans {s, u, out} / zero {s, u}         level table
     rcstep {i, prev, u, state, emitted, target}   level table, informational: the state rateController applies
     inconclusive {why}                      quiescence could not be established: the rest of the trace is skipped
     end *)
EXTENDS Gcc, Json, IOUtils
Trace == ndJsonDeserialize(IOEnv.VERIF_TRACE)
KnownSeq == ndJsonDeserialize(IOEnv.VERIF_KNOWN)
Known == {KnownSeq[i].tag : i \in DOMAIN KnownSeq}

VARIABLES l, cfg, rec, x, closing, after, devs, taint
vars == <<l, cfg, rec, x, closing, after, devs, taint>>

Init == /\ l = 1 /\ cfg = DefaultCfg /\ rec = TRUE /\ x = Fresh(DefaultCfg) /\ closing = FALSE /\ after = <<>>
        /\ devs = {} /\ taint = ""

Range(f) == {f[i] : i \in DOMAIN f}
StatKeys == {"lossTargetBitrate", "averageLoss", "delayTargetBitrate", "delayMeasurement", "delayEstimate",
             "delayThreshold", "usage", "state"}
\* LeakyBucketPacer.SetTargetBitrate stores int(1.5 * rate); before the first publication it holds the initial bitrate
LeakyOK(e) == \/ e.leaky = -1
              \/ rec /\ e.leaky = (IF x.pubs = <<>> THEN cfg.init ELSE (3 * e.get) \div 2)
              \/ ~rec /\ (e.leaky = (3 * e.get) \div 2 \/ (e.leaky = cfg.init /\ e.get = cfg.init))

Accept(e) ==
  CASE e.a \in {"send", "wcall", "ccall", "end", "inconclusive"} -> TRUE
    [] e.a = "fb" -> e.res = WriteOut(x)
    [] e.a = "pacer" -> rec /\ Publishable(cfg, x, e.v)
    [] e.a = "cb" -> IF rec THEN CanDeliver(x, e.v) ELSE InEnvelope(cfg, e.v)
    [] e.a = "get" -> /\ InEnvelope(cfg, e.v)
                      /\ rec => /\ e.lo <= e.hi /\ e.hi <= Len(x.pubs)
                                /\ \E k \in e.lo .. e.hi : e.v = PubAt(cfg, x.pubs, k)
    [] e.a = "stats" -> /\ e.fin /\ Range(e.keys) = StatKeys
                        /\ \/ ZeroPair(e.usage, e.state) /\ e.dt = 0
                           \/ StatsPairOK(e.usage, e.state) /\ InEnvelope(cfg, e.dt)
    [] e.a = "quiesce" ->
         /\ InEnvelope(cfg, e.get)
         /\ IF rec THEN x.pend = EmptyBag /\ e.get = GetOut(x)          \* callbacks = published (as bags); getter = last published
                   ELSE e.get \in (IF x.dlv = EmptyBag THEN {cfg.init} ELSE BagToSet(x.dlv))
         /\ LeakyOK(e)
    \* Close reports what the injected pacer's Close returned (inj: it was made to fail); a second Close is harmless
    [] e.a = "close" -> e.err = (IF "inj" \in DOMAIN e /\ e.inj THEN "injected pacer close failure" ELSE "")
    [] e.a = "close2" -> e.err = ""
    [] e.a = "cret" -> e.err = (IF "inj" \in DOMAIN e /\ e.inj THEN "injected pacer close failure" ELSE "")
    [] e.a = "wret" -> /\ e.res \in {"ok", "closed"}
                       /\ (e.res = "closed" => closing)                              \* never the closed error before Close was called
                       /\ (e.f \in DOMAIN after /\ after[e.f] => e.res = "closed")   \* a call begun after Close returned
    [] e.a = "trans" -> e.out = Trans(e.s, e.u)
    [] e.a = "zero" -> ZeroPair(e.u, e.s)
    \* informational: does the rate controller follow the table from its previous state?  (no verdict: C16 does not
    \* state it; the target it computes must be inside its bounds in any case)
    [] e.a = "rcstep" -> /\ e.target >= 50000 /\ e.target <= 200000
                         /\ (e.prev = "" \/ e.state = Trans(e.prev, e.u)
                                \/ PrintT(<<"NOTE", l, "rate controller state", e.state, "after", e.prev, "on", e.u,
                                            "table says", Trans(e.prev, e.u), "memoryless", Trans("increase", e.u)>>))
    [] OTHER -> FALSE

Step(e) ==
  CASE e.a = "pacer" -> x' = PublishObs(x, e.v) /\ UNCHANGED <<closing, after>>
    [] e.a = "cb" -> /\ x' = IF rec THEN Deliver(x, e.v) ELSE [x EXCEPT !.dlv = @ (+) SetToBag({e.v})]
                     /\ UNCHANGED <<closing, after>>
    [] e.a \in {"close", "cret"} -> x' = CloseStep(x) /\ closing' = TRUE /\ UNCHANGED after
    [] e.a = "ccall" -> closing' = TRUE /\ UNCHANGED <<x, after>>
    [] e.a = "wcall" -> after' = [f \in DOMAIN after \cup {e.f} |-> IF f = e.f THEN x.closed ELSE after[f]]
                        /\ UNCHANGED <<x, closing>>
    [] OTHER -> UNCHANGED <<x, closing, after>>

NewDevs(e) ==
  IF e.a \in {"pacer", "cb", "get"} /\ LossFloorBelowMin(cfg, e.v) THEN {"C16.LossFloorBelowMin"}
  ELSE IF e.a = "quiesce" /\ LossFloorBelowMin(cfg, e.get) THEN {"C16.LossFloorBelowMin"}
  ELSE {}

Next ==
  /\ l <= Len(Trace)
  /\ LET e == Trace[l] IN
     IF e.a = "reset" THEN
        /\ cfg' = IF e.defaults THEN DefaultCfg ELSE [init |-> e.init, min |-> e.min, max |-> e.max]
        /\ rec' = (e.pacer # "default")
        /\ x' = Fresh(cfg') /\ closing' = FALSE /\ after' = <<>> /\ devs' = {} /\ taint' = "" /\ l' = l + 1
     ELSE IF taint # "" THEN l' = l + 1 /\ UNCHANGED <<cfg, rec, x, closing, after, devs, taint>>
     ELSE IF e.a = "inconclusive" THEN
        /\ PrintT(<<"INCONCLUSIVE", l>>) /\ taint' = "inconclusive" /\ l' = l + 1
        /\ UNCHANGED <<cfg, rec, x, closing, after, devs>>
     ELSE IF Accept(e) THEN
        /\ Step(e) /\ devs' = devs \cup NewDevs(e) /\ l' = l + 1 /\ UNCHANGED <<cfg, rec, taint>>
     ELSE LET k == (devs \cup NewDevs(e)) \cap Known IN
        IF k # {} THEN /\ PrintT(<<"KNOWNDEV", l, CHOOSE t \in k : TRUE>>)
                       /\ taint' = (CHOOSE t \in k : TRUE) /\ l' = l + 1
                       /\ UNCHANGED <<cfg, rec, x, closing, after, devs>>
        ELSE PrintT(<<"MISMATCH", l, "event", e, "cfg", cfg, "pub", x.pub, "npubs", Len(x.pubs), "pending", x.pend,
                      "closed", x.closed, "devs", devs \cup NewDevs(e)>>) /\ FALSE

HW == TLCSet(1, IF TLCGet(1) < l THEN l ELSE TLCGet(1))
ASSUME TLCSet(1, 0)
Post == PrintT(<<"HW", TLCGet(1), Len(Trace)>>) /\ TLCGet(1) = Len(Trace) + 1
=============================================================================

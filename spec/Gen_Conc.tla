------------------------------ MODULE Gen_Conc ------------------------------
(* (G) C10: TLC enumerates the concurrent programs the interface permits (DESIGN.md appendix A.2): every set of
   2..K roles out of the role alphabet that may legally run in parallel.  Roles:
     w1a, w1b   two writers on the SAME local stream         w3    writer on another local stream
     r2a, r2b   two readers on the same remote stream        r4    reader on another remote stream
     c1, c2     two RTCP read loops                           cw    application RTCP writes
     life       a lifecycle goroutine binding / unbinding OTHER streams
     close      Close racing with the traffic
   Not permitted (never generated): concurrent Bind of the same SSRC, use of a stream while it is being bound. *)
EXTENDS Integers, FiniteSets, Sequences, TLC, Json
CONSTANTS K
VARIABLES prog
Roles == {"w1a", "w1b", "w3", "r2a", "r2b", "r4", "c1", "c2", "cw", "life", "close"}
Init == prog \in {S \in SUBSET Roles : Cardinality(S) >= 2 /\ Cardinality(S) <= K /\ S # {"life", "close"}}
Next == FALSE /\ prog' = prog
SetToSeq(S) == CHOOSE s \in [1 .. Cardinality(S) -> S] : \A i, j \in DOMAIN s : i # j => s[i] # s[j]
Leaf == PrintT(<<"TRACE", ToJson(SetToSeq(prog))>>) /\ FALSE
=============================================================================

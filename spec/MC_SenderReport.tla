-------------------------- MODULE MC_SenderReport --------------------------
(* (M) exhaustive check of the sender-report specification at scaled-down constants.
   History variables are computed packet by packet from the plain definitions: `cnt`/`sum` (packets and payload octets
   written), `nTs`/`nMs` (timestamp of the newest packet sent and the instant the first packet of its frame was sent),
   `hiSn` (newest sequence number), `coh` (every frame so far was stamped T0 + now * Rate / 1000). *)
EXTENDS SenderReport
CONSTANTS MaxSteps, Rate, Latest, T0
VARIABLES x, now, cnt, sum, nTs, nMs, hiSn, coh, act, steps
vars == <<x, now, cnt, sum, nTs, nMs, hiSn, coh, act, steps>>
Cfg == [rate |-> Rate, latest |-> Latest]

Init == /\ x = SFresh /\ now = 0 /\ cnt = 0 /\ sum = 0 /\ nTs = 0 /\ nMs = 0 /\ hiSn = 0 /\ coh = TRUE
        /\ act = [a |-> "init", newer |-> FALSE] /\ steps = 0

\* one packet, by the plain definition (used k times for a burst)
One(s, w, ts, t) ==
  LET d == (w - s.hiSn) % M
      newer == s.cnt = 0 \/ Latest \/ (d > 0 /\ d < H) IN
  [cnt |-> s.cnt + 1,
   hiSn |-> IF newer THEN w ELSE s.hiSn,
   nTs  |-> IF newer THEN ts ELSE s.nTs,
   nMs  |-> IF newer /\ (s.cnt = 0 \/ ts # s.nTs) THEN t ELSE s.nMs,
   coh  |-> s.coh /\ (newer /\ (s.cnt = 0 \/ ts # s.nTs) => ts = T0 + Scale(t, Rate))]
Aux == [cnt |-> cnt, hiSn |-> hiSn, nTs |-> nTs, nMs |-> nMs, coh |-> coh]

Rtp(w, ts, len, k) ==
  LET a1 == One(Aux, w, ts, now)
      a2 == IF k = 2 THEN One(a1, (w + 1) % M, ts, now) ELSE a1 IN
  /\ (k = 2 => Newer(Cfg, x, w))                     \* bursts are consecutive new packets
  /\ x' = RtpStep(Cfg, x, w, ts, len, now, k)
  /\ cnt' = a2.cnt /\ hiSn' = a2.hiSn /\ nTs' = a2.nTs /\ nMs' = a2.nMs /\ coh' = a2.coh
  /\ sum' = sum + k * len
  /\ act' = [a |-> "rtp", newer |-> Newer(Cfg, x, w)]
  /\ UNCHANGED now
Wait(d) == now' = now + d /\ act' = [a |-> "wait", newer |-> FALSE] /\ UNCHANGED <<x, cnt, sum, nTs, nMs, hiSn, coh>>

Next == /\ steps < MaxSteps /\ steps' = steps + 1
        /\ \/ \E w \in 0 .. M - 1, ts \in {T0, T0 + now, T0 + now - 3}, len \in {0, 3}, k \in {1, 2} : Rtp(w, ts, len, k)
           \/ \E d \in {2, 1001} : Wait(d)
Spec == Init /\ [][Next]_vars

\* ---- the clauses of C07 ----
CountOK  == x.pkts = cnt
OctetsOK == x.oct = <<(sum \div W) % W, sum % W>>
\* the reference is the newest packet sent, taken at the first packet of its frame
RefIsNewest == cnt > 0 => x.refTs = nTs /\ x.refMs = nMs /\ x.lastSn = hiSn
\* the report maps RTP time to wall time: reference advanced by elapsed time times the clock rate;
\* for a sender that stamps every frame with T0 + now * Rate / 1000 the report lies on the same line
ReportOK == cnt > 0 => /\ ReportOut(Cfg, x, now).rtp = nTs + Scale(now - nMs, Rate)
                       /\ ReportOut(Cfg, x, now).pkts = cnt
                       /\ 1000 * ReportOut(Cfg, x, now).sec <= now /\ now < 1000 * (ReportOut(Cfg, x, now).sec + 1)
Coherent == (cnt > 0 /\ coh /\ Rate % 1000 = 0) => ReportOut(Cfg, x, now).rtp = T0 + Scale(now, Rate)
\* out-of-order sends never move the reference unless use-latest-packet is set
NoBackward == [][ (~Latest /\ act'.a = "rtp" /\ ~act'.newer) => (x'.refTs = x.refTs /\ x'.refMs = x.refMs /\ x'.lastSn = x.lastSn) ]_vars
CountsMonotone == [][ x'.pkts >= x.pkts ]_vars
\* negative control (expected to be violated): the octet counter wraps in the model
ReachWrap == sum < W * W
=============================================================================

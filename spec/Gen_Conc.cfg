INIT Init
NEXT Next
CONSTANTS
  K = 3
CONSTRAINT Leaf
CHECK_DEADLOCK FALSE

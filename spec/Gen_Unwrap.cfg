INIT Init
NEXT Next
CONSTANTS
  M = 65536
  Base = 65530
  Pre = 0
  L = 3
CONSTRAINT Leaf
CHECK_DEADLOCK FALSE

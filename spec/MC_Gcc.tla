----------------------------- MODULE MC_Gcc -----------------------------
(* (M) exhaustive check of the GCC envelope + close protocol at small constants:
   2 (3) feeders + pipeline goroutines + callback goroutines + getter + closer, every interleaving. *)
EXTENDS GccProto
CfgSmall == [init |-> 3, min |-> 2, max |-> 4]
CfgPoint == [init |-> 2, min |-> 2, max |-> 2]            \* (5k, 5k, 5k): nothing can ever change
F2 == {"f1", "f2"}
F3 == {"f1", "f2", "f3"}
\* what int(NaN) / int(+Inf) / negative deltas / huge gaps may turn into: anything
DV == {-7, 0, 2, 3, 4, 99}
LV == {-7, 3, 99}
ASSUME EnvelopeThm
ASSUME TableThm
=============================================================================

----------------------------- MODULE Rfc8888 -----------------------------
(* Property-level specification of the RFC 8888 congestion control feedback recorder (C08).
   pkg/rfc8888/stream_log.go + recorder.go (+ the loop of interceptor.go, which only feeds them).

   State is kept per SSRC over *true* (unwrapped, unbounded) sequence numbers; the wire carries residues
   modulo M.  Clocks are integer MICROSECONDS (offsets from a base chosen by the harness, below 2^31 = 35 min),
   fine enough to place an arrival on either side of every 1/1024 s boundary of the offset encoding.
   One operator per public call:
     AddStep(x, n16, tUs, ecn)          Recorder.AddPacket on the stream x
     BuildOut(st, nowUs, maxSize)       what Recorder.BuildReport returns (one block per known SSRC)
     BuildStep(st, nowUs, maxSize)      the state after BuildReport
   Per stream:  u     last unwrapped number (the unwrapper's own state)
                next  report cursor: every number below it is outside all later reports
                last  highest number received
                log   true number -> [arr, ecn, ce] of the FIRST copy received (ce: some copy carried ECN-CE)

   Reading of the property (DESIGN.md section 7, C08):
     * a wire number denotes the true number the sequence-number unwrapper of C20 assigns (UwVal below is
       Unwrap!UnwrapVal, including the tie and the floor at zero);
     * the reported history of a stream starts at the first packet received on it; numbers below the cursor
       (acknowledged in a gap-free prefix, or cut by the size limit of an earlier report) are dropped;
     * the size limit is divided equally between the known streams and rounded down to whole 32-bit words
       (an odd count costs 16 bits of padding, RFC 8888 section 3.1), so that the marshalled length can never
       exceed the limit when the limit can hold the headers;
     * a duplicate never changes the arrival time; its ECN mark is only allowed to matter when it is CE
       (RFC 8888 section 3.1: "if any of the copies is ECN-CE marked, an ECN-CE mark MUST be reported"). *)
EXTENDS Integers, FiniteSets, Sequences, TLC

CONSTANT M                       \* sequence-number modulus (65536 in the code)
H == M \div 2

Max(a, b) == IF a > b THEN a ELSE b
Res(t)    == t % M

\* ---- arrival time offset: floor(1024 * seconds), 13 bits ----
AtoOver  == 8190                 \* 0x1FFE  offset too large
AtoAfter == 8191                 \* 0x1FFF  arrival after the report time
AtoMax   == 8189                 \* 0x1FFD  largest representable offset
\* 1024 * d / 10^6 = 16 * d / 15625 (d in microseconds); d < 8 s keeps 16 * d below 2^31
Ato(now, arr) ==
  IF arr > now THEN AtoAfter
  ELSE LET d == now - arr IN
       IF d >= 8000000 THEN AtoOver                    \* 1024 * 8 s = 0x2000 > 0x1FFD
       ELSE LET a == (d * 16) \div 15625 IN IF a > AtoMax THEN AtoOver ELSE a

\* ---- sequence-number unwrapper (same function as Unwrap!UnwrapVal, C20) ----
UwVal(last, v) ==
  LET lw  == last % M
      d   == (v - lw) % M
      bwd == last + d - M
  IN  IF d < H THEN last + d
      ELSE IF d = H /\ v > lw THEN last + d
      ELSE IF bwd >= 0 THEN bwd
      ELSE last + d                                   \* floor at zero: the result is v itself

\* ---- one stream ----
Fresh == [init |-> FALSE, u |-> 0, next |-> 0, last |-> 0, log |-> <<>>]

PutF(f, k, v) == [j \in DOMAIN f \cup {k} |-> IF j = k THEN v ELSE f[j]]
CE == 3

\* true number a packet with wire number n16 denotes on stream x
TrueNum(x, n16) == IF x.init THEN UwVal(x.u, n16) ELSE n16

AddStep(x, n16, tUs, ecn) ==
  LET t  == TrueNum(x, n16)
      nx == IF x.init THEN x.next ELSE t
      y  == [x EXCEPT !.init = TRUE, !.u = t, !.next = nx]
  IN  IF t < nx THEN y                                                      \* below the cursor: dropped
      ELSE IF t \in DOMAIN x.log
           THEN [y EXCEPT !.log = [x.log EXCEPT ![t].ce = @ \/ (ecn = CE)]] \* duplicate: first copy stays
      ELSE [y EXCEPT !.log = PutF(x.log, t, [arr |-> tUs, ecn |-> ecn, ce |-> (ecn = CE)]),
                     !.last = Max(x.last, t)]

\* ---- size budget ----
HeaderLen(k) == 12 + 8 * k                                  \* RTCP header, sender SSRC, timestamp + k block headers
NaiveBudget(maxSize, k) == Max((maxSize - HeaderLen(k)) \div 2, 0) \div k
Budget(maxSize, k) == LET b == NaiveBudget(maxSize, k) IN b - (b % 2)     \* whole 32-bit words per stream

\* ---- one block ----
Begin(x, B) == Max(x.next, x.last - B + 1)
Entry(x, t, now) ==
  IF t \in DOMAIN x.log
  THEN [r |-> 1, ecn |-> x.log[t].ecn, ce |-> x.log[t].ce, ato |-> Ato(now, x.log[t].arr)]
  ELSE [r |-> 0, ecn |-> 0, ce |-> FALSE, ato |-> 0]
BlockOut(x, now, B) ==
  LET b == Begin(x, B)
      n == x.last - b + 1
  IN  [begin |-> b, m |-> [i \in 1 .. n |-> Entry(x, b + i - 1, now)]]
\* the cursor advances over the gap-free received prefix of the block; what it passes leaves the log
BlockStep(x, B) ==
  LET b  == Begin(x, B)
      p  == CHOOSE t \in b .. (x.last + 1) : t \notin DOMAIN x.log /\ \A q \in b .. (t - 1) : q \in DOMAIN x.log
  IN  [x EXCEPT !.next = p, !.log = [t \in {q \in DOMAIN x.log : q >= p} |-> x.log[t]]]

\* ---- the recorder: st is a function SSRC -> stream ----
Get(st, s)    == IF s \in DOMAIN st THEN st[s] ELSE Fresh
RecAdd(st, s, n16, tUs, ecn) == PutF(st, s, AddStep(Get(st, s), n16, tUs, ecn))
K(st) == Cardinality(DOMAIN st)
BuildOut(st, now, maxSize) ==
  IF DOMAIN st = {} THEN <<>>
  ELSE LET B == Budget(maxSize, K(st)) IN [s \in DOMAIN st |-> BlockOut(st[s], now, B)]
BuildStep(st, now, maxSize) ==
  IF DOMAIN st = {} THEN st
  ELSE LET B == Budget(maxSize, K(st)) IN [s \in DOMAIN st |-> BlockStep(st[s], B)]

\* ---- marshalled length of a report with these blocks (cnt: SSRC -> number of entries) ----
RECURSIVE SumLen(_, _)
SumLen(cnt, S) == IF S = {} THEN 0
                  ELSE LET s == CHOOSE s \in S : TRUE IN 8 + 2 * cnt[s] + 2 * (cnt[s] % 2) + SumLen(cnt, S \ {s})
MarshalLen(cnt) == 12 + SumLen(cnt, DOMAIN cnt)
OutLen(out) == MarshalLen([s \in DOMAIN out |-> Len(out[s].m)])

\* ---- report timestamp: middle 32 bits of the NTP time, as <<seconds mod 2^16, 1/65536 s>> ----
\* ntp16 = NTP seconds of the harness's base time modulo 2^16 (the base is a whole second)
\* 65536 / 10^6 = 1024 / 15625
Rts(ntp16, now) == <<(ntp16 + now \div 1000000) % 65536, ((now % 1000000) * 1024) \div 15625>>
\* signed distance in 2^-16 s units between two such pairs, when they are less than a second apart
RtsNear(a, b) == LET ds == ((a[1] - b[1] + 32768) % 65536) - 32768 IN
                 /\ ds \in {-1, 0, 1}
                 /\ ds * 65536 + (a[2] - b[2]) \in {-1, 0, 1}

\* ---- deviation predicates (names usable as tags in KNOWN_FINDINGS.jsonl) ----
\* a second copy of a packet that is still in the log arrives with another time stamp or ECN mark
DupArrival(x, n16, tUs, ecn) ==
  x.init /\ LET t == UwVal(x.u, n16) IN
            t \in DOMAIN x.log /\ (x.log[t].arr # tUs \/ x.log[t].ecn # ecn)
\* a logged packet is at least 64 s older than the report time (1024 * seconds no longer fits 16 bits)
AtoWraps16(st, now) == \E s \in DOMAIN st : \E t \in DOMAIN st[s].log : now - st[s].log[t].arr >= 64000000
\* the equal split of the size limit gives every stream an odd number of entries
OddBudget(st, maxSize) == DOMAIN st # {} /\ NaiveBudget(maxSize, K(st)) % 2 = 1
=============================================================================

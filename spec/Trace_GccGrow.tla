--------------------------- MODULE Trace_GccGrow ---------------------------
(* (T) validates traces recorded from the discrete stages of pkg/gcc against the growth specifications GccGroups.tla
   and GccOveruse.tla.  These specifications describe behaviour that property C16 does not state: a divergence is
   printed as <<"GROWTH", line, kind, ...>> (checks/c16.py turns it into a NOTE), the rest of that trace is skipped,
   and validation continues - this module never rejects a trace.

     reset {lvl}
     gbatch {acks: [{id, dep, arr, size}], out: [{ids, dep, arr}]}   one channel message through arrivalGroupAccumulator.run
                                                                     and the groups it emitted (microsecond offsets, -1 = lost)
     rbatch {acks: [{id, dep, arr, size}], out: [rate]}              one message through rateCalculator.run (arr in ms)
     od {est, th, dlo, dhi, dur, cnt, use, tuse, oest, oth, exact, dsest, dsth, state}
          one sample: adaptiveThreshold.compare (threshold th pinned) -> tuse / oest / oth; overuseDetector -> use,
          increasingDuration dur (ns) and increasingCounter cnt after it, elapsed time within [dlo, dhi] ns;
          rateController state after it *)
EXTENDS GccGroups, GccOveruse, Json, IOUtils
Trace == ndJsonDeserialize(IOEnv.VERIF_TRACE)

VARIABLES l, g, r, nd, d, first, st, rcnoted, taint
vars == <<l, g, r, nd, d, first, st, rcnoted, taint>>

Init == /\ l = 1 /\ g = NoGroup /\ r = RateFresh /\ nd = 0 /\ d = DetFresh /\ first = TRUE /\ st = "increase"
        /\ rcnoted = FALSE /\ taint = ""

AckG(a) == [id |-> a.id, dep |-> a.dep, arr |-> a.arr]
AckR(a) == [arr |-> a.arr, size |-> a.size]
MapSeq(s, Op(_)) == [i \in 1 .. Len(s) |-> Op(s[i])]
GroupRec(x) == [ids |-> x.ids, dep |-> x.dep, arr |-> x.arr]

RECURSIVE RateFold(_, _, _)
RateFold(rr, acks, out) == IF acks = <<>> THEN <<rr, out>>
                           ELSE RateFold(RateStep(rr, Head(acks)), Tail(acks), out \o RateOut(rr, Head(acks)))

Diverge(kind, exp, got) == /\ PrintT(<<"GROWTH", l, kind, "expected", exp, "logged", got>>)
                           /\ taint' = kind /\ l' = l + 1 /\ UNCHANGED <<g, r, nd, d, first, st, rcnoted>>

GBatch(e) ==
  LET f == GroupFold(g, MapSeq(e.acks, AckG), <<>>)
      got == MapSeq(e.out, GroupRec) IN
  IF f[2] = got THEN g' = f[1] /\ l' = l + 1 /\ UNCHANGED <<r, nd, d, first, st, rcnoted, taint>>
  ELSE Diverge("groups", f[2], got)

RBatch(e) ==
  LET f == RateFold(r, MapSeq(e.acks, AckR), <<>>) IN
  IF Len(f[2]) = Len(e.out) /\ \A i \in 1 .. Len(e.out) : RateMatches(f[2][i], e.out[i])
  THEN r' = f[1] /\ l' = l + 1 /\ UNCHANGED <<g, nd, d, first, st, rcnoted, taint>>
  ELSE Diverge("rate", f[2], e.out)

Od(e) ==
  LET c == Compare(nd, e.est, e.th)
      lo == IF d.dur = 0 THEN e.dlo \div 2 ELSE d.dur + e.dlo
      hi == IF d.dur = 0 THEN e.dhi \div 2 ELSE d.dur + e.dhi
      d2 == DetStep(d, c, e.dur)
      rcexp == RcStep(first, st, e.use) IN
  IF ~(e.exact /\ e.tuse = c.use /\ e.oest = c.est /\ e.oth = c.th)
  THEN Diverge("threshold", c, <<e.tuse, e.oest, e.oth, e.exact>>)
  ELSE IF ~(IF c.use = "overuse" THEN lo <= e.dur /\ e.dur <= hi ELSE e.dur = 0)
  THEN Diverge("detector-duration", <<lo, hi>>, e.dur)
  ELSE IF ~(e.cnt = d2.cnt /\ e.use = DetUse(d, c, e.dur) /\ e.dsest = c.est /\ e.dsth = c.th)
  THEN Diverge("detector", <<DetUse(d, c, e.dur), d2.cnt, c.est, c.th>>, <<e.use, e.cnt, e.dsest, e.dsth>>)
  ELSE /\ nd' = nd + 1 /\ d' = d2 /\ first' = FALSE /\ st' = e.state /\ l' = l + 1
       /\ rcnoted' = (rcnoted \/ e.state # rcexp)
       /\ IF e.state = rcexp \/ rcnoted THEN TRUE      \* noted once per trace, the trace continues from the observed state
          ELSE PrintT(<<"GROWTH", l, IF e.state = RcMemoryless(first, e.use) THEN "rcstate-memoryless" ELSE "rcstate",
                        "expected", rcexp, "logged", e.state, "previous", st, "usage", e.use>>)
       /\ UNCHANGED <<g, r, taint>>

Next ==
  /\ l <= Len(Trace)
  /\ LET e == Trace[l] IN
     IF e.a = "reset" THEN
        /\ g' = NoGroup /\ r' = RateFresh /\ nd' = 0 /\ d' = DetFresh /\ first' = TRUE /\ st' = "increase"
        /\ rcnoted' = FALSE /\ taint' = "" /\ l' = l + 1
     ELSE IF taint # "" THEN l' = l + 1 /\ UNCHANGED <<g, r, nd, d, first, st, rcnoted, taint>>
     ELSE IF e.a = "gbatch" THEN GBatch(e)
     ELSE IF e.a = "rbatch" THEN RBatch(e)
     ELSE IF e.a = "od" THEN Od(e)
     ELSE Diverge("unknown-event", "", e.a)

HW == TLCSet(1, IF TLCGet(1) < l THEN l ELSE TLCGet(1))
ASSUME TLCSet(1, 0)
Post == PrintT(<<"HW", TLCGet(1), Len(Trace)>>) /\ TLCGet(1) = Len(Trace) + 1
=============================================================================

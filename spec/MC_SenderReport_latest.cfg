SPECIFICATION Spec
CONSTANTS
  M = 8
  W = 4
  Rate = 1000
  Latest = TRUE
  T0 = 7
  MaxSteps = 5
INVARIANTS CountOK OctetsOK RefIsNewest ReportOK Coherent
PROPERTIES NoBackward CountsMonotone
CHECK_DEADLOCK FALSE

------------------------------ MODULE GccGroups ------------------------------
(* Growth of the C16 specification: the two discrete stages that consume the acknowledgement stream.
   (C16 itself abstracts them; what is written here is the behaviour of the code as read, NOT stated by the
   property - a divergence is reported as a NOTE, not as a violation.)

   1. arrival-group accumulator - pkg/gcc/arrival_group_accumulator.go, arrival_group.go
      ack a = [id, dep, arr]: integer microsecond offsets; arr = Lost for an ack without arrival time
      group g = [init, ids, dep, arr]: dep = departure of the FIRST packet, arr = arrival of the LAST packet added
        GroupStep / GroupOut   one acknowledgement: joins the group, is ignored, or closes the group (emitted) and
                               starts the next one
   2. rate calculator - pkg/gcc/rate_calculator.go
      ack a = [arr, size]: arr in integer MILLIseconds (so that 8 * bytes * 1000 stays below 2^31), Lost as above
      state r = [init, h, sum]: the window (sequence of [arr, size]) and the byte sum
        RateStep / RateOut     one acknowledgement; the output is the rate handed to onRateUpdate *)
EXTENDS Integers, Sequences, FiniteSets, TLC

CONSTANTS BT,      \* burst time: 5000 us (interDepartureThreshold = interArrivalThreshold = 5 ms)
          W        \* rate window: 500 ms
Lost == -1
Huge == 1073741824       \* time.Time.Sub saturates: the distance to the zero time is "infinite"

\* ---- arrival groups ---------------------------------------------------------------------------------------------
NoGroup == [init |-> FALSE, ids |-> <<>>, dep |-> 0, arr |-> 0]
NewGroup(a) == [init |-> TRUE, ids |-> <<a.id>>, dep |-> a.dep, arr |-> a.arr]
AddTo(g, a) == [g EXCEPT !.ids = Append(@, a.id), !.arr = a.arr]
\* next.Arrival.Before(group.arrival): the zero time (Lost) is before every real arrival and not before itself
ArrBefore(x, y) == x # y /\ (x = Lost \/ (y # Lost /\ x < y))
InterArr(g, a) == IF g.arr = Lost THEN (IF a.arr = Lost THEN 0 ELSE Huge) ELSE a.arr - g.arr
InterDep(g, a) == a.dep - g.dep
OutOfOrder(g, a) == ArrBefore(a.arr, g.arr)                 \* "ignore out of order arrivals"
NotAfter(g, a) == a.dep <= g.dep                            \* departure not after the group's (first) departure: dropped
Ignored(g, a) == g.init /\ (OutOfOrder(g, a) \/ NotAfter(g, a))
Joins(g, a) == /\ g.init /\ ~Ignored(g, a)
               /\ \/ InterDep(g, a) <= BT                                     \* sent within one burst
                  \/ InterArr(g, a) <= BT /\ InterArr(g, a) - InterDep(g, a) < 0   \* arrived within one burst, delay shrinking
GroupStep(g, a) == IF ~g.init THEN NewGroup(a)
                   ELSE IF Ignored(g, a) THEN g
                   ELSE IF Joins(g, a) THEN AddTo(g, a)
                   ELSE NewGroup(a)
Emits(g, a) == g.init /\ ~Ignored(g, a) /\ ~Joins(g, a)
Emitted(g) == [ids |-> g.ids, dep |-> g.dep, arr |-> g.arr]
GroupOut(g, a) == IF Emits(g, a) THEN <<Emitted(g)>> ELSE <<>>
\* a batch of acknowledgements (one channel message): final group and all emitted groups
RECURSIVE GroupFold(_, _, _)
GroupFold(g, acks, out) == IF acks = <<>> THEN <<g, out>>
                           ELSE GroupFold(GroupStep(g, Head(acks)), Tail(acks), out \o GroupOut(g, Head(acks)))

\* ---- rate calculator ----------------------------------------------------------------------------------------------
RateFresh == [init |-> FALSE, h |-> <<>>, sum |-> 0]
\* leading entries that arrived before the deadline are dropped; the scan stops at the first one that did not
Keep(h, deadline) == CHOOSE i \in 1 .. Len(h) : h[i].arr >= deadline /\ \A j \in 1 .. i - 1 : h[j].arr < deadline
SumOf(h) == LET F[i \in 0 .. Len(h)] == IF i = 0 THEN 0 ELSE F[i - 1] + h[i].size IN F[Len(h)]
RateStep(r, a) ==
  IF a.arr = Lost THEN r
  ELSE LET h1 == Append(r.h, [arr |-> a.arr, size |-> a.size]) IN
       IF ~r.init THEN [init |-> TRUE, h |-> h1, sum |-> r.sum + a.size]
       ELSE LET k == Keep(h1, a.arr - W)
                h2 == SubSeq(h1, k, Len(h1)) IN
            [init |-> TRUE, h |-> h2, sum |-> SumOf(h2)]
Undefined == -2          \* bits / 0 s: int(+Inf) or int(NaN) - not defined by the Go specification
TruncDiv(n, d) == IF d > 0 THEN n \div d ELSE -(n \div (-d))      \* n >= 0: truncation toward zero as int() does
RateOut(r, a) ==         \* <<>> = no update, else <<rate>>
  IF a.arr = Lost THEN <<>>
  ELSE IF ~r.init THEN <<8 * a.size>>
  ELSE LET r2 == RateStep(r, a)
           dt == a.arr - r2.h[1].arr IN
       IF dt = 0 THEN <<Undefined>> ELSE <<TruncDiv(8 * r2.sum * 1000, dt)>>
\* int(float64(bits) / dt.Seconds()): two roundings of relative size 2^-53 on a quotient below 2^31 move it by less
\* than 10^-6, so truncation can differ from the exact one by at most 1
Saturated == 2147483647     \* the harness logs anything outside 32 bits as +-Saturated
RateMatches(exp, got) == exp = Undefined \/ (got # Saturated /\ got # -Saturated /\ got - exp <= 1 /\ exp - got <= 1)
=============================================================================

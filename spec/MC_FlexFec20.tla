-------------------------- MODULE MC_FlexFec20 --------------------------
(* (M) for the RFC 8627 growth of C14: the same state space as MC_FlexFec (batches of tiny packets / all (k, n) for the
   mask part), checked against the RFC 8627 repair packet of FlexFec20. *)
EXTENDS MC_FlexFec, FlexFec20

Built20(W, S) ==
  LET good == RepairPayload20(W, S, base) IN
  CASE Mutant = "none" -> good
    [] Mutant = "skipts" -> [good EXCEPT ![8] = IF Cardinality(S) > 1 THEN good[8] ^^ 1 ELSE good[8]]
    [] OTHER -> good

Clauses20(W, n, r) ==
  LET S   == Covers(K, n)[r]
      f   == ParseFec20(Built20(W, S))
      tot == XorSet(W, S)
  IN [ mask |-> f.ok /\ f.mask = S /\ f.snbase = base /\ f.hs = 10 + MaskLen20(S),
       rec  |-> \A i \in S : Recover20(f, Ssrc, W, i) = W[i + 1],
       fast |-> \A i \in S : RecoverFast20(f, Ssrc, tot, W, i) = Recover20(f, Ssrc, W, i) ]
RecoveryOK20 == LET W == WireOf(batch) IN \A n \in 1 .. MaxN : \A r \in 1 .. Min(K, n) : Clauses20(W, n, r).rec
Conform20    == LET W == WireOf(batch) IN \A n \in 1 .. MaxN : \A r \in 1 .. Min(K, n) :
                  LET c == Clauses20(W, n, r) IN c.mask /\ c.rec /\ c.fast
\* the fine-grained clause evaluator accepts the specification's own repair packets
EvaluatorAccepts20 == \A n \in 1 .. MaxN : K >= 1 =>
               LET cfg == [fecssrc |-> <<0, 0, 0, 5>>, fecpt |-> 49, ssrc |-> Ssrc]
                   W == WireOf(batch)
                   reps == Mat([r \in 1 .. Min(K, n) |->
                             [p |-> FALSE, x |-> FALSE, csrc |-> <<Ssrc>>, ssrc |-> cfg.fecssrc, pt |-> 49,
                              seq |-> (M - 1 + r - 1) % M, pl |-> Built20(W, Covers(K, n)[r])]], Min(K, n)) IN
               BatchFails20(cfg, batch, n, reps, M - 1) = {}

\* mask part, all (k, n): every index 0..109 is nameable, fields decode to exactly the cover, k-bits chain
CoverAll20 == (nn >= 1 /\ Accepted20(kk, nn)) =>
  \A r \in 1 .. Min(kk, nn) :
       LET S  == Cover(kk, nn, r - 1)
           mb == MaskBytes20(S)
           f  == ParseFec20(Zeros(10) \o mb \o <<170>>) IN
       /\ \A i \in S : Nameable20(i)
       /\ f.ok /\ f.mask = S /\ f.body = <<170>>
       /\ f.hs = (IF S \subseteq 0 .. 14 THEN 12 ELSE IF S \subseteq 0 .. 45 THEN 16 ELSE 24)
       /\ BytesToBits(mb) \cap KPositions20 = KBits20(S)
=============================================================================

-------------------------- MODULE Trace_Unwrap --------------------------
(* (T) validates ndjson traces recorded from internal/sequencenumber.Unwrapper against Unwrap.  Events:
     {"a":"reset"}                                   a fresh Unwrapper
     {"a":"feed","v":n16,"r":result}                 Unwrap(v) returned r (the state advances)
     {"a":"table","runs":[{"lo":..,"hi":..,"c":..}]} for the current state L, Unwrap(v) was called on a copy of
                                                     the Unwrapper for ALL v in 0..M-1; the results are given
                                                     run-length encoded as maximal runs lo..hi of constant
                                                     c = result - v (the state does not advance)
   A table is accepted iff the runs partition 0..M-1 and, for every run and EVERY v in it,
   UnwrapVal(L, v) = v + c  (the quantification over v happens here, inside TLC). *)
EXTENDS Unwrap, Sequences, TLC, Json, IOUtils
Trace == ndJsonDeserialize(IOEnv.VERIF_TRACE)
KnownSeq == ndJsonDeserialize(IOEnv.VERIF_KNOWN)
Known == {KnownSeq[i].tag : i \in DOMAIN KnownSeq}

VARIABLES l, st, devs, taint
vars == <<l, st, devs, taint>>

Init == l = 1 /\ st = Fresh /\ devs = {} /\ taint = ""

Partition(runs) ==
  /\ Len(runs) >= 1 /\ runs[1].lo = 0 /\ runs[Len(runs)].hi = M - 1
  /\ \A i \in DOMAIN runs : runs[i].lo <= runs[i].hi /\ (i > 1 => runs[i].lo = runs[i - 1].hi + 1)
RunOK(run) == \A v \in run.lo .. run.hi : UnwrapVal(st, v) = v + run.c
TableOK(runs) == Partition(runs) /\ \A i \in DOMAIN runs : RunOK(runs[i])
\* first offending input of a rejected table: <<v, expected result, logged result>>
Offender(runs) ==
  IF ~Partition(runs) THEN <<"runs do not partition 0..M-1">>
  ELSE LET i == CHOOSE j \in DOMAIN runs : ~RunOK(runs[j])
           v == CHOOSE w \in runs[i].lo .. runs[i].hi : UnwrapVal(st, w) # w + runs[i].c
       IN <<"v", v, "expected", UnwrapVal(st, v), "logged", v + runs[i].c>>

Accept(e) ==
  IF e.a = "feed" THEN e.v \in 0 .. M - 1 /\ UnwrapVal(st, e.v) = e.r
  ELSE IF e.a = "table" THEN TableOK(e.runs)
  ELSE FALSE
Expected(e) == IF e.a = "feed" THEN <<UnwrapVal(st, e.v)>> ELSE IF e.a = "table" THEN Offender(e.runs) ELSE <<"unknown event">>
Logged(e)   == IF e.a = "feed" THEN <<e.r>> ELSE <<>>
StepState(e) == IF e.a = "feed" THEN UnwrapNext(st, e.v) ELSE st

\* no deviation of the code from Unwrap is recorded as a known finding; the skeleton is kept so that one can be added
\* (FloorCase is the reading fixed in DESIGN.md and is part of the specification, not a deviation)
NewDevs(e) == {}

Next ==
  /\ l <= Len(Trace)
  /\ LET e == Trace[l] IN
     IF e.a = "reset" THEN
        /\ st' = Fresh /\ devs' = {} /\ taint' = "" /\ l' = l + 1
     ELSE IF taint # "" THEN l' = l + 1 /\ UNCHANGED <<st, devs, taint>>
     ELSE IF Accept(e) THEN
        /\ st' = StepState(e) /\ devs' = devs \cup NewDevs(e) /\ l' = l + 1 /\ UNCHANGED taint
     ELSE LET k == (devs \cup NewDevs(e)) \cap Known IN
        IF k # {} THEN /\ PrintT(<<"KNOWNDEV", l, CHOOSE t \in k : TRUE>>)
                       /\ taint' = (CHOOSE t \in k : TRUE) /\ l' = l + 1 /\ UNCHANGED <<st, devs>>
        ELSE PrintT(<<"MISMATCH", l, "state", st, "expected", Expected(e), "logged", Logged(e)>>) /\ FALSE

HW == TLCSet(1, IF TLCGet(1) < l THEN l ELSE TLCGet(1))
ASSUME TLCSet(1, 0)
Post == PrintT(<<"HW", TLCGet(1), Len(Trace)>>) /\ TLCGet(1) = Len(Trace) + 1
=============================================================================

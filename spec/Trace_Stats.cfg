INIT Init
NEXT Next
CONSTANTS
  M = 65536
  K = 5
  Tol = 2
CONSTRAINT HW
POSTCONDITION Post
CHECK_DEADLOCK FALSE

SPECIFICATION Spec
CONSTANTS
  M = 8
  N = 3
  W0 = 6
  MaxSend = 3
  MaxFb = 2
  MaxChunks = 1
  RlSyms = {0, 1}
  RlLens = {1, 2}
  VecSyms = {0, 1}
  VecLens = {2}
  Bases = {6, 7}
  CountDown = {0, 1}
  CountUp = {}
  DeltaModes = {"all"}
  WithCcfb = FALSE
INVARIANTS NamesSentPacket ExactTwccStatus ExactCcfbStatus IndependentOfNeighbours Complete ErrorIffTooFewDeltas
  LruBounded ReportedOnceInOrder ReportNamesSent ReportStatusIsLatest CursorSane
CHECK_DEADLOCK FALSE

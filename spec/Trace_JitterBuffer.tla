------------------------ MODULE Trace_JitterBuffer ------------------------
(* (T) validates ndjson traces recorded from pkg/jitterbuffer against JitterBuffer.tla.
   Every event carries all fields (unused ones are 0 / "" / false / []):
     a      action (below)            n, ts, b   arguments (sequence number, timestamp offset, bool)
     id     identity given to the pushed packet (1, 2, .. per trace)
     res    identity of the returned packet object (0: nil; -2: an object that was never pushed)
     err    "" | "buffering" | "underrun" | "invalid" | "notfound" | other text
     ok     harness-side integrity of the returned object (same header/payload as pushed; nil on error)
     head   PlayoutHead() after the call        len   Length() after the call
     reach  number of list nodes reachable from the queue head after the call (-1: cyclic list)
     prevok prev pointers consistent after the call (head.prev = nil, n.next.prev = n; JitterList.PrevConsistent)
     ev     listener events fired during the call, in order       cnt/size  icpt: bytes returned / packet size
   Actions:  reset{level,min}
     pq   : qpush qpop qpopat qpopts qfind qclear             (PriorityQueue)
     jb   : push pop popseq popts peek peekseq sethead clear   (JitterBuffer)
     icpt : read unbind                                         (ReceiverInterceptor.BindRemoteStream reader)
   The specification is relational only among duplicates of one sequence number: the logged result must be
   one of XOut(..); the successor state is computed from the logged result. *)
EXTENDS JitterBuffer, Json, IOUtils
Trace == ndJsonDeserialize(IOEnv.VERIF_TRACE)
KnownSeq == ndJsonDeserialize(IOEnv.VERIF_KNOWN)
Known == {KnownSeq[i].tag : i \in DOMAIN KnownSeq}

VARIABLES l, c, lvl, x, nid, devs, taint
vars == <<l, c, lvl, x, nid, devs, taint>>

Cfg(min) == [min |-> min, defmin |-> 50, over |-> 100]
Init == l = 1 /\ c = Cfg(50) /\ lvl = "jb" /\ x = JBInit(Cfg(50)) /\ nid = 0 /\ devs = {} /\ taint = ""

NewE(e) == Entry(e.n, e.id, e.ts)
AfterRead(e) == JBPushStep(c, x, NewE(e))

\* the set of results the specification allows for event e in state x
Outs(e) ==
  CASE e.a = "qpop"    -> PQPopOut(x.buf)
    [] e.a = "qpopat"  -> PQPopAtOut(x.buf, e.n)
    [] e.a = "qpopts"  -> PQPopAtTsOut(x.buf, e.ts)
    [] e.a = "qfind"   -> PQFindOut(x.buf, e.n)
    [] e.a = "pop"     -> JBPopOut(x)
    [] e.a = "popseq"  -> JBPopAtSeqOut(x, e.n)
    [] e.a = "popts"   -> JBPopAtTsOut(x, e.ts)
    [] e.a = "peek"    -> JBPeekOut(x, e.b)
    [] e.a = "peekseq" -> JBPeekAtSeqOut(x, e.n)
    [] e.a = "read"    -> IF AfterRead(e).st = "E" THEN JBPopOut(AfterRead(e)) ELSE {Err("buffering")}
    [] OTHER           -> {Ok(0)}          \* calls without a result: res = 0, err = ""

\* successor state given the returned result r
Step(e, r) ==
  CASE e.a \in {"qpush"}                    -> [x EXCEPT !.buf = PQPushStep(@, NewE(e))]
    \* k pushes as one event: priorities n, n - 1, ... (mod 2^16), ids counting up from e.id
    [] e.a = "qbulk"                        -> [x EXCEPT !.buf = @ \cup {Entry((e.n - i) % 65536, e.id + i, e.ts) : i \in 0 .. e.k - 1}]
    [] e.a \in {"qpop", "qpopat", "qpopts"} -> [x EXCEPT !.buf = PQPopStep(@, r)]
    [] e.a = "qclear"                       -> [x EXCEPT !.buf = PQClearStep(@)]
    [] e.a = "push"                         -> JBPushStep(c, x, NewE(e))
    [] e.a = "pop"                          -> JBPopStep(x, r)
    [] e.a = "popseq"                       -> JBPopAtSeqStep(x, r)
    [] e.a = "popts"                        -> JBPopAtTsStep(x, r)
    [] e.a = "sethead"                      -> JBSetHeadStep(x, e.n)
    [] e.a = "clear"                        -> JBClearStep(c, x, e.b)
    [] e.a = "read"                         -> IF AfterRead(e).st = "E" THEN JBPopStep(AfterRead(e), r) ELSE AfterRead(e)
    [] e.a = "unbind"                       -> JBClearStep(c, x, TRUE)
    [] OTHER                                -> x        \* qfind, peek, peekseq

Events(e, r) ==
  CASE e.a = "push" -> JBPushEv(c, x, NewE(e))
    [] e.a \in {"pop", "popseq", "popts"} -> PopEv(x, r)
    [] OTHER -> <<>>

Res(e) == [id |-> e.res, err |-> e.err]
IsPush(e) == e.a \in {"qpush", "push", "read"}
NewIds(e) == IF e.a = "qbulk" THEN e.k ELSE IF IsPush(e) THEN 1 ELSE 0
Known_a == {"qbulk", "qpush", "qpop", "qpopat", "qpopts", "qfind", "qclear", "push", "pop", "popseq", "popts", "peek",
            "peekseq", "sethead", "clear", "read", "unbind"}

\* what the specification expects to be logged after event e given the result it returned
After(e, r) == LET y == Step(e, r) IN
  [head |-> IF lvl = "pq" THEN 0 ELSE JBPlayoutHead(y), len |-> PQLength(y.buf) % 65536, reach |-> PQLength(y.buf),     \* (Length() is a uint16: it wraps, the list does not)
   ev |-> IF lvl = "jb" THEN Events(e, r) ELSE <<>>,
   cnt |-> IF e.a # "read" THEN 0 ELSE IF IsOk(r) \/ r.err = "buffering" THEN e.size ELSE 0]
LoggedAfter(e) == [head |-> e.head, len |-> e.len, reach |-> e.reach, ev |-> e.ev, cnt |-> IF e.a = "read" THEN e.cnt ELSE 0]

Accept(e) ==
  /\ e.a \in Known_a
  /\ (NewIds(e) > 0 => e.id = nid + 1)
  /\ Res(e) \in Outs(e)
  /\ e.ok
  /\ e.prevok
  /\ LoggedAfter(e) = After(e, Res(e))

NewDevs(e) ==
  (IF e.a \in {"qclear", "clear", "unbind"} /\ ClearNonEmpty(x.buf) THEN {"C18.ClearNonEmpty"} ELSE {})
  \cup (IF IsPush(e) /\ DupOfLowest(x.buf, e.n) THEN {"C18.DupOfLowest"} ELSE {})

Next ==
  /\ l <= Len(Trace)
  /\ LET e == Trace[l] IN
     IF e.a = "reset" THEN
        /\ c' = Cfg(e.min) /\ lvl' = e.level /\ x' = JBInit(Cfg(e.min)) /\ nid' = 0
        /\ devs' = {} /\ taint' = "" /\ l' = l + 1
     ELSE IF taint # "" THEN l' = l + 1 /\ UNCHANGED <<c, lvl, x, nid, devs, taint>>
     ELSE IF Accept(e) THEN
        /\ x' = Step(e, Res(e)) /\ nid' = nid + NewIds(e)
        /\ devs' = devs \cup NewDevs(e) /\ l' = l + 1 /\ UNCHANGED <<c, lvl, taint>>
     ELSE LET k == (devs \cup NewDevs(e)) \cap Known IN
        IF k # {} THEN /\ PrintT(<<"KNOWNDEV", l, CHOOSE t \in k : TRUE>>)
                       /\ taint' = (CHOOSE t \in k : TRUE) /\ l' = l + 1 /\ UNCHANGED <<c, lvl, x, nid, devs>>
        ELSE PrintT(<<"MISMATCH", l, "expected one of", Outs(e), "then",
                      After(e, IF Res(e) \in Outs(e) THEN Res(e) ELSE CHOOSE r \in Outs(e) : TRUE),
                      "logged", Res(e), "ok", e.ok, "prevok", e.prevok, LoggedAfter(e), "devs", devs \cup NewDevs(e)>>) /\ FALSE

HW == TLCSet(1, IF TLCGet(1) < l THEN l ELSE TLCGet(1))
ASSUME TLCSet(1, 0)
Post == PrintT(<<"HW", TLCGet(1), Len(Trace)>>) /\ TLCGet(1) = Len(Trace) + 1
=============================================================================

--------------------------- MODULE MC_Rfc8888 ---------------------------
(* (M) exhaustive check of the RFC 8888 recorder specification at scaled-down constants: every history of
   <= MaxAdds packets (every wire number, ECN marks FirstEcn / Ecns, arrival clock (microseconds) = Tick * number of packets so far) over
   the streams SSRC and <= MaxBuilds reports (every maximum size in Sizes; report time = the time of the
   latest arrival, or 1 us before it).  The clauses of C08 are stated over independent history variables
   (seen / first / rep / fresh), not over the log the machine keeps. *)
EXTENDS Rfc8888
CONSTANTS SSRC, Sizes, Ecns, FirstEcn, MaxAdds, MaxBuilds, Tick, Even
VARIABLES st, clk, out, rep, seen, first, fresh, adds, builds
vars == <<st, clk, out, rep, seen, first, fresh, adds, builds>>

\* negative control: with Even = FALSE the budget of DESIGN.md / recorder.go (no rounding to whole words) is used
Bud(ms, k) == IF Even THEN Budget(ms, k) ELSE NaiveBudget(ms, k)
Out(s, now, ms) == IF DOMAIN s = {} THEN <<>> ELSE [i \in DOMAIN s |-> BlockOut(s[i], now, Bud(ms, K(s)))]
Step(s, ms)     == IF DOMAIN s = {} THEN s ELSE [i \in DOMAIN s |-> BlockStep(s[i], Bud(ms, K(s)))]

Init == /\ st = <<>> /\ clk = 0
        /\ out = [blocks |-> <<>>, now |-> 0, max |-> 0]
        /\ rep = [s \in SSRC |-> {}] /\ seen = [s \in SSRC |-> {}] /\ fresh = [s \in SSRC |-> {}]
        /\ first = [s \in SSRC |-> <<>>]
        /\ adds = 0 /\ builds = 0

Add(s, n, ecn) ==
  LET x == Get(st, s)
      t == TrueNum(x, n)
      tm == clk + Tick
  IN  /\ adds < MaxAdds /\ adds' = adds + 1 /\ clk' = tm
      /\ st' = RecAdd(st, s, n, tm, ecn)
      /\ seen' = [seen EXCEPT ![s] = @ \cup {t}]
      /\ first' = [first EXCEPT ![s] = IF t \in DOMAIN @ THEN @ ELSE PutF(@, t, [arr |-> tm, ecn |-> ecn])]
      /\ fresh' = [fresh EXCEPT ![s] = IF t \notin seen[s] /\ (~x.init \/ t >= x.next) THEN @ \cup {t} ELSE @]
      /\ UNCHANGED <<out, rep, builds>>

RecvIn(b) == {b.begin + i - 1 : i \in {j \in DOMAIN b.m : b.m[j].r = 1}}
Build(ms, past) ==
  LET now == IF past THEN clk - 1 ELSE clk
      o == Out(st, now, ms)
  IN  /\ builds < MaxBuilds /\ builds' = builds + 1
      /\ out' = [blocks |-> o, now |-> now, max |-> ms]
      /\ st' = Step(st, ms)
      /\ rep' = [s \in SSRC |-> IF s \in DOMAIN o THEN rep[s] \cup RecvIn(o[s]) ELSE rep[s]]
      /\ fresh' = [s \in SSRC |-> {}]
      /\ UNCHANGED <<clk, seen, first, adds>>

\* the ECN mark only branches where it can matter: first copies carry FirstEcn, later copies every mark in Ecns
EcnChoice(s, n) == IF TrueNum(Get(st, s), n) \in seen[s] THEN Ecns ELSE {FirstEcn}
Next == \/ \E s \in SSRC, n \in 0 .. M - 1 : \E e \in EcnChoice(s, n) : Add(s, n, e)
        \/ \E ms \in Sizes, past \in BOOLEAN : Build(ms, past)
Spec == Init /\ [][Next]_vars

IsBuild == builds' = builds + 1
Blk(s)  == out'.blocks[s]
Num(s, i) == Blk(s).begin + i - 1

\* ---- state invariants ----
TypeOK == \A s \in DOMAIN st :
            LET x == st[s] IN
            /\ x.init /\ x.next >= 0 /\ x.next <= x.last + 1
            /\ DOMAIN x.log \subseteq x.next .. x.last
            /\ (DOMAIN x.log # {} => x.last \in DOMAIN x.log)
            /\ (DOMAIN x.log = {} => x.next = x.last + 1)
            /\ DOMAIN x.log = {t \in seen[s] : t >= x.next}          \* the log is exactly "arrived and not yet passed"
            /\ \A t \in DOMAIN x.log : x.log[t].arr = first[s][t].arr   \* ... with the first copy's arrival time
\* the marshalled report respects the limit whenever the limit can hold the headers
SizeBound == out.max >= HeaderLen(K(out.blocks)) => OutLen(out.blocks) <= out.max
\* the same bound as a lemma over the real range of limits and stream counts (worst case: every stream is cut)
ASSUME Even => \A ms \in 12 .. 1500, k \in 1 .. 12 :
          ms >= HeaderLen(k) => MarshalLen([s \in 1 .. k |-> Budget(ms, k)]) <= ms
\* arrival time offsets: 13 bits, monotone in the age, saturating, never wrapping
ASSUME \A d \in (0 .. 3000) \cup (7995000 .. 8002000) \cup {63999999, 64000000, 64500000, 131072000} :
         LET a == Ato(d, 0) IN
         /\ a \in 0 .. AtoOver
         /\ (a = AtoOver <=> d * 16 >= 8190 * 15625)                       \* 1024 * seconds >= 0x1FFE
         /\ (a < AtoOver => a * 15625 <= d * 16 /\ d * 16 < (a + 1) * 15625)  \* a = floor(1024 * seconds)
ASSUME /\ Ato(0, 1) = AtoAfter /\ Ato(0, 0) = 0 /\ Ato(1000000, 0) = 1024 /\ Ato(64500000, 0) = AtoOver
       /\ Ato(976, 0) = 0 /\ Ato(977, 0) = 1 /\ Ato(7998046, 0) = AtoMax /\ Ato(7998047, 0) = AtoOver
       /\ Ato(7999023, 0) = AtoOver /\ Ato(7999024, 0) = AtoOver /\ Ato(7999999, 0) = AtoOver

\* ---- action properties: the clauses of C08 for every report ----
\* one block per known stream, contiguous, ending at the highest number received, beginning at or after the cursor
Contiguous == [][ IsBuild => /\ DOMAIN out'.blocks = DOMAIN st
                             /\ \A s \in DOMAIN st : /\ Blk(s).begin + Len(Blk(s).m) = st[s].last + 1
                                                     /\ Blk(s).begin >= st[s].next ]_vars
\* received flag <=> the number arrived; offsets are those of the first copy; lost entries are all-zero
Flags == [][ IsBuild => \A s \in DOMAIN st : \A i \in DOMAIN Blk(s).m :
               LET e == Blk(s).m[i] IN
               /\ (e.r = 1) <=> (Num(s, i) \in seen[s])
               /\ e.r = 1 => /\ e.ato = Ato(out'.now, first[s][Num(s, i)].arr)
                             /\ e.ecn = first[s][Num(s, i)].ecn
               /\ e.r = 0 => e.ato = 0 /\ e.ecn = 0 ]_vars
\* once reported received, never later reported lost
NeverLostAgain == [][ IsBuild => \A s \in DOMAIN st : \A i \in DOMAIN Blk(s).m :
                        Blk(s).m[i].r = 0 => Num(s, i) \notin rep[s] ]_vars
\* every first-time arrival since the last report is in this one, unless the size limit cut it (newest kept, block full)
NewAppear == [][ IsBuild => \A s \in DOMAIN st : \A t \in fresh[s] :
                   IF t >= Blk(s).begin THEN t \in RecvIn(Blk(s))
                   ELSE /\ Len(Blk(s).m) = Bud(out'.max, K(st))
                        /\ Blk(s).begin = st[s].last - Bud(out'.max, K(st)) + 1 ]_vars
\* the cursor only moves forward, past the cut and over the gap-free received prefix of the block
Cursor == [][ IsBuild => \A s \in DOMAIN st :
                /\ st'[s].next >= Blk(s).begin
                /\ \A t \in Blk(s).begin .. st'[s].next - 1 : t \in RecvIn(Blk(s))
                /\ st'[s].next \notin RecvIn(Blk(s)) ]_vars
\* streams are independent
Independent == [][ \A s \in SSRC : (adds' = adds + 1 /\ s \in DOMAIN st /\ st'[s] # st[s]) =>
                      \A s2 \in DOMAIN st \ {s} : st'[s2] = st[s2] ]_vars
=============================================================================

---------------------------- MODULE Gen_Stats ----------------------------
(* (G) behaviour generator for C19: every sequence of L events over an alphabet that is *relative to the
   specification state* (distances of the next sequence number to the last one, references to the newest /
   oldest / an unknown remembered SR and RRTR time, compounds that mix packet types addressed to the stream
   under test (1), to a second bound stream (2) and to a foreign SSRC (3)), at the real modulus.  Each complete
   behaviour is printed as one JSON script; the Go harness executes it on the real recorder / Interceptor and the
   recorded trace is validated by Trace_Stats.  With -simulate the same alphabet is walked randomly. *)
EXTENDS Stats, Json
CONSTANTS Base,    \* wire number of the first incoming packet of stream 1
          OBase,   \* wire number of the first outgoing packet of stream 1
          Pre,     \* extra sender reports / RRTR blocks written during the warm-up (4 fills the window of K = 5)
          L
VARIABLES st, now, hist
vars == <<st, now, hist>>

Ev(a, s, p, w, hl, pl, t, rate, d, pk) ==
  [a |-> a, s |-> s, p |-> p, w |-> w, hl |-> hl, pl |-> pl, now |-> t, rate |-> rate, d |-> d, pk |-> pk]
Bind(s, rate, d)      == Ev("bind", s, 0, 0, 0, 0, 0, rate, d, <<>>)
Rtp(a, s, p, w, sz, t) == Ev(a, s, p, w, sz[1], sz[2], t, 0, "", <<>>)
Rtcp(a, t, pk)        == Ev(a, 0, 0, 0, 0, 0, t, 0, "", pk)
Get(s)                == Ev("get", s, 0, 0, 0, 0, 0, 0, "", <<>>)
Pk(t, ss, ms, n, ntp, pc, oc, rp) ==
  [t |-> t, ss |-> ss, ms |-> ms, n |-> n, ntp |-> ntp, pc |-> pc, oc |-> oc, rp |-> rp]
Rep(s, lost, frac, hi, jit, lsr, dlsr) ==
  [s |-> s, lost |-> lost, frac |-> frac, hi |-> hi, jit |-> jit, lsr |-> lsr, dlsr |-> dlsr]
Nack(ss, ms, n) == Pk("nack", ss, ms, n, -1, 0, 0, <<>>)
Pli(ss, ms)     == Pk("pli", ss, ms, 0, -1, 0, 0, <<>>)
Fir(ss, ms, en) == Pk("fir", ss, ms, 0, -1, 0, 0, [i \in DOMAIN en |-> Rep(en[i], 0, 0, 0, 0, -1, 0)])
RR(ss, rp)      == Pk("rr", ss, 0, 0, -1, 0, 0, rp)
SR(ss, ntp, pc, oc, rp) == Pk("sr", ss, 0, 0, ntp, pc, oc, rp)
XR(ss, lay, rrtr, subs) == Pk("xr", ss, 0, lay, rrtr, 0, 0, subs)
Sub(s, lrr, dlrr) == Rep(s, 0, 0, 0, 0, lrr, dlrr)

Sizes == << <<12, 0>>, <<12, 100>>, <<16, 1>>, <<80, 1200>>, <<72, 7>> >>

Warm == << Bind(1, 90000, "l"), Bind(1, 90000, "r"), Bind(2, 48000, "r"), Bind(2, 48000, "l"),
           Rtp("irtp", 1, 1, Base % M, <<12, 50>>, 1),
           Rtp("ortp", 1, 1, OBase % M, <<12, 10>>, 2),
           Rtcp("orcp", 4, << SR(1, 4, 1, 22, <<>>) >>),
           Rtcp("orcp", 6, << XR(1, 0, 6, <<>>) >>) >>
        \o [i \in 1 .. Pre |-> Rtcp("orcp", 6 + i, << SR(1, 6 + i, 1, 22, <<>>), XR(1, 0, 6 + i, <<>>) >>)]
WarmState == Fold(SysStep, <<>>, Warm)

Newest(q) == IF q = <<>> THEN -1 ELSE q[Len(q)]
Oldest(q) == IF q = <<>> THEN -1 ELSE q[1]

Deltas == {1, 2, 0, -1, -3, 100, -100, H - 1, H, H + 1}

Alphabet(t, k) ==
  LET x == st[1]  y == st[2]  sz == Sizes[(k % 5) + 1]
      hi1 == x.ofirst + x.ops + 65536          \* extended highest number a receiver of stream 1 would report (one cycle on)
  IN
     {Rtp("irtp", 1, 1, (x.ilast + d) % M, sz, t) : d \in Deltas}
  \cup {Rtp("irtp", 2, 2, (y.ilast + 1) % M, sz, t),
        Rtp("irtp", 1, 2, (x.ilast + 1) % M, sz, t),        \* a packet of SSRC 2 on the stream bound for 1
        Rtp("ortp", 1, 1, (x.ofirst + x.ops) % M, sz, t),
        Rtp("ortp", 2, 2, 7, sz, t)}
  \cup {Rtcp("ircp", t, pk) : pk \in {
        << RR(3, << Rep(3, 9, 9, 9, 9, Newest(x.srs), 9), Rep(1, 1, 64, hi1, 900, Newest(x.srs), 655), Rep(2, 2, 128, 70000, 480, -1, 0) >>) >>,
        << SR(3, t - 5, 7, 700, << Rep(1, 0, 1, hi1 - 1, 90, Oldest(x.srs), 1) >>), Nack(3, 1, 2), Nack(1, 2, 1) >>,
        << SR(2, t - 1, 70, 7000, <<>>), RR(3, << Rep(1, 70000, 255, 5, 1, 4, 7) >>) >>,          \* echoes the first SR (evicted when Pre = 4 and one more was written)
        << Pli(3, 1), Fir(3, 0, <<1, 2>>), Fir(3, 1, <<3>>), Pli(1, 3) >>,
        << XR(3, 0, -1, << Sub(1, Newest(x.rrtrs), 100) >>), Pli(3, 1), RR(3, << Rep(1, 3, 3, hi1, 3, 3, 9) >>) >>,       \* echoes a time at which no SR was written
        << Nack(3, 3, 1), XR(3, 2, t - 2, << Sub(2, Oldest(y.rrtrs), 1311), Sub(3, Newest(x.rrtrs), 5), Sub(1, 6, 5), Sub(1, 3, 7) >>), Nack(3, 2, 4) >>,
        << RR(3, << Rep(1, 0, 0, hi1, 0, Newest(x.srs), 0), Rep(1, 5, 5, hi1, 5, Oldest(x.srs), 131073) >>) >>,
        << XR(1, 1, -1, <<>>), Fir(3, 2, <<2>>), Nack(2, 1, 1) >> }}
  \cup {Rtcp("orcp", t, pk) : pk \in {
        << SR(1, t, x.ops, x.ob, <<>>) >>,
        << SR(2, t, 1, 1, << Rep(1, 0, 0, 0, 0, -1, 0) >>), RR(1, << Rep(2, 0, 0, 0, 0, -1, 0) >>) >>,
        << XR(1, 1, t, <<>>), XR(2, 0, t, <<>>) >>,            \* one RRTR per receiver SSRC, same clock reading
        << Nack(1, 2, 3), Pli(2, 1), Fir(1, 0, <<1>>), Fir(1, 1, <<2, 3>>) >>,
        << RR(1, << Rep(2, 1, 1, 1, 1, 4, 1) >>), Nack(2, 1, 1), Nack(2, 3, 1), Pli(1, 1) >>,
        << XR(3, 0, t, << Sub(1, 6, 1) >>), Pli(3, 1), SR(3, t, 0, 0, <<>>) >> }}

Adv(k) == <<1, 0, 20>>[(k % 3) + 1]

Init == st = WarmState /\ now = 10 + Pre /\ hist = Warm
Next == /\ Len(hist) < Len(Warm) + 2 * L
        /\ LET k == (Len(hist) - Len(Warm)) \div 2  t == now + Adv(k) IN
           \E e \in Alphabet(t, k) :
              /\ st' = SysStep(st, e) /\ now' = t /\ hist' = hist \o <<e, Get(1)>>
Final(h) == h \o <<Get(2), Get(3)>>
Leaf == IF Len(hist) = Len(Warm) + 2 * L
        THEN PrintT(<<"TRACE", ToJson(Final(hist))>>) /\ FALSE
        ELSE TRUE
\* -simulate: print when the walk is complete (the depth is bounded inside Next)
LeafInv == Len(hist) = Len(Warm) + 2 * L => PrintT(<<"TRACE", ToJson(Final(hist))>>)
=============================================================================

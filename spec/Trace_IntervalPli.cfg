INIT Init
NEXT Next
CONSTANTS Cap = 1
CONSTRAINT HW
POSTCONDITION Post
CHECK_DEADLOCK FALSE

INIT Init
NEXT Next
CONSTANTS
  Cap = 1
  Strict = FALSE
CONSTRAINT HW
POSTCONDITION Post
CHECK_DEADLOCK FALSE

SPECIFICATION Spec
CONSTANTS
  M = 16
  K = 2
  MaxSteps = 3
INVARIANTS NegEvict
CHECK_DEADLOCK FALSE

INIT Init
NEXT Next
CONSTANTS
  L = 4
CONSTRAINT Leaf
CHECK_DEADLOCK FALSE

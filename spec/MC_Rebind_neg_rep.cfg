SPECIFICATION Spec
CONSTANTS
  Streams <- S2
  S = 1
  Inputs <- I2
  MaxSteps = 6
  Forget = "rep"
  Exempt <- ExemptAbs
INVARIANTS TwoRun
CHECK_DEADLOCK FALSE

--------------------------- MODULE Gen_Lifecycle ---------------------------
(* (G) every sequence of L lifecycle / traffic calls (C11): executed on a fresh instance of every interceptor. *)
EXTENDS Integers, Sequences, TLC, Json
CONSTANTS L
VARIABLES hist
\* "failw": from now on the transport-side RTCP writer fails every write the interceptor originates (fault sequence)
Alpha == {"bindw", "bindr", "bindl", "bindm", "tl", "tm", "cw", "cr", "wait", "unbindl", "unbindm", "close", "failw"}
Init == hist = <<>>
Next == Len(hist) < L /\ \E a \in Alpha : hist' = Append(hist, a)
Leaf == IF Len(hist) = L THEN PrintT(<<"TRACE", ToJson(hist)>>) /\ FALSE ELSE TRUE
=============================================================================

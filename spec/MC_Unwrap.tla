---------------------------- MODULE MC_Unwrap ----------------------------
(* (M) exhaustive check of the unwrapper specification at scaled-down moduli (M = 16, 32, 64):
   every state with last < K*M, every input, and every non-negative true stream with steps < M/2. *)
EXTENDS Unwrap
CONSTANT K
VARIABLES st,      \* unwrapper state after the last call
          pre,     \* state before the last call
          inp,     \* input of the last call
          truth    \* true (unbounded) number of the last input while a true stream is being followed, else -1
vars == <<st, pre, inp, truth>>

Init == st = Fresh /\ pre = Fresh /\ inp = 0 /\ truth = -1

\* any input in any state
AnyStep == \E v \in 0 .. M - 1 :
             /\ st' = UnwrapNext(st, v) /\ pre' = st /\ inp' = v /\ truth' = -1
\* follow a true stream: first number anywhere in the first cycle, afterwards any non-negative number
\* that differs from the previous true number by less than M/2; the unwrapper only sees the residue
TrueStep == /\ st.init => truth # -1
            /\ \E t \in (IF st.init THEN (truth - (H - 1)) .. (truth + (H - 1)) ELSE 0 .. M - 1) :
                 /\ t >= 0
                 /\ truth' = t /\ st' = UnwrapNext(st, t % M) /\ pre' = st /\ inp' = t % M
Next == AnyStep \/ TrueStep
Spec == Init /\ [][Next]_vars
Bound == st.last < K * M

\* ---- the clauses of C20 (unwrapper half); pre/inp/st describe the last call ----
NonNegative == st.last >= 0
Congruent   == st.init => st.last % M = inp
FirstIsInput == (st.init /\ ~pre.init) => st.last = inp
\* literal form of "a non-negative congruent value within M/2 of the previous result exists"
ExistsNear == \E r \in (pre.last - H) .. (pre.last + H) : r >= 0 /\ r % M = inp
Near == (pre.init /\ ExistsNear) => Abs(st.last - pre.last) <= H
\* negative control (MC_Unwrap_neg.cfg): without the guard the clause is NOT satisfiable together with NonNegative and
\* Congruent (previous 5, input M - 6) -- TLC must report a violation of this one
NearAlways == pre.init => Abs(st.last - pre.last) <= H
\* the reading fixed in DESIGN.md: otherwise non-negativity wins and the result is the input itself
FloorAtZero == (pre.init /\ ~ExistsNear) => st.last = inp
\* the closed form used by the trace module for the same condition
LemmaInRange == pre.init => (ExistsNear <=> InRangeExists(pre, inp))
\* exact reconstruction of the true stream
Exact == truth # -1 => st.last = truth
\* the operator never needs the init flag once set, and a repeated input changes nothing
Idempotent == st.init => UnwrapVal(st, inp) = st.last
=============================================================================

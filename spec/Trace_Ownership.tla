-------------------------- MODULE Trace_Ownership --------------------------
(* (T) C13: the harness runs every script twice on the real chain - once with a fresh allocation per packet, once with
   one payload slice / header object / read buffer reused and overwritten as soon as each call has returned - and
   logs everything the chain emitted or recorded that derives from packet contents (retransmissions, FEC repair
   packets, paced packets, dumps), sorted canonically.  Ownership!NonInterference requires both lists to agree. *)
EXTENDS Integers, Sequences, FiniteSets, TLC, Json, IOUtils
Trace == ndJsonDeserialize(IOEnv.VERIF_TRACE)
KnownSeq == ndJsonDeserialize(IOEnv.VERIF_KNOWN)
Known == {KnownSeq[i].tag : i \in DOMAIN KnownSeq}
VARIABLES l, members, taint
Range(f) == {f[i] : i \in DOMAIN f}
Has(k) == k \in Range(members)
Init == l = 1 /\ members = <<>> /\ taint = ""
\* a different NUMBER of emissions is a timing artefact of asynchronous delivery (content cannot change a count):
\* such a pair is inconclusive and is not counted as validated
\* The harness aligns the emissions of both runs by a key that does not depend on caller-derived bytes (media number, RTX original
\* number, FEC base + mask); emissions that only one run produced (asynchronous delivery cut off) are counted in `unpaired`
\* and not compared.
\* `alien` = emissions of the reused run under a key the fresh run never produced.  One that carries the values the harness
\* writes into a header object it reuses (sequence number 0xDEAD, timestamp 0x7EADBEEF, CSRC 0x6EEEEEEE) was built from the
\* caller's memory after the call had returned - the key itself is caller-derived then, which is why it found no partner.
Marked(x) == /\ "seq" \in DOMAIN x /\ "ts" \in DOMAIN x
             /\ (x.seq = 57005 \/ x.ts = 2125315823 \/ ("csrc" \in DOMAIN x /\ 1861152494 \in Range(x.csrc)))
Accept(e) == e.a # "cmp" \/ (e.fresh = e.reused /\ \A i \in DOMAIN e.alien : ~Marked(e.alien[i]))
\* first differing emission, for the diagnostic
Diff(e) == IF \E i \in DOMAIN e.alien : Marked(e.alien[i])
           THEN <<"overwritten header emitted", e.alien[CHOOSE i \in DOMAIN e.alien : Marked(e.alien[i])]>>
           ELSE IF Len(e.fresh) # Len(e.reused) THEN <<"count", Len(e.fresh), Len(e.reused)>>
           ELSE LET i == CHOOSE j \in DOMAIN e.fresh : e.fresh[j] # e.reused[j] IN <<"item", e.fresh[i], e.reused[i]>>
NewDevs(e) == IF Has("flexfec") THEN {"C13.FlexFecRetainsBatch"} ELSE {}
Next ==
  /\ l <= Len(Trace)
  /\ LET e == Trace[l] IN
     IF e.a = "reset" THEN members' = e.members /\ taint' = "" /\ l' = l + 1
     ELSE IF Accept(e) THEN l' = l + 1 /\ UNCHANGED <<members, taint>>
     ELSE LET k == NewDevs(e) \cap Known IN
        IF k # {} THEN /\ PrintT(<<"KNOWNDEV", l, CHOOSE t \in k : TRUE>>) /\ l' = l + 1 /\ UNCHANGED <<members, taint>>
        ELSE /\ PrintT(<<"MISMATCH", l, "members", members, "diff", Diff(e)>>)
             /\ l' = l + 1 /\ UNCHANGED <<members, taint>>
HW == TLCSet(1, IF TLCGet(1) < l THEN l ELSE TLCGet(1))
ASSUME TLCSet(1, 0)
Post == PrintT(<<"HW", TLCGet(1), Len(Trace)>>) /\ TLCGet(1) = Len(Trace) + 1
=============================================================================

-------------------------------- MODULE Mem --------------------------------
(* Boundedness of retained state (C12).  Every interceptor keeps per-packet records in containers; the property
   holds iff every container has an eviction path that bounds it by a function of the configuration and of the number
   of bound streams.  The model: a container keyed by an ever-increasing counter with one of the eviction policies
   found in the code:
     "window"   entries older than Cap behind the newest are dropped on insert  (nack logs, rtp ring, twcc map, LRU)
     "onreport" entries are dropped when a report / feedback consumes them      (rtpfb history, rfc8888 log)
     "never"    no eviction path                                                 (negative control)
   plus per-stream containers dropped by Unbind.  Size <= Bound must hold for every history; with "onreport" the bound
   holds only while reports keep coming, which TLC shows as a counterexample to the unconditional bound. *)
EXTENDS Integers, FiniteSets, TLC
CONSTANTS Cap, Policy, MaxOps, Streams
VARIABLES next, held, bound, nops
vars == <<next, held, bound, nops>>
Init == next = 0 /\ held = [s \in Streams |-> {}] /\ bound = {} /\ nops = 0
Bind(s) == s \notin bound /\ bound' = bound \cup {s} /\ UNCHANGED <<next, held>>
Unbind(s) == s \in bound /\ bound' = bound \ {s} /\ held' = [held EXCEPT ![s] = {}] /\ UNCHANGED next
Packet(s) == /\ s \in bound /\ next' = next + 1
             /\ held' = [held EXCEPT ![s] = IF Policy = "window" THEN {k \in @ : k > next - Cap} \cup {next} ELSE @ \cup {next}]
             /\ UNCHANGED bound
Report(s) == s \in bound /\ Policy = "onreport" /\ held' = [held EXCEPT ![s] = {}] /\ UNCHANGED <<next, bound>>
Next == /\ nops < MaxOps /\ nops' = nops + 1
        /\ \E s \in Streams : Bind(s) \/ Unbind(s) \/ Packet(s) \/ Report(s)
Spec == Init /\ [][Next]_vars
Size == Cardinality(UNION {held[s] : s \in Streams})
Bounded == Size <= Cap * Cardinality(bound)
ReleasedOnUnbind == \A s \in Streams : s \notin bound => held[s] = {}
=============================================================================

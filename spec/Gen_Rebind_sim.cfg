INIT Init
NEXT Next
CONSTANTS
  LH = 6
  LB = 5
  KnobSet <- KnobsFull
  KindSet <- KindsAll
CONSTRAINT Leaf
CHECK_DEADLOCK FALSE

--------------------------- MODULE MC_JitterList ---------------------------
(* Refinement check: the linked list of JitterList.tla (q) is stepped together with the property-level
   PriorityQueue machine of JitterBuffer.tla (buf) through every sequence of at most MaxSteps calls of
   Push(n) / Pop / PopAt(n) / PopAtTimestamp(t) / Clear over numbers 0 .. M-1 (two neighbouring numbers share a
   timestamp); Find(n) is checked for every n in every state.  Every result of the list must be one the
   property-level machine permits (okout), and the shape invariants (a)-(e) must hold in every state. *)
EXTENDS JitterList
CONSTANTS MaxSteps
VARIABLES q, buf, nid, okout, steps
vars == <<q, buf, nid, okout, steps>>

Nums == 0 .. M - 1
TsOf(n) == n \div 2
TSs == {TsOf(n) : n \in Nums}

Init == q = LInit /\ buf = {} /\ nid = 0 /\ okout = TRUE /\ steps = 0

Push(n) == LET e == Entry(n, nid + 1, TsOf(n)) IN
           q' = LPushStep(q, e) /\ buf' = PQPushStep(buf, e) /\ nid' = nid + 1 /\ okout' = TRUE
\* a removing call: res = <<result, successor list>>, outs = what the property-level machine permits
Removing(res, outs) == /\ q' = res[2] /\ okout' = (res[1] \in outs)
                       /\ buf' = (IF res[1] \in outs THEN PQPopStep(buf, res[1]) ELSE buf) /\ UNCHANGED nid
Pop       == Removing(LPop(q), PQPopOut(buf))
PopAt(n)  == Removing(LPopAt(q, n), PQPopAtOut(buf, n))
PopAtTs(t) == Removing(LPopAtTs(q, t), PQPopAtTsOut(buf, t))
Clear     == q' = LClearStep(q) /\ buf' = PQClearStep(buf) /\ okout' = TRUE /\ UNCHANGED nid

Next == /\ steps < MaxSteps /\ steps' = steps + 1
        /\ \/ \E n \in Nums : Push(n) \/ PopAt(n)
           \/ Pop
           \/ \E t \in TSs : PopAtTs(t)
           \/ Clear
Spec == Init /\ [][Next]_vars

\* ---- refinement obligations
NoHang         == ~q.hung
IsAcyclic      == Acyclic(q)                      \* (c)
LengthIsReach  == CachedLength(q)                 \* (b)
SameContents   == Contents(q, buf)                \* (a)
PrevPointers   == PrevConsistent(q)               \* (d)
NothingOutside == NoOutside(q)                    \* (e)
OutRefines     == okout                           \* results of Pop / PopAt / PopAtTimestamp
FindRefines    == \A n \in Nums : LFindOut(q, n) \in PQFindOut(buf, n)
LengthRefines  == LLength(q) = PQLength(buf)
\* a failed removal changes nothing that can be observed
FailedUnchanged == [][ \A n \in Nums : (q' = LPopAt(q, n)[2] /\ ~IsOk(LPopAt(q, n)[1])) => Walk(q') = Walk(q) /\ q'.length = q.length ]_vars
=============================================================================

------------------------- MODULE Trace_SenderReport -------------------------
(* (T) validates ndjson traces recorded from pkg/report.SenderInterceptor (public interface, SenderNow + SenderTicker)
   against SenderReport.  Events (t = harness clock in ms, ts = true RTP time as an offset from the harness base):
     {"a":"reset","latest":bool,"tsb":int,"tsmid":0|1}    new interceptor (SenderUseLatestPacket on/off)
     {"a":"bind","s":ssrc,"rate":hz}  {"a":"unbind","s":ssrc}
     {"a":"rtp","s":ssrc,"w":n16,"ts":off,"len":bytes,"t":ms,"k":n}   k consecutive writes w, w+1, .. (k > 1 only for new packets)
     {"a":"report","t":ms,"out":[{"s","pkts","oct":[hi16,lo16],"rtp","sec","frac"}..]}   one tick wrote these sender reports *)
EXTENDS SenderReport, Json, IOUtils
Trace == ndJsonDeserialize(IOEnv.VERIF_TRACE)
KnownSeq == ndJsonDeserialize(IOEnv.VERIF_KNOWN)
Known == {KnownSeq[i].tag : i \in DOMAIN KnownSeq}

VARIABLES l, cfg, st, devs, taint
vars == <<l, cfg, st, devs, taint>>

\* st: ssrc -> [c |-> per-stream configuration, x |-> SenderReport state]; absent = not bound
Put(s, v) == [t \in DOMAIN st \cup {s} |-> IF t = s THEN v ELSE st[t]]
Del(s)    == [t \in DOMAIN st \ {s} |-> st[t]]

Init == l = 1 /\ cfg = [latest |-> FALSE, tsb |-> 0, tsmid |-> 0] /\ st = <<>> /\ devs = {} /\ taint = ""

ExpectedOut(e) == IF e.a = "report" THEN [s \in DOMAIN st |-> ReportOut(st[s].c, st[s].x, e.t)] ELSE {}
Logged(e)      == IF e.a = "report" THEN e.out ELSE {}

\* exactly one sender report per bound stream, none for any other SSRC, each acceptable (sets keyed by SSRC)
Accept(e) ==
  IF e.a = "report"
  THEN /\ \A i, j \in DOMAIN e.out : e.out[i].s = e.out[j].s => i = j
       /\ {e.out[i].s : i \in DOMAIN e.out} = DOMAIN st
       /\ \A i \in DOMAIN e.out : ReportAccept(st[e.out[i].s].c, st[e.out[i].s].x, e.t, e.out[i])
  ELSE TRUE

StepState(e) ==
  IF e.a = "bind" THEN Put(e.s, [c |-> [rate |-> e.rate, latest |-> cfg.latest], x |-> SFresh])
  ELSE IF e.a = "unbind" THEN Del(e.s)
  ELSE IF e.a = "rtp" /\ e.s \in DOMAIN st
       THEN Put(e.s, [c |-> st[e.s].c, x |-> RtpStep(st[e.s].c, st[e.s].x, e.w, e.ts, e.len, e.t, e.k)])
  ELSE st

WireZero(e) == cfg.tsmid = 0 /\ cfg.tsb + e.ts = 0
NewDevs(e) ==
  IF e.a = "rtp" /\ e.s \in DOMAIN st /\ FirstTimestampZero(st[e.s].x, WireZero(e)) THEN {"C07.FirstTimestampZero"} ELSE {}

Next ==
  /\ l <= Len(Trace)
  /\ LET e == Trace[l] IN
     IF e.a = "reset" THEN
        /\ cfg' = [latest |-> e.latest, tsb |-> e.tsb, tsmid |-> e.tsmid]
        /\ st' = <<>> /\ devs' = {} /\ taint' = "" /\ l' = l + 1
     ELSE IF taint # "" THEN l' = l + 1 /\ UNCHANGED <<cfg, st, devs, taint>>
     ELSE IF Accept(e) THEN
        /\ st' = StepState(e) /\ devs' = devs \cup NewDevs(e) /\ l' = l + 1 /\ UNCHANGED <<cfg, taint>>
     ELSE LET k == (devs \cup NewDevs(e)) \cap Known IN
        IF k # {} THEN /\ PrintT(<<"KNOWNDEV", l, CHOOSE t \in k : TRUE>>)
                       /\ taint' = (CHOOSE t \in k : TRUE) /\ l' = l + 1 /\ UNCHANGED <<cfg, st, devs>>
        ELSE PrintT(<<"MISMATCH", l, "expected", ExpectedOut(e), "logged", Logged(e), "devs", devs \cup NewDevs(e)>>) /\ FALSE

HW == TLCSet(1, IF TLCGet(1) < l THEN l ELSE TLCGet(1))
ASSUME TLCSet(1, 0)
Post == PrintT(<<"HW", TLCGet(1), Len(Trace)>>) /\ TLCGet(1) = Len(Trace) + 1
=============================================================================

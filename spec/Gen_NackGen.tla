--------------------------- MODULE Gen_NackGen ---------------------------
(* (G) behaviour generator for C03: every sequence of L actions over a boundary-value alphabet that is
   *relative to the specification state* (distances to the highest number / window edges), at the real
   modulus.  Each complete behaviour is printed as one JSON script; the Go harness executes it on the
   real code and the recorded trace is validated by Trace_NackGen. *)
EXTENDS NackGen, Json
CONSTANTS Size, Skip, MaxN, Base, L
VARIABLES x, aux, hist
vars == <<x, aux, hist>>
Cfg == [size |-> Size, skip |-> Skip, max |-> MaxN]
Deltas == {1, 2, 3, Size - 1, Size, Size + 1, 2 * Size, H - 1, H,
           0, -1, -2, -(Size - 1), -Size, -(Size + 1), -(2 * Size)}
Ev(a, s, w) == [a |-> a, s |-> s, w |-> w, nack |-> TRUE]
Warm == <<Ev("bind", 1, 0), Ev("bind", 2, 0), Ev("recv", 1, Base % M), Ev("recv", 1, (Base + 2) % M),
          Ev("recv", 2, 7)>>
Init == /\ x = RecvStep(Cfg, RecvStep(Cfg, Fresh, Base % M), (Base + 2) % M)
        /\ aux = 7
        /\ hist = Warm
Next == /\ Len(hist) < Len(Warm) + L
        /\ \/ \E d \in Deltas : LET w == (x.hi + d) % M IN
                /\ x' = RecvStep(Cfg, x, w) /\ hist' = Append(hist, Ev("recv", 1, w)) /\ UNCHANGED aux
           \/ /\ x' = TickStep(Cfg, x) /\ hist' = Append(hist, Ev("tick", 0, 0)) /\ UNCHANGED aux
           \/ /\ aux' = aux + 2 /\ hist' = Append(hist, Ev("recv", 2, aux + 2)) /\ UNCHANGED x
Leaf == IF Len(hist) = Len(Warm) + L
        THEN PrintT(<<"TRACE", ToJson(Append(hist, Ev("tick", 0, 0)))>>) /\ FALSE
        ELSE TRUE
=============================================================================

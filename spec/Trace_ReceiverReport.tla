----------------------- MODULE Trace_ReceiverReport -----------------------
(* (T) validates ndjson traces recorded from pkg/report (receiverStream and ReceiverInterceptor)
   against ReceiverReport.  Events (t = harness clock in ms, ts = true RTP time as an offset from the harness base):
     {"a":"reset", ...}                                   new instance
     {"a":"bind","s":ssrc,"rate":hz}  {"a":"unbind","s":ssrc}
     {"a":"rtp","s":ssrc,"w":n16,"ts":off,"t":ms}        a packet was read successfully on stream s
     {"a":"sr","s":ssrc,"ntp":[w3,w2,w1,w0],"t":ms}      a sender report for ssrc passed the RTCP reader (16-bit words)
     {"a":"report","t":ms,"out":[{"s","cyc","seq","frac","tot","lsr":[hi16,lo16],"jit","dlsr"}..]}
                                                          one report pass wrote these reception report blocks *)
EXTENDS ReceiverReport, Json, IOUtils
Trace == ndJsonDeserialize(IOEnv.VERIF_TRACE)
KnownSeq == ndJsonDeserialize(IOEnv.VERIF_KNOWN)
Known == {KnownSeq[i].tag : i \in DOMAIN KnownSeq}

VARIABLES l, st, devs, taint
vars == <<l, st, devs, taint>>

\* st: ssrc -> [c |-> per-stream configuration, x |-> ReceiverReport state]; absent = not bound
Put(s, v) == [t \in DOMAIN st \cup {s} |-> IF t = s THEN v ELSE st[t]]
Del(s)    == [t \in DOMAIN st \ {s} |-> st[t]]

Init == l = 1 /\ st = <<>> /\ devs = {} /\ taint = ""

ExpectedOut(e) == IF e.a = "report" THEN [s \in DOMAIN st |-> ReportOut(st[s].x, e.t)] ELSE {}
Logged(e)   == IF e.a = "report" THEN e.out ELSE {}

\* how one reception report block relates to the stream's state: "ok" = as the property says; "asfound" = not so, but
\* the stream is in the region of the recorded finding C06.IntervalBeyondHistory (the report interval is longer than
\* the history, and shorter than the 16-bit loop of the code) and the block is EXACTLY what the as-found ring model
\* of ReceiverReport.tla computes; "bad" = neither
AsFoundTag == "C06.IntervalBeyondHistory"
Mode(e, i) ==
  LET b == e.out[i]  x == st[b.s].x IN
  IF ReportAccept(x, e.t, b) THEN "ok"
  ELSE IF AsFoundTag \in Known /\ IntervalBeyondHistory(x) /\ Expected(x) < M /\ AsFoundAccept(x, e.t, b) THEN "asfound"
  ELSE "bad"
AsFoundStreams(e) == IF e.a = "report" THEN {e.out[i].s : i \in {j \in DOMAIN e.out : Mode(e, j) = "asfound"}} ELSE {}

\* exactly one block per bound stream, none for any other SSRC, each block acceptable (sets keyed by SSRC)
Accept(e) ==
  IF e.a = "report"
  THEN /\ \A i, j \in DOMAIN e.out : e.out[i].s = e.out[j].s => i = j
       /\ {e.out[i].s : i \in DOMAIN e.out} = DOMAIN st
       /\ \A i \in DOMAIN e.out : Mode(e, i) # "bad"
  ELSE TRUE

StepState(e) ==
  IF e.a = "bind" THEN Put(e.s, [c |-> [rate |-> e.rate],
                                  x |-> [RFresh EXCEPT !.total = IF "lost0" \in DOMAIN e THEN e.lost0 ELSE 0]])
  ELSE IF e.a = "unbind" THEN Del(e.s)
  ELSE IF e.a = "rtp" /\ e.s \in DOMAIN st
       THEN Put(e.s, [c |-> st[e.s].c, x |-> RtpStep(st[e.s].c, st[e.s].x, e.w, e.ts, e.t)])
  ELSE IF e.a = "sr" /\ e.s \in DOMAIN st
       THEN Put(e.s, [c |-> st[e.s].c, x |-> SrStep(st[e.s].x, <<e.ntp[2], e.ntp[3]>>, e.t)])
  ELSE IF e.a = "report"
       THEN LET af == AsFoundStreams(e) IN
            [s \in DOMAIN st |-> [c |-> st[s].c, x |-> IF s \in af THEN AsFoundStep(st[s].x) ELSE ReportStep(st[s].x)]]
  ELSE st

NewDevs(e) ==
  (IF e.a = "rtp" /\ e.s \in DOMAIN st /\ LateBeyondHistory(st[e.s].x, e.w) THEN {"C06.LateBeyondHistory"} ELSE {})
  \* beyond the 16-bit loop of the code the as-found model does not apply: such a trace is abandoned (tainted) as before
  \cup (IF e.a = "report" /\ \E s \in DOMAIN st : IntervalBeyondHistory(st[s].x) /\ Expected(st[s].x) >= M
        THEN {AsFoundTag} ELSE {})

Next ==
  /\ l <= Len(Trace)
  /\ LET e == Trace[l] IN
     IF e.a = "reset" THEN
        /\ st' = <<>> /\ devs' = {} /\ taint' = "" /\ l' = l + 1
     ELSE IF taint # "" THEN l' = l + 1 /\ UNCHANGED <<st, devs, taint>>
     ELSE IF Accept(e) THEN
        /\ st' = StepState(e) /\ devs' = devs \cup NewDevs(e) /\ l' = l + 1 /\ UNCHANGED taint
        /\ (AsFoundStreams(e) # {} => PrintT(<<"KNOWNDEV", l, AsFoundTag>>))
     ELSE LET k == (devs \cup NewDevs(e)) \cap Known IN
        IF k # {} THEN /\ PrintT(<<"KNOWNDEV", l, CHOOSE t \in k : TRUE>>)
                       /\ taint' = (CHOOSE t \in k : TRUE) /\ l' = l + 1 /\ UNCHANGED <<st, devs>>
        ELSE PrintT(<<"MISMATCH", l, "expected", ExpectedOut(e), "logged", Logged(e), "devs", devs \cup NewDevs(e)>>) /\ FALSE

HW == TLCSet(1, IF TLCGet(1) < l THEN l ELSE TLCGet(1))
ASSUME TLCSet(1, 0)
Post == PrintT(<<"HW", TLCGet(1), Len(Trace)>>) /\ TLCGet(1) = Len(Trace) + 1
=============================================================================

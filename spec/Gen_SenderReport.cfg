INIT Init
NEXT Next
CONSTANTS
  M = 65536
  W = 65536
  Base = 65534
  L = 2
  Alpha = 1
  Rate = 90000
  Latest = FALSE
CONSTRAINT Leaf
CHECK_DEADLOCK FALSE

SPECIFICATION Spec
CONSTANTS
  M = 4
  MaxSteps = 5
  ClearDetaches = TRUE
  HeadInsertLE = TRUE
  HeadPopClearsPrev = FALSE
INVARIANTS NoHang IsAcyclic LengthIsReach SameContents PrevPointers NothingOutside OutRefines FindRefines LengthRefines
PROPERTIES FailedUnchanged
CHECK_DEADLOCK FALSE

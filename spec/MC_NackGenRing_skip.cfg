INIT RInit
NEXT RNext
CONSTANTS
  M = 16
  Size = 4
  Skip = 1
  IgnoreTooOld = TRUE
  StrictSpanTest = FALSE
  MaxSteps = 5
INVARIANT Refines
CHECK_DEADLOCK FALSE

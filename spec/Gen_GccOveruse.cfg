INIT Init
NEXT Next
CONSTANTS
  OT = 10000000
  MaxDeltas = 60
  MaxTh = 600000
  L = 3
CONSTRAINT Leaf
CHECK_DEADLOCK FALSE

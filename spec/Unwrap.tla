------------------------------ MODULE Unwrap ------------------------------
(* Property-level specification of the sequence-number unwrapper (C20, first half).
   internal/sequencenumber/unwrapper.go

   State: [init |-> BOOLEAN, last |-> the last returned (unbounded, non-negative) value].
   One operator per call:  UnwrapNext(s, v)  = state after Unwrap(v),  UnwrapVal(s, v) = returned value.
   The input v is the residue modulo M of the true sequence number.

   Reading of the property (DESIGN.md section 7, C20): the result is the non-negative value congruent to v
   that lies within M/2 of the previous result.  Exactly one such value exists when the wire distance
   d = (v - last) % M is below M/2 (forward) and, when d is above M/2, iff last + d - M >= 0 (backward).
   Two choices remain, fixed here as the anchors name them:
     tie   d = M/2: both last + M/2 and last - M/2 are in range; the half-range rule of the code counts v
           as newer iff v is the numerically larger residue;
     floor last + d - M < 0: no non-negative congruent value is within M/2; non-negativity wins and the
           result is v itself ("floor at zero"). *)
EXTENDS Integers

CONSTANT
  \* sequence-number modulus (65536 in the code)
  \* @type: Int;
  M
H == M \div 2

Fresh == [init |-> FALSE, last |-> 0]

\* value returned by Unwrap(v) in state s
\* @type: ({init: Bool, last: Int}, Int) => Int;
UnwrapVal(s, v) ==
  IF ~s.init THEN v
  ELSE LET lw  == s.last % M               \* residue of the previous result
           d   == (v - lw) % M             \* forward wire distance, 0 .. M-1
           bwd == s.last + d - M           \* the congruent value behind the previous result
       IN  IF d < H THEN s.last + d        \* (d = 0: the same number again)
           ELSE IF d = H /\ v > lw THEN s.last + d
           ELSE IF bwd >= 0 THEN bwd
           ELSE s.last + d                 \* = v, because last + d < M

\* @type: ({init: Bool, last: Int}, Int) => {init: Bool, last: Int};
UnwrapNext(s, v) == [init |-> TRUE, last |-> UnwrapVal(s, v)]

\* ---- auxiliary predicates used by the MC and trace modules ----
Abs(x) == IF x < 0 THEN -x ELSE x
\* a non-negative value congruent to v exists within M/2 of s.last
\* @type: ({init: Bool, last: Int}, Int) => Bool;
InRangeExists(s, v) == LET d == (v - (s.last % M)) % M IN d <= H \/ s.last + d - M >= 0
\* the "floor at zero" case
\* @type: ({init: Bool, last: Int}, Int) => Bool;
FloorCase(s, v) == s.init /\ ~InRangeExists(s, v)
=============================================================================

--------------------------- MODULE MC_TwccPacker ---------------------------
(* (M) exhaustive check of the chunk packer specification: EVERY status sequence over {not received, small delta,
   large delta} up to length MaxLen is packed (TLC enumerates them as the states of a machine that appends one status
   per step) and for each one:
     RoundTrip    the chunks decode (Twcc!Expand, the decoder of the relational clauses W1/W2) back to exactly the
                  statuses; only the last chunk is padded, with not-received symbols, by less than one vector
     WellFormed   run lengths 1..RLMAX, one-bit vectors hold V1 symbols none of them large, two-bit vectors V2
     SanityBound  never more chunks than one per V2 statuses (rounded up)
     NearOptimal  at most Slack chunks more than the least number any valid chunking needs (dynamic programme
                  MinChunks).  Established: Slack = 1 for every sequence up to length 13 at the real chunk sizes.
                  The packer is NOT optimal: TLC refutes Slack = 0 with <<0,0,0,0,1,0,1,0>> (flushed as a two-bit
                  vector plus a run although one one-bit vector would do), and at the scaled sizes Slack = 1 fails
                  from length 13 on (<<0,0,0,0,1,2,2,1,0,0,0,0,1>>), Slack = 2 holds up to length 12 - the loss
                  grows with the length, only SanityBound is a general bound
     BulkAgrees   PushRun (n equal statuses at once, used by the trace validator) = n times Push
   MC_TwccPacker.cfg: the real chunk sizes (14 / 7 / 8191); MC_TwccPacker_small.cfg: 6 / 3 / 7 so that full one-bit
   vectors and the run-length cap are reached within MaxLen. *)
EXTENDS TwccPacker
CONSTANTS MaxLen, Slack
VARIABLES st
Init == st = <<>>
Next == Len(st) < MaxLen /\ \E y \in 0 .. 2 : st' = Append(st, y)

Chs == Pack(st)
Cover(c) == IF c.k = 0 THEN c.n ELSE Len(c.v)
RoundTrip ==
  LET ex == Expand(Chs) IN
  /\ Len(ex) >= Len(st) /\ SubSeq(ex, 1, Len(st)) = st
  /\ \A i \in Len(st) + 1 .. Len(ex) : ex[i] = 0
  /\ (Chs # <<>> => Len(ex) - Len(st) < Cover(Chs[Len(Chs)]))
  /\ (st = <<>> <=> Chs = <<>>)
WellFormed ==
  \A i \in DOMAIN Chs : LET c == Chs[i] IN
     \/ c.k = 0 /\ c.n \in 1 .. RLMAX /\ c.s \in 0 .. 2 /\ c.v = <<>>
     \/ c.k = 1 /\ Len(c.v) = V1 /\ \A j \in DOMAIN c.v : c.v[j] \in {0, 1}
     \/ c.k = 2 /\ Len(c.v) = V2 /\ \A j \in DOMAIN c.v : c.v[j] \in 0 .. 2
SanityBound == Len(Chs) <= (Len(st) + V2 - 1) \div V2
NearOptimal == st # <<>> => Len(Chs) <= MinChunks(st) + Slack
RunAt(i) == Cardinality({j \in i .. Len(st) : \A q \in i .. j : st[q] = st[i]})
RECURSIVE ByRuns(_, _)
ByRuns(i, p) == IF i > Len(st) THEN p ELSE ByRuns(i + RunAt(i), PushRun(p, st[i], RunAt(i)))
BulkAgrees == Finish(ByRuns(1, P0)) = Chs
=============================================================================

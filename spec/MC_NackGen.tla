--------------------------- MODULE MC_NackGen ---------------------------
(* (M) exhaustive check of the NACK generator specification at scaled-down constants. *)
EXTENDS NackGen
CONSTANTS SSRC, Cfg, MaxSteps
VARIABLES st, out, asked, steps
vars == <<st, out, asked, steps>>
CfgLimit   == [size |-> 4, skip |-> 1, max |-> 2]
CfgNoLimit == [size |-> 8, skip |-> 0, max |-> 0]

Init == /\ st = [s \in SSRC |-> Unbound]
        /\ out = <<>>
        /\ asked = [s \in SSRC |-> <<>>]
        /\ steps = 0

Bind(s)   == st[s].bound = FALSE /\ st' = [st EXCEPT ![s] = Fresh]
             /\ asked' = [asked EXCEPT ![s] = <<>>] /\ UNCHANGED out
Unbind(s) == st[s].bound /\ st' = [st EXCEPT ![s] = Unbound]
             /\ asked' = [asked EXCEPT ![s] = <<>>] /\ UNCHANGED out
Recv(s, w) == st' = [st EXCEPT ![s] = RecvStep(Cfg, st[s], w)] /\ UNCHANGED <<out, asked>>
Asked(s, t) == IF t \in DOMAIN asked[s] THEN asked[s][t] ELSE 0
Tick == /\ out' = [s \in {s \in SSRC : Req(Cfg, st[s]) # {}} |-> Req(Cfg, st[s])]
        /\ asked' = [s \in SSRC |-> [t \in Missing(Cfg, st[s]) |->
                        Asked(s, t) + (IF t \in Req(Cfg, st[s]) THEN 1 ELSE 0)]]
        /\ st' = [s \in SSRC |-> TickStep(Cfg, st[s])]
IsTick == steps' = steps + 1 /\ st' = [s \in SSRC |-> TickStep(Cfg, st[s])]
          /\ out' = [s \in {s \in SSRC : Req(Cfg, st[s]) # {}} |-> Req(Cfg, st[s])]

Next == /\ steps < MaxSteps /\ steps' = steps + 1
        /\ \/ \E s \in SSRC : Bind(s) \/ Unbind(s)
           \/ \E s \in SSRC, w \in 0 .. M - 1 : Recv(s, w)
           \/ Tick
Spec == Init /\ [][Next]_vars

\* ---- the clauses of C03 ----
TypeOK == \A s \in SSRC : /\ st[s].recv \subseteq (st[s].hi - Cfg.size + 1) .. st[s].hi
                          /\ (st[s].started => st[s].hi \in st[s].recv /\ st[s].first <= st[s].hi)
\* per-packet limit: no number is requested more often than the limit while it stays missing
LimitRespected == Cfg.max > 0 => \A s \in SSRC : \A t \in DOMAIN asked[s] : asked[s][t] <= Cfg.max
\* a tick never requests a received number, a number ahead of the highest (less skip), at/below the first
\* packet ever received, or outside the window
TickSound == [][ IsTick => \A s \in DOMAIN out' : \A t \in out'[s] :
                        /\ t \notin st[s].recv /\ t <= st[s].hi - Cfg.skip
                        /\ t > st[s].hi - Cfg.size /\ t > st[s].first ]_vars
\* with no limit the request set is exactly the missing set
TickComplete == [][ (Cfg.max = 0 /\ IsTick) =>
                     \A s \in SSRC : Missing(Cfg, st[s]) = (IF s \in DOMAIN out' THEN out'[s] ELSE {}) ]_vars
\* streams are independent: a packet on s changes nothing of another stream
Independent == [][ \A s \in SSRC, w \in 0 .. M - 1 :
                     st' = [st EXCEPT ![s] = RecvStep(Cfg, st[s], w)] =>
                        \A s2 \in SSRC \ {s} : st'[s2] = st[s2] ]_vars
=============================================================================

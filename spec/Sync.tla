------------------------------- MODULE Sync -------------------------------
(* Lock discipline of the interceptors (C10): goroutines run straight-line programs of lock operations and shared
   variable accesses transcribed from the code (DESIGN.md appendix A.3).  TLC explores every interleaving and checks
   (1) NoRace: never are two goroutines simultaneously about to access the same variable, at least one of them writing,
       (accesses marked "atomic" never race with each other);
   (2) deadlock freedom: every goroutine can finish;
   (3) no lost update: counters incremented under the discipline end at the number of increments. *)
EXTENDS Integers, Sequences, FiniteSets, TLC

CONSTANTS Progs          \* goroutine -> sequence of ops: <<"acq", lock, "r"|"w">>, <<"rel", lock>>, <<"rd", v>>, <<"wr", v>>, <<"inc", v>>, <<"ainc", v>>

VARIABLES pc,            \* goroutine -> index of the next op
          holders,       \* lock -> set of <<goroutine, mode>>
          val,           \* counter variable -> value
          tmp            \* goroutine -> value read by the first half of a non-atomic increment (-1 = none)
vars == <<pc, holders, val, tmp>>

G == DOMAIN Progs
Ops(g) == Progs[g]
Op(g) == Ops(g)[pc[g]]
Done(g) == pc[g] > Len(Ops(g))
Locks == UNION {{Ops(g)[i][2] : i \in {j \in DOMAIN Ops(g) : Ops(g)[j][1] \in {"acq", "rel"}}} : g \in G}
Counters == UNION {{Ops(g)[i][2] : i \in {j \in DOMAIN Ops(g) : Ops(g)[j][1] \in {"inc", "ainc"}}} : g \in G}

Init == /\ pc = [g \in G |-> 1] /\ holders = [k \in Locks |-> {}]
        /\ val = [c \in Counters |-> 0] /\ tmp = [g \in G |-> -1]

CanAcquire(g, k, m) == IF m = "w" THEN holders[k] = {} ELSE \A h \in holders[k] : h[2] = "r"

Step(g) ==
  /\ ~Done(g)
  /\ LET op == Op(g) IN
     CASE op[1] = "acq" -> /\ CanAcquire(g, op[2], op[3])
                           /\ holders' = [holders EXCEPT ![op[2]] = @ \cup {<<g, op[3]>>}]
                           /\ pc' = [pc EXCEPT ![g] = @ + 1] /\ UNCHANGED <<val, tmp>>
       [] op[1] = "rel" -> /\ holders' = [holders EXCEPT ![op[2]] = {h \in @ : h[1] # g}]
                           /\ pc' = [pc EXCEPT ![g] = @ + 1] /\ UNCHANGED <<val, tmp>>
       [] op[1] = "inc" -> \* non-atomic read-modify-write: two steps
                           IF tmp[g] = -1
                           THEN tmp' = [tmp EXCEPT ![g] = val[op[2]]] /\ UNCHANGED <<pc, holders, val>>
                           ELSE /\ val' = [val EXCEPT ![op[2]] = tmp[g] + 1] /\ tmp' = [tmp EXCEPT ![g] = -1]
                                /\ pc' = [pc EXCEPT ![g] = @ + 1] /\ UNCHANGED holders
       [] op[1] = "ainc" -> /\ val' = [val EXCEPT ![op[2]] = @ + 1]
                            /\ pc' = [pc EXCEPT ![g] = @ + 1] /\ UNCHANGED <<holders, tmp>>
       [] OTHER -> pc' = [pc EXCEPT ![g] = @ + 1] /\ UNCHANGED <<holders, val, tmp>>

Next == \E g \in G : Step(g)
Spec == Init /\ [][Next]_vars /\ \A g \in G : WF_vars(Step(g))

\* the access a goroutine is about to perform: <<variable, isWrite>> or <<>>
Pending(g) == IF Done(g) THEN <<>>
              ELSE LET op == Op(g) IN
                   IF op[1] \in {"rd"} THEN <<op[2], FALSE>>
                   ELSE IF op[1] \in {"wr", "inc"} THEN <<op[2], TRUE>>
                   ELSE <<>>
NoRace == \A g, h \in G : (g # h /\ Pending(g) # <<>> /\ Pending(h) # <<>> /\ Pending(g)[1] = Pending(h)[1])
                            => (~Pending(g)[2] /\ ~Pending(h)[2])
AllDone == \A g \in G : Done(g)
Termination == <>AllDone
Incs(c) == Cardinality({<<g, i>> \in UNION {{<<g, i>> : i \in DOMAIN Ops(g)} : g \in G} :
                          Ops(g)[i][1] \in {"inc", "ainc"} /\ Ops(g)[i][2] = c})
NoLostUpdate == AllDone => \A c \in Counters : val[c] = Incs(c)
=============================================================================

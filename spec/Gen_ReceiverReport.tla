------------------------ MODULE Gen_ReceiverReport ------------------------
(* (G) behaviour generator for C06: every sequence of L actions over a boundary-value alphabet that is relative
   to the specification state (distance of the packet to the highest number / to the edge of the 8192 history,
   RTP-time and arrival steps, SR, Report) at the real constants.  RTP timestamps are offsets; the harness adds
   the base chosen by the check (0, 2^32-1000, 2^31) so that the offsets cross the 2^32 wrap.
   Alpha = 1: full sequence alphabet x 4 timing moves;  Alpha = 2: reduced alphabet for deeper enumeration. *)
EXTENDS ReceiverReport, Json
CONSTANTS Base, L, Alpha
VARIABLES x, now, aux, hist
vars == <<x, now, aux, hist>>
C1 == [rate |-> 90000]
NtpW == <<43690, 4660, 22136, 52719>>          \* 0xAAAA 0x1234 0x5678 0xCDEF -> LSR = 0x12345678
SeqD == IF Alpha = 1
        THEN {1, 2, 3, Hist - 1, Hist, Hist + 1, H - 1, 0, -1, -2, -(Hist - 1), -Hist, -(Hist + 1), -H}
        ELSE {1, 2, 0, -1, Hist - 3, -(Hist - 1)}     \* Hist - 3 closes an interval of exactly Hist numbers after the warm-up
Timing == IF Alpha = 1 THEN {<<2970, 33>>, <<0, 0>>, <<-3000, 1>>, <<4000000, 1000>>}
          ELSE {<<2970, 33>>, <<-3000, 0>>}
Ev(a, s, w, ts, t) == [a |-> a, s |-> s, w |-> w, ts |-> ts, t |-> t, ntp |-> NtpW, rate |-> 0]
Bind(s, r)         == [a |-> "bind", s |-> s, w |-> 0, ts |-> 0, t |-> 0, ntp |-> NtpW, rate |-> r]
\* Alpha = 1 closes the first interval in the warm-up (so that jumps of up to Hist stay inside the history),
\* Alpha = 2 leaves the first interval (which starts at the first packet) open
Warm0 == <<Bind(1, 90000), Bind(2, 48000), Ev("rtp", 1, Base % M, 0, 0), Ev("rtp", 1, (Base + 2) % M, 2970, 33),
           Ev("rtp", 2, 7, 0, 33)>>
Warm == IF Alpha = 1 THEN Append(Warm0, Ev("report", 0, 0, 0, 40)) ELSE Warm0
X0 == RtpStep(C1, RtpStep(C1, RFresh, Base % M, 0, 0), (Base + 2) % M, 2970, 33)
Init == /\ x = IF Alpha = 1 THEN ReportStep(X0) ELSE X0
        /\ now = IF Alpha = 1 THEN 40 ELSE 33
        /\ aux = 7
        /\ hist = Warm
Next == /\ Len(hist) < Len(Warm) + L
        /\ \/ \E d \in SeqD, m \in Timing :
                LET w == (x.hi + d) % M  ts == x.pTs + m[1]  t == now + m[2] IN
                /\ x' = RtpStep(C1, x, w, ts, t) /\ now' = t
                /\ hist' = Append(hist, Ev("rtp", 1, w, ts, t)) /\ UNCHANGED aux
           \/ /\ x' = SrStep(x, <<NtpW[2], NtpW[3]>>, now + 250) /\ now' = now + 250
              /\ hist' = Append(hist, Ev("sr", 1, 0, 0, now + 250)) /\ UNCHANGED aux
           \/ /\ x' = ReportStep(x) /\ now' = now + 1000
              /\ hist' = Append(hist, Ev("report", 0, 0, 0, now + 1000)) /\ UNCHANGED aux
           \/ /\ aux' = aux + 2 /\ hist' = Append(hist, Ev("rtp", 2, aux + 2, 960, now)) /\ UNCHANGED <<x, now>>
Leaf == IF Len(hist) = Len(Warm) + L
        THEN PrintT(<<"TRACE", ToJson(Append(hist, Ev("report", 0, 0, 0, now + 1000)))>>) /\ FALSE
        ELSE TRUE
=============================================================================

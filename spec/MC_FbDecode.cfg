SPECIFICATION Spec
CONSTANTS
  M = 8
  N = 3
  W0 = 6
  MaxSend = 4
  MaxFb = 1
  MaxChunks = 1
  RlSyms = {0, 1, 2}
  RlLens = {1, 3}
  VecSyms = {0, 1, 2}
  VecLens = {1, 2}
  Bases = {6, 7, 0}
  CountDown = {0, 1}
  CountUp = {}
  DeltaModes = {"all", "short"}
  WithCcfb = TRUE
INVARIANTS NamesSentPacket ExactTwccStatus ExactCcfbStatus IndependentOfNeighbours Complete ErrorIffTooFewDeltas
  LruBounded ReportedOnceInOrder ReportNamesSent ReportStatusIsLatest CursorSane
CHECK_DEADLOCK FALSE

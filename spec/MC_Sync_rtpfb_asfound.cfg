SPECIFICATION Spec
CONSTANTS
  Progs <- RtpfbAsFound
INVARIANTS NoRace NoLostUpdate
PROPERTIES Termination
CHECK_DEADLOCK FALSE

INIT Init
NEXT Next
CONSTANTS
  M = 65536
  NS = 1
  Base = 65530
  L = 3
  SeqD = {1, 2, 5, 0, 101, 103, 200}
  ClkA = {1000}
  ClkB = {0}
  Sizes = {1200, 26, 28}
  PastSizes = {}
  Jump = 0
CONSTRAINT Leaf
CHECK_DEADLOCK FALSE

----------------------------- MODULE IntervalPli -----------------------------
(* Growth specification (no listed property states this): functional behaviour of the interval PLI generator,
   pkg/intervalpli/generator_interceptor.go + generator_option.go + pli.go.

   The interceptor registers every remote stream whose StreamInfo carries the RTCP feedback {type "nack", parameter "pli"},
   asks for a PLI for such a stream immediately ("forced" PLI) and afterwards periodically.  All writes are done by ONE
   loop goroutine started by BindRTCPWriter; requests for forced PLIs travel to it through a channel of capacity Cap.

   State (record x):
     streams   set of registered SSRCs                       (sync.Map streams)
     pend      requests not yet taken by the loop, FIFO      (chan immediatePLINeeded, plus a sender that waits)
     running   the loop goroutine exists                     (after BindRTCPWriter, until Close)
     started   BindRTCPWriter has been called
     closed    Close has been called
   Configuration c: [periodic |-> interval > 0]   (interval <= 0: no ticker at all, createLoopTicker)

   One operator per call / linearization point:
     BindWriterStep                      BindRTCPWriter
     BindRemoteStep(x, s, fbs)           BindRemoteStream            (stream filter SupportsPli)
     UnbindStep(x, s)                    UnbindRemoteStream AND UnbindLocalStream (the code removes s in both)
     ForceStep(x, ss)                    ForcePLI(ss...)
     TickOut                             ticker case of the loop: what one tick writes
     TakeOut / TakeStep                  the loop receives one forced request and writes it
     CloseStep                           Close
   An output is a sequence of compounds; a compound is the BAG (multiset) of the MediaSSRCs of its PictureLossIndications
   (the order inside a tick compound is sync.Map order, i.e. unspecified). *)
EXTENDS Integers, FiniteSets, Sequences, TLC

CONSTANT Cap                      \* capacity of the forced-PLI channel (1 in the code)

Range(f)  == {f[i] : i \in DOMAIN f}
BagOf(q)  == [v \in Range(q) |-> Cardinality({i \in DOMAIN q : q[i] = v})]     \* sequence -> multiset
SetBag(S) == [v \in S |-> 1]

\* stream filter (pli.go): some feedback entry is exactly nack/pli
SupportsPli(fbs) == \E i \in DOMAIN fbs : fbs[i].t = "nack" /\ fbs[i].p = "pli"

Fresh == [streams |-> {}, pend |-> <<>>, running |-> FALSE, started |-> FALSE, closed |-> FALSE]

\* ---- calls ----
BindWriterStep(x) == IF x.closed THEN x ELSE [x EXCEPT !.running = TRUE, !.started = TRUE]

\* ForcePLI hands the list to the loop.  After Close the request is dropped (or left in the channel for ever): no effect.
ForceStep(x, ss) == IF x.closed THEN x ELSE [x EXCEPT !.pend = Append(@, ss)]
\* the call returns only once the channel has room: it waits for the loop when Cap requests are pending ...
MustWait(x)      == ~x.closed /\ Len(x.pend) >= Cap
\* ... and for ever when there is no loop (recorded as C11.ForcePLIBlocksWithoutLoop); generators never produce this
BlocksForever(x) == MustWait(x) /\ ~x.running

BindRemoteStep(x, s, fbs) ==
  IF SupportsPli(fbs) THEN ForceStep([x EXCEPT !.streams = @ \cup {s}], <<s>>)     \* registered + a forced PLI naming exactly s
  ELSE x                                                                          \* not even looked at
Calls_MustWait(x, fbs) == SupportsPli(fbs) /\ MustWait(x)

UnbindStep(x, s) == [x EXCEPT !.streams = @ \ {s}]          \* a request already pending for s is still written

CloseStep(x) == [x EXCEPT !.closed = TRUE, !.running = FALSE]

\* ---- the loop ----
TickEnabled(c, x) == c.periodic /\ x.running
\* exactly one PLI per currently registered SSRC in ONE compound; no packet at all when nothing is registered
TickOut(x) == IF x.streams = {} THEN <<>> ELSE <<SetBag(x.streams)>>

TakeEnabled(x) == x.running /\ x.pend # <<>>
ReqOut(ss)     == IF ss = <<>> THEN <<>> ELSE <<BagOf(ss)>>     \* ForcePLI() with no SSRC writes nothing
TakeOut(x)     == ReqOut(Head(x.pend))
TakeStep(x)    == [x EXCEPT !.pend = Tail(@)]

\* the loop runs from one observation point to the next: an optional tick body first, then it takes k requests
TakeNOut(x, k) == LET F[i \in 0 .. k] == IF i = 0 THEN <<>> ELSE F[i - 1] \o ReqOut(x.pend[i]) IN F[k]
RunOut(x, tick, k)  == (IF tick THEN TickOut(x) ELSE <<>>) \o TakeNOut(x, k)
RunStep(x, k)       == [x EXCEPT !.pend = SubSeq(@, k + 1, Len(@))]

\* ---- behaviours a user may not expect; the specification follows the code, the names are for reports ----
\* ForcePLI is not filtered by the registered set: any SSRC is written
ForcedUnregistered(x, ss) == \E i \in DOMAIN ss : ss[i] \notin x.streams
\* UnbindLocalStream of an SSRC that was registered by BindRemoteStream stops its PLIs (local and remote SSRCs share the map)
LocalUnbindHitsRemote(x, s) == s \in x.streams
\* BindRemoteStream without pli support for an SSRC that is registered leaves it registered
RebindWithoutPliKeeps(x, s, fbs) == ~SupportsPli(fbs) /\ s \in x.streams
\* a second BindRTCPWriter starts a second loop (every tick is then written twice); precondition of this module: at most once
SecondLoop(x) == x.started /\ ~x.closed
=============================================================================

INIT Init
NEXT Next
CONSTANTS Strict = FALSE
CONSTRAINT HW
POSTCONDITION Post
CHECK_DEADLOCK FALSE

INIT Init
NEXT Next
CONSTANTS
  M = 65536
  Hist = 8192
  Cap = 16777215
  JS = 256
CONSTRAINT HW
POSTCONDITION Post
CHECK_DEADLOCK FALSE

------------------------------- MODULE Sizes -------------------------------
(* C12, container-size conformance.  For every stateful container of pion/interceptor: a named bound on its size as a
   function of the component's configuration `cfg` and the number `nb` of currently bound streams (what the property
   allows), derived from reading the code, and - where the content is an exact function of the history - the exact
   size as a function of a small abstract history state.  Trace_Sizes.tla compares the REAL sizes that the in-package
   probes (harness/<pkg>/zz_verif_size_test.go) read from the objects with these operators; MC_Sizes.tla checks that the
   history machines themselves stay within the bounds (and that the report-driven ones do not, without reports).

   Conventions: cfg is a record of integers (fields per component, see each section); sequence numbers are ideal
   (unwrapped) integers, the code sees them modulo 2^16; all workloads keep |t - highest| < 2^15 per stream so that the
   code's wrap-aware comparisons and the ideal order agree (the wrap itself is crossed many times).

   Naming: Bound_<container>(cfg, nb [, more]) upper bound; Exact_<container>(state) exact value; Shape_<container>
   further structural facts (power of two, consistency of two views of one container).  Container names are the keys
   of the "z" object in the trace. *)
EXTENDS Integers, FiniteSets, Sequences, TLC

Max(a, b) == IF a > b THEN a ELSE b
Min(a, b) == IF a < b THEN a ELSE b
MaxSet(S) == CHOOSE x \in S : \A y \in S : y <= x
Pos(b) == IF b THEN 1 ELSE 0
IsPow2(n) == \E k \in 0..20 : n = 2 ^ k
W16 == 65536

(* ---------------------------------------------------------------- pkg/nack generator_interceptor.go, receive_log.go
   cfg.size in {64..32768}: receiveLog.packets = size/64 words, fixed at bind.  receiveLogs: one entry per bound stream
   that negotiated NACK (BindRemoteStream / UnbindRemoteStream).  nackCountLogs[ssrc]: keys are a subset of the numbers
   reported missing at the latest tick that pruned them, i.e. at most `size` (the window); the outer map is a subset of
   the bound streams (Unbind deletes it). *)
Bound_recvLogs(cfg, nb) == nb
Exact_recvLogs(nbEn) == nbEn
Bound_bitmap(cfg, nb) == Pos(nb > 0) * (cfg.size \div 64)
Exact_bitmap(cfg, nbEn) == Pos(nbEn > 0) * (cfg.size \div 64)
Bound_cntLogs(cfg, nb) == nb
Bound_cntMax(cfg, nb) == Pos(nb > 0) * cfg.size

(* ---------------------------------------------------------------- internal/rtpbuffer, pkg/nack responder_interceptor.go
   cfg.size in {1..32768}: ring of `size` slots; a slot holds the packet with the highest-so-far number congruent to it,
   only numbers in (highest - size, highest] are retained: at most `size` packets (pooled 1462-byte buffers) per stream.
   History state of one buffer: [started, hi, held] with held = the ideal numbers whose packet is retained. *)
EmptyBuf == [started |-> FALSE, hi |-> 0, held |-> {}]
RtpAdd(size, b, t) ==
  IF ~b.started THEN [started |-> TRUE, hi |-> t, held |-> {t}]
  ELSE IF t = b.hi THEN b                                             \* duplicate of the highest: first copy is kept
  ELSE IF t > b.hi THEN [started |-> TRUE, hi |-> t, held |-> {x \in b.held : x > t - size} \cup {t}]
  ELSE IF b.hi - t >= size THEN b                                     \* older than the window: ignored
  ELSE [started |-> TRUE, hi |-> b.hi, held |-> b.held \cup {t}]
Bound_respStreams(cfg, nb) == nb
Exact_respStreams(nbEn) == nbEn
Bound_respRing(cfg, nb) == Pos(nb > 0) * cfg.size
Exact_respRing(cfg, nbEn) == Pos(nbEn > 0) * cfg.size
Bound_respHeld(cfg, nb) == nb * cfg.size
Bound_bufRing(cfg, nb) == cfg.size
Exact_bufRing(cfg) == cfg.size
Bound_bufHeld(cfg, nb) == Pos(nb > 0) * cfg.size
Exact_held(bufs) == LET Sum[S \in SUBSET DOMAIN bufs] ==
                          IF S = {} THEN 0 ELSE LET s == CHOOSE s \in S : TRUE IN Cardinality(bufs[s].held) + Sum[S \ {s}]
                    IN Sum[DOMAIN bufs]

(* ---------------------------------------------------------------- pkg/twcc arrival_time_map.go, twcc.go
   One Recorder per interceptor (no per-stream state).  arrivalTimes is a ring whose capacity is a power of two between
   minCapacity = 128 and maxNumberOfPackets = 2^15; the valid span end - begin never exceeds the capacity nor 2^15.
   The ring shrinks: once feedback has been built for everything and a packet arrives more than 500 ms later, every
   older entry is culled and the capacity returns to 128 ("drained" sample). *)
TwccMax == 32768
TwccMin == 128
Bound_twCap(cfg, nb) == TwccMax
Shape_twCap(v) == v = 0 \/ (IsPow2(v) /\ v >= TwccMin)
Bound_twSpan(cfg, nb, cap) == Min(TwccMax, cap)
Drained_twCap == TwccMin
Drained_twSpan == 1

(* ---------------------------------------------------------------- pkg/rfc8888 recorder.go, stream_log.go
   cfg.maxsize = maxReportSize (1200).  streams: one log per SSRC; the property allows one per bound stream.  A log
   holds the received numbers >= nextSequenceNumberToReport; a report removes the received run at the head and cuts the
   log to the per-stream block budget, so after a report a log has at most PerStream(maxsize, k) entries (k = number of
   logs when that report was built, h.klast) and in between it grows by the packets received since (h.since, counted by
   the driver of the controlled clock); a log created after the report holds at most those.
   History state of one log: [init, next, last, S]. *)
PerStream(maxsize, k) ==
  IF k = 0 THEN 0 ELSE LET b == Max((maxsize - 12 - 8 * k) \div 2, 0) \div k IN b - (b % 2)
EmptyLog == [init |-> FALSE, next |-> 0, last |-> 0, S |-> {}]
LogAdd(l, t) ==
  IF ~l.init THEN [init |-> TRUE, next |-> t, last |-> t, S |-> {t}]
  ELSE IF t < l.next THEN l
  ELSE [init |-> TRUE, next |-> l.next, last |-> Max(l.last, t), S |-> l.S \cup {t}]
LogReport(l, B) ==
  IF l.S = {} THEN l
  ELSE LET nx == IF l.last - l.next + 1 > B THEN l.last - B + 1 ELSE l.next
           S1 == {x \in l.S : x >= nx}
           run == CHOOSE r \in 0..Cardinality(S1) : (\A i \in 0..(r - 1) : nx + i \in S1) /\ (nx + r \notin S1)
       IN [init |-> l.init, next |-> nx + run, last |-> l.last, S |-> {x \in S1 : x >= nx + run}]
Bound_streams8888(cfg, nb) == nb
Bound_logMax(cfg, nb, k, since) == PerStream(cfg.maxsize, k) + since
Bound_logSum(cfg, nb, k, since) == k * PerStream(cfg.maxsize, k) + since
Exact_streams8888(logs) == Cardinality(DOMAIN logs)
Exact_logMax(logs) == IF DOMAIN logs = {} THEN 0 ELSE MaxSet({Cardinality(logs[s].S) : s \in DOMAIN logs})
\* deviations (recorded findings): the recorder has no unbind path, and it keys by the SSRC of the packet header
Rfc8888KeepsStreams(everUnbound) == everUnbound > 0
Rfc8888StreamPerPacketSSRC(foreign) == foreign > 0      \* packets read so far whose header SSRC is not a bound stream

(* ---------------------------------------------------------------- internal/cc feedback_adapter.go
   cfg.cap = feedbackHistory.size (250, read from the object): LRU keyed by (ssrc, number) resp. (0, transport number);
   items map and eviction list are two views of the same set. *)
Bound_ccItems(cfg, nb) == cfg.cap
Bound_ccList(cfg, nb) == cfg.cap
Exact_ccItems(cfg, keys) == Min(cfg.cap, Cardinality(keys))
Shape_ccList(list, items) == list = items

(* ---------------------------------------------------------------- pkg/rtpfb history.go
   packets: one record per outgoing packet until a feedback report acknowledges a later packet as arrived; both index
   maps only point to live records.  The code has no bound of its own: with feedback after every cfg.fb packets at most
   2 x fb records are live (one period in flight plus the unacknowledged tail of the previous one); a stream without
   feedback is allowed what the sibling cc.FeedbackAdapter keeps (250) - the code keeps everything (recorded finding).
   History state (RFC 8888 keyed mode): [counter, held, hiAck, acked, next, byKey, keyOf]. *)
FbAllowance == 250
Bound_fbPackets(cfg, nb) == Max(2 * cfg.fb, FbAllowance)
Bound_fbIdx(packets) == packets
EmptyFb == [counter |-> 0, held |-> {}, hiAck |-> 0, acked |-> FALSE, next |-> 0, byKey |-> <<>>, keyOf |-> <<>>]
FbSent(f, key) ==
  [counter |-> f.counter + 1, held |-> f.held \cup {f.counter}, hiAck |-> f.hiAck, acked |-> f.acked, next |-> f.next,
   byKey |-> [k \in DOMAIN f.byKey \cup {key} |-> IF k = key THEN f.counter ELSE f.byKey[k]],
   keyOf |-> [c \in DOMAIN f.keyOf \cup {f.counter} |-> IF c = f.counter THEN key ELSE f.keyOf[c]]]
FbReport(f, arrivedKeys) ==
  LET cs == {f.byKey[k] : k \in arrivedKeys \cap DOMAIN f.byKey} \cap f.held
      hi2 == IF cs = {} THEN f.hiAck ELSE Max(f.hiAck, MaxSet(cs))
      ack2 == f.acked \/ cs # {}
  IN IF ack2 /\ f.next <= hi2
     THEN LET del == {c \in f.held : c <= hi2}
              dk == {f.keyOf[c] : c \in del}
          IN [counter |-> f.counter, held |-> f.held \ del, hiAck |-> hi2, acked |-> TRUE, next |-> hi2 + 1,
              byKey |-> [k \in DOMAIN f.byKey \ dk |-> f.byKey[k]],
              keyOf |-> [c \in DOMAIN f.keyOf \ del |-> f.keyOf[c]]]
     ELSE [f EXCEPT !.hiAck = hi2, !.acked = ack2]
Exact_fbPackets(f) == Cardinality(f.held)
RtpfbHistoryWithoutFeedback(cfg) == cfg.fb = 0

(* ---------------------------------------------------------------- pkg/report
   receiver: sync.Map entry per bound remote stream, each with a fixed 128-word (8192 packet) bitmap; sender: entry per
   bound local stream. *)
Bound_rrStreams(cfg, nb) == nb
Exact_rrStreams(nbEn) == nbEn
Bound_rrBitmap(cfg, nb) == Pos(nb > 0) * 128
Exact_rrBitmap(nbEn) == Pos(nbEn > 0) * 128
Bound_rsStreams(cfg, nb) == nb
Exact_rsStreams(nbEn) == nbEn

(* ---------------------------------------------------------------- pkg/stats
   recorders: one per SSRC bound (local or remote); there is no Unbind*, so the real size is the number of SSRCs EVER
   bound (recorded finding).  Per recorder: the last cfg.maxsr sender report times and cfg.maxrrtr receiver reference
   times (both 5, read from the object). *)
Bound_recorders(cfg, nb) == nb
Exact_recorders(ever) == ever
Bound_srHist(cfg, nb) == cfg.maxsr
Bound_rrtrHist(cfg, nb) == cfg.maxrrtr
StatsKeepsRecorders(everUnbound) == everUnbound > 0

(* ---------------------------------------------------------------- pkg/jitterbuffer
   One queue per interceptor (all streams share it), cfg.minstart = minStartCount (50): once that many packets are
   queued every read pops the playout head, so in-order traffic keeps the queue at minstart or below.  A packet that is
   not the successor of the packet pushed before it (loss, duplicate, reordering, or a second stream interleaved into the
   shared queue; h.gooo counts them) makes the head unplayable or leaves a copy behind: recorded finding.  The cached uint16 length and the list walk are two views of the same list. *)
Bound_jbQueue(cfg, nb) == cfg.minstart
Shape_jbLength(len, walk) == len = walk % W16
JitterBufferKeepsUnplayablePackets(ooo) == ooo > 0
\* UnbindRemoteStream clears the shared buffer with Clear(true), which kept playoutReady / playoutHead: the head then named
\* a dropped packet, nothing bound afterwards was ever played and everything was retained (repaired in the tree by a
\* `fix:` commit; the predicate stays so that a tree without the repair is reported under this name)
JitterBufferStaleHeadAfterUnbind(nUnbinds) == nUnbinds > 0

(* ---------------------------------------------------------------- pkg/pacing
   cfg.qsize = queueSize (1 000 000, set by the probe): Write fails with errPacerOverflow when the channel holds qsize
   packets, so at most qsize (+1 being handed over) accepted packets may be waiting.  The loop moves packets from the
   channel into a local slice without limit (recorded finding: overload workloads, cfg.overload = 1). *)
Bound_pacChan(cfg, nb) == cfg.qsize
Bound_pacHeld(cfg, nb) == cfg.qsize + 1
PacingQueueBeyondQueueSize(cfg) == cfg.overload = 1

(* ---------------------------------------------------------------- pkg/gcc leaky_bucket_pacer.go, pkg/cc
   queue: list of accepted packets not yet handed to the stream writer - no configured bound in the code (backlog =
   offered - rate x time), so the size is held to conservation: accepted - delivered, at most one packet in hand-over
   (d1 / d2 = delivered count read before / after the list length).  ssrcToWriter: entry per bound local stream; there
   is no removal path (recorded finding). *)
Shape_lbQueue(q, acc, d1, d2) == q <= acc - d1 /\ q >= acc - d2 - 1
Bound_writers(cfg, nb) == nb
Exact_writers(ever) == ever
CcKeepsStreamWriters(everUnbound) == everUnbound > 0

(* ---------------------------------------------------------------- pkg/flexfec encoder_interceptor.go
   cfg.nmedia = numMediaPackets (5): entry per bound stream with FEC negotiated; the batch is flushed when it reaches
   nmedia packets, so after every write it holds (packets of the stream so far) mod nmedia. *)
Bound_fecStreams(cfg, nb) == nb
Exact_fecStreams(nbEn) == nbEn
Bound_fecBatch(cfg, nb) == Pos(nb > 0) * Max(cfg.nmedia - 1, 0)
Exact_fecBatch(cnt) == IF DOMAIN cnt = {} THEN 0 ELSE MaxSet({cnt[s] : s \in DOMAIN cnt})

(* ---------------------------------------------------------------- pkg/intervalpli, Attributes *)
Bound_pliStreams(cfg, nb) == nb
Exact_pliStreams(nbEn) == nbEn
Bound_attrKeys(cfg, nb) == 2          \* parse cache: the RTP header key and the RTCP packets key
=============================================================================

SPECIFICATION Spec
CONSTANTS
  M = 16
  Writers <- W3
  NW = 2
  C0 = 12
  Plain <- NoPlain
  NonAtomic = TRUE
INVARIANTS NoDup
CHECK_DEADLOCK FALSE

SPECIFICATION Spec
CONSTANTS
  M = 16
  K = 2
CONSTRAINT Bound
INVARIANTS NearAlways
CHECK_DEADLOCK FALSE

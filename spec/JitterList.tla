---------------------------- MODULE JitterList ----------------------------
(* Implementation-shaped layer of C18: the sorted doubly linked list with a cached length of
   pkg/jitterbuffer/priority_queue.go, transcribed statement by statement as the code is NOW (after the three
   repairs), over an explicit heap.  MC_JitterList checks that it refines the property-level PriorityQueue
   machine of JitterBuffer.tla.

   heap    sequence of nodes, a node's address is its index (allocation order); 0 is nil
   node    [val |-> packet identity (0 = nil), ts |-> val.Timestamp, prio, next, prev]
   list    [heap, head (the field q.next), length (uint16, wraps), hung]
   `hung`  a loop of the code ran longer than there are nodes (it would never terminate)

   The three repaired behaviours stay switchable as negative controls:
     ClearDetaches      Clear sets q.next = nil                       (FALSE: the list stays attached)
     HeadInsertLE       Push tests `priority <= q.next.priority`      (FALSE: strict <, a duplicate of the lowest
                                                                        number links the first two nodes into a cycle)
     HeadPopClearsPrev  Pop/PopAt/PopAtTimestamp at the head set the new head's prev to nil
                                                                       (FALSE: every popped node stays reachable) *)
EXTENDS JitterBuffer
CONSTANTS ClearDetaches, HeadInsertLE, HeadPopClearsPrev

Nil == 0
U16 == 65536
NewNode(e) == [val |-> e.id, ts |-> e.ts, prio |-> e.n, next |-> Nil, prev |-> Nil]
LInit == [heap |-> <<>>, head |-> Nil, length |-> 0, hung |-> FALSE]
Panic == Err("panic")               \* nil dereference
Hang  == Err("hang")

\* ---- Find: for next != nil { if next.priority == sqNum { return next.val } ; next = next.next }
RECURSIVE FindFrom(_, _, _, _)
FindFrom(heap, pos, sq, fuel) ==
  IF pos = Nil THEN Err("notfound")
  ELSE IF fuel = 0 THEN Hang
  ELSE IF heap[pos].prio = sq THEN Ok(heap[pos].val)
  ELSE FindFrom(heap, heap[pos].next, sq, fuel - 1)
LFindOut(q, sq) == FindFrom(q.heap, q.head, sq, Len(q.heap) + 1)

\* ---- Push
\* for head != nil { if priority <= head.priority { break } ; prev = head ; head = head.next }   -> <<head, prev>>
RECURSIVE InsertScan(_, _, _, _, _)
InsertScan(heap, head, prev, prio, fuel) ==
  IF head = Nil THEN <<Nil, prev>>
  ELSE IF fuel = 0 THEN <<-1, -1>>
  ELSE IF prio <= heap[head].prio THEN <<head, prev>>
  ELSE InsertScan(heap, heap[head].next, head, prio, fuel - 1)

LPushStep(q, e) ==
  LET k  == Len(q.heap) + 1
      h1 == Append(q.heap, NewNode(e))
      inc == (q.length + 1) % U16
  IN
  IF q.head = Nil THEN [q EXCEPT !.heap = h1, !.head = k, !.length = inc]
  ELSE IF (IF HeadInsertLE THEN e.n <= h1[q.head].prio ELSE e.n < h1[q.head].prio) THEN
       \* newPq.next = q.next ; q.next.prev = newPq ; q.next = newPq
       [q EXCEPT !.heap = [h1 EXCEPT ![k].next = q.head, ![q.head].prev = k], !.head = k, !.length = inc]
  ELSE LET sc == InsertScan(h1, q.head, q.head, e.n, k)
           head == sc[1]
           prev == sc[2] IN
       IF head = -1 THEN [q EXCEPT !.hung = TRUE]
       ELSE IF head = Nil THEN
            \* if prev != nil { prev.next = newPq } ; newPq.prev = prev
            LET h2 == IF prev # Nil THEN [h1 EXCEPT ![prev].next = k] ELSE h1 IN
            [q EXCEPT !.heap = [h2 EXCEPT ![k].prev = prev], !.length = inc]
       ELSE \* newPq.next = head ; newPq.prev = prev ; if prev != nil { prev.next = newPq } ; head.prev = newPq
            LET h2 == [h1 EXCEPT ![k].next = head, ![k].prev = prev]
                h3 == IF prev # Nil THEN [h2 EXCEPT ![prev].next = k] ELSE h2
                h4 == [h3 EXCEPT ![head].prev = k] IN
            [q EXCEPT !.heap = h4, !.length = inc]

\* ---- removal of the head node (shared text of Pop / PopAt / PopAtTimestamp)
DropHead(q) ==
  LET h  == q.head
      nh == q.heap[h].next
      h1 == [q.heap EXCEPT ![h].val = Nil]
      h2 == IF nh # Nil /\ HeadPopClearsPrev THEN [h1 EXCEPT ![nh].prev = Nil] ELSE h1 IN
  [q EXCEPT !.heap = h2, !.head = nh, !.length = (q.length - 1) % U16]

\* Pop: <<result, successor>>
LPop(q) == IF q.head = Nil THEN <<Err("invalid"), q>> ELSE <<Ok(q.heap[q.head].val), DropHead(q)>>

\* key: [k |-> "n" / "ts", v]; pos.priority == sqNum, resp. pos.val.Timestamp == timestamp (nil val: panic)
Deref(node, key) == key.k = "ts" /\ node.val = Nil
Match(node, key) == IF key.k = "n" THEN node.prio = key.v ELSE node.ts = key.v

\* pos := q.next ; prev := q.next.prev ; for pos != nil { if match { unlink } ; prev = pos ; pos = pos.next }
RECURSIVE UnlinkScan(_, _, _, _, _)
UnlinkScan(q, pos, prev, key, fuel) ==
  IF pos = Nil THEN <<Err("notfound"), q>>
  ELSE IF fuel = 0 THEN <<Hang, [q EXCEPT !.hung = TRUE]>>
  ELSE IF Deref(q.heap[pos], key) THEN <<Panic, q>>
  ELSE IF Match(q.heap[pos], key) THEN
       IF prev = Nil THEN <<Panic, q>>                      \* prev.next with prev == nil
       ELSE \* pos.val = nil ; prev.next = pos.next ; if prev.next != nil { prev.next.prev = prev } ; q.length--
            LET nx == q.heap[pos].next
                h1 == [q.heap EXCEPT ![pos].val = Nil]
                h2 == [h1 EXCEPT ![prev].next = nx]
                h3 == IF h2[prev].next # Nil THEN [h2 EXCEPT ![h2[prev].next].prev = prev] ELSE h2 IN
            <<Ok(q.heap[pos].val), [q EXCEPT !.heap = h3, !.length = (q.length - 1) % U16]>>
  ELSE UnlinkScan(q, q.heap[pos].next, pos, key, fuel - 1)

LPopKey(q, key) ==
  IF q.head = Nil THEN <<Err("invalid"), q>>
  ELSE IF Deref(q.heap[q.head], key) THEN <<Panic, q>>
  ELSE IF Match(q.heap[q.head], key) THEN <<Ok(q.heap[q.head].val), DropHead(q)>>
  ELSE UnlinkScan(q, q.head, q.heap[q.head].prev, key, Len(q.heap) + 1)
LPopAt(q, sq)   == LPopKey(q, [k |-> "n", v |-> sq])
LPopAtTs(q, ts) == LPopKey(q, [k |-> "ts", v |-> ts])

\* ---- Clear: next := q.next ; q.next = nil ; q.length = 0 ; for next != nil { next.prev = nil ; next = next.next }
RECURSIVE ClearPrevs(_, _, _)
ClearPrevs(heap, pos, fuel) ==
  IF pos = Nil \/ fuel = 0 THEN heap
  ELSE ClearPrevs([heap EXCEPT ![pos].prev = Nil], heap[pos].next, fuel - 1)
LClearStep(q) ==
  [q EXCEPT !.heap = ClearPrevs(q.heap, q.head, Len(q.heap) + 1),
            !.head = IF ClearDetaches THEN Nil ELSE @,
            !.length = 0]
LLength(q) == q.length

\* ------------------------------------------------------------------ shape of the list
\* nodes met by following next from the head, in order; stops at a node met before (cycle)
RECURSIVE WalkFrom(_, _, _)
WalkFrom(heap, pos, acc) ==
  IF pos = Nil THEN acc
  ELSE IF \E i \in DOMAIN acc : acc[i] = pos THEN Append(acc, pos)      \* second visit recorded: witnesses the cycle
  ELSE WalkFrom(heap, heap[pos].next, Append(acc, pos))
Walk(q) == WalkFrom(q.heap, q.head, <<>>)
ListNodes(q) == {Walk(q)[i] : i \in DOMAIN Walk(q)}
\* everything reachable from the head through next and prev pointers
RECURSIVE Closure(_, _)
Closure(heap, S) ==
  LET T == S \cup (({heap[a].next : a \in S} \cup {heap[a].prev : a \in S}) \ {Nil}) IN
  IF T = S THEN S ELSE Closure(heap, T)
Reachable(q) == IF q.head = Nil THEN {} ELSE Closure(q.heap, {q.head})

\* (c) following next from the head ends at nil without meeting a node twice
Acyclic(q) == Cardinality(ListNodes(q)) = Len(Walk(q))
\* (b) number of nodes in the list = cached length (no underflow)
CachedLength(q) == Len(Walk(q)) = q.length
\* (a) the values met along the list are exactly the abstract buffer contents, in the abstract order
\*     (nondecreasing raw number; duplicates of one number in any order), each node caching its packet's number
Contents(q, buf) ==
  LET w == Walk(q) IN
  /\ {q.heap[w[i]].val : i \in DOMAIN w} = Ids(buf)
  /\ Len(w) = Cardinality(buf)
  /\ \A i \in DOMAIN w : Entry(q.heap[w[i]].prio, q.heap[w[i]].val, q.heap[w[i]].ts) \in buf
  /\ \A i \in 1 .. Len(w) - 1 : q.heap[w[i]].prio <= q.heap[w[i + 1]].prio
\* (d) prev pointers: head.prev = nil, n.next.prev = n
PrevConsistent(q) ==
  /\ (q.head # Nil => q.heap[q.head].prev = Nil)
  /\ \A a \in ListNodes(q) : q.heap[a].next # Nil => q.heap[q.heap[a].next].prev = a
\* (e) no node outside the list is reachable from a list node
NoOutside(q) == Reachable(q) \subseteq ListNodes(q)
=============================================================================

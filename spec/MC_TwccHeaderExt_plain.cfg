SPECIFICATION Spec
CONSTANTS
  M = 16
  Writers <- W3
  NW = 3
  C0 = 13
  Plain <- OnePlain
  NonAtomic = FALSE
INVARIANTS NoDup GapFree Exact OwnIncreasing PlainUntouched
CHECK_DEADLOCK FALSE

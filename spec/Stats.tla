------------------------------- MODULE Stats -------------------------------
(* Property-level specification of the stream statistics recorder (C19).
   pkg/stats/stats_recorder.go + the fan-out of pkg/stats/interceptor.go.

   One record of counters per bound SSRC ("recorder state" x, x.ssrc is the SSRC it belongs to).
   Everything is a literal recount of the traffic that passed since the recorder became active.
   One pure operator per call:
     Fresh(s, rate)                 getRecorder / newRecorder + Start
     InRtpStep / OutRtpStep         an RTP packet read on / written to the stream bound for x.ssrc
     InRtcpStep / OutRtcpStep       an RTCP compound read / written (every recorder sees every compound)
     Out(x)                         Getter.Get(ssrc) (exact figures) ; Match(x, logged) compares with tolerances

   Ideal quantities: clocks are integer milliseconds (offsets from a base chosen by the harness),
   durations derived from the 1/65536 s wire unit are exact rationals [us, fr] = us - fr * 15625/1024 microseconds,
   sequence numbers are unwrapped integers; the wire carries residues modulo M.

   Abstract RTCP syntax.  A compound is a sequence of packets, a packet is a record
     [t, ss, ms, n, ntp, pc, oc, rp]   t \in {"sr","rr","xr","nack","pli","fir"}
       ss  sender SSRC                 ms  media SSRC (nack, pli, fir)        n  nack: number of lost packets,
       ntp SR: NTP time (ms) ; xr: time of the RRTR block, -1 = no RRTR block     xr: block layout (no meaning)
       pc, oc  SR packet / octet count
       rp  sequence of [s, lost, frac, hi, jit, lsr, dlsr]:
           sr/rr: reception reports (lsr = time (ms) of the SR that is echoed, -1 = none; dlsr in 1/65536 s)
           xr:    DLRR sub-blocks (s, lsr = echoed RRTR time, dlsr = delay since it)
           fir:   entries (only s is used)                                                                   *)
EXTENDS Integers, Sequences, FiniteSets, TLC

CONSTANTS M,      \* sequence-number modulus (65536 in the code)
          K       \* number of remembered SR / RRTR timestamps (5 in the code)
H == M \div 2

Max(a, b) == IF a > b THEN a ELSE b
Abs(a)    == IF a < 0 THEN -a ELSE a
Fold(Op(_, _), x, seq) ==
  LET F[i \in 0 .. Len(seq)] == IF i = 0 THEN x ELSE Op(F[i - 1], seq[i]) IN F[Len(seq)]
Push(q, v) == LET q2 == Append(q, v) IN IF Len(q2) > K THEN Tail(q2) ELSE q2
RECURSIVE GCD(_, _)
GCD(a, b) == IF b = 0 THEN a ELSE GCD(b, a % b)

\* ---- exact durations: [us, fr] denotes us - fr * 15625 / 1024 microseconds, 0 <= fr < 1024 ----
Zero == [us |-> 0, fr |-> 0]
\* now - t - d/65536 s   (now, t in ms; d in 1/65536 s; 1/65536 s = 15625/1024 us)
RttOf(now, t, d) == [us |-> (now - t) * 1000 - (d \div 1024) * 15625, fr |-> d % 1024]
RttAdd(a, b) == LET f == a.fr + b.fr IN
                IF f >= 1024 THEN [us |-> a.us + b.us - 15625, fr |-> f - 1024]
                ELSE [us |-> a.us + b.us, fr |-> f]

\* ---- sequencenumber.Unwrapper (C20): the congruent value nearest to the previous result, a tie at
\*      exactly M/2 goes forward iff the residue is numerically larger, never below zero ----
Unwrap(last, w) ==
  LET lw == last % M
      d  == (w - lw) % M
  IN IF d = 0 THEN last
     ELSE IF d < H \/ (d = H /\ w > lw) THEN last + d
     ELSE IF last + d - M >= 0 THEN last + d - M
     ELSE last + d

Fresh(s, rate) ==
  [ssrc |-> s, rate |-> rate,
   \* inbound RTP
   iinit |-> FALSE, ifirst |-> 0, ihi |-> 0, ilast |-> 0,
   ipr |-> 0, ib |-> 0, ihb |-> 0, ilt |-> -1,
   \* feedback sent by us about the inbound stream
   inack |-> 0, ipli |-> 0, ifir |-> 0,
   \* outbound RTP
   ops |-> 0, ob |-> 0, ohb |-> 0, oinit |-> FALSE, ofirst |-> 0,
   \* feedback received about the outbound stream
   onack |-> 0, opli |-> 0, ofir |-> 0,
   \* remote inbound (reception reports about ssrc)
   rpr |-> 0, rpl |-> 0, rjit |-> 0, rfrac |-> 0, rrtt |-> Zero, rtot |-> Zero, rn |-> 0,
   \* remote outbound (sender reports, DLRR)
   sps |-> 0, sb |-> 0, sts |-> -1, sn |-> 0, srtt |-> Zero, stot |-> Zero, sm |-> 0,
   srs |-> <<>>, rrtrs |-> <<>>]

\* ------------------------------------------------------------------ RTP
\* packet with SSRC p, wire number w, header of hl bytes and pl payload bytes read at time now
InRtpStep(x, p, w, hl, pl, now) ==
  IF p # x.ssrc THEN x
  ELSE LET u == IF x.iinit THEN Unwrap(x.ilast, w) ELSE w IN
       [x EXCEPT !.iinit = TRUE, !.ilast = u,
                 !.ifirst = IF x.iinit THEN @ ELSE u,
                 !.ihi = IF x.iinit THEN Max(@, u) ELSE u,
                 !.ipr = @ + 1, !.ib = @ + hl + pl, !.ihb = @ + hl, !.ilt = now]
Lost(x) == IF x.iinit THEN (x.ihi - x.ifirst + 1) - x.ipr ELSE 0

OutRtpStep(x, p, w, hl, pl) ==
  IF p # x.ssrc THEN x
  ELSE [x EXCEPT !.ops = @ + 1, !.ob = @ + hl + pl, !.ohb = @ + hl,
                 !.oinit = TRUE, !.ofirst = IF x.oinit THEN @ ELSE w]

\* ------------------------------------------------------------------ RTCP
Names(rp, s) == \E i \in DOMAIN rp : rp[i].s = s

\* one reception report about x.ssrc received at time now
RRStep(x, r, now) ==
  IF r.s # x.ssrc THEN x
  ELSE LET x1 == [x EXCEPT !.rpl = r.lost, !.rjit = r.jit, !.rfrac = r.frac,
                           !.rpr = IF x.oinit THEN Max(r.hi - x.ofirst + 1 - r.lost, 0) ELSE @]
           hit == r.lsr >= 0 /\ r.dlsr > 0 /\ \E i \in DOMAIN x.srs : x.srs[i] = r.lsr
       IN IF hit THEN LET m == RttOf(now, r.lsr, r.dlsr) IN
                      [x1 EXCEPT !.rrtt = m, !.rtot = RttAdd(@, m), !.rn = @ + 1]
          ELSE x1
\* one DLRR sub-block
DlrrStep(x, r, now) ==
  IF r.s # x.ssrc THEN x
  ELSE IF r.lsr >= 0 /\ r.dlsr > 0 /\ \E i \in DOMAIN x.rrtrs : x.rrtrs[i] = r.lsr
       THEN LET m == RttOf(now, r.lsr, r.dlsr) IN
            [x EXCEPT !.srtt = m, !.stot = RttAdd(@, m), !.sm = @ + 1]
       ELSE x

InPktStep(x, pk, now) ==
  CASE pk.t = "nack" -> IF pk.ms = x.ssrc THEN [x EXCEPT !.onack = @ + 1] ELSE x
    [] pk.t = "pli"  -> IF pk.ms = x.ssrc THEN [x EXCEPT !.opli = @ + 1] ELSE x
    [] pk.t = "fir"  -> IF Names(pk.rp, x.ssrc) THEN [x EXCEPT !.ofir = @ + 1] ELSE x
    [] pk.t = "rr"   -> Fold(LAMBDA a, r : RRStep(a, r, now), x, pk.rp)
    [] pk.t = "sr"   -> IF pk.ss = x.ssrc \/ Names(pk.rp, x.ssrc)
                        THEN Fold(LAMBDA a, r : RRStep(a, r, now),
                                  [x EXCEPT !.sps = pk.pc, !.sb = pk.oc, !.sts = pk.ntp, !.sn = @ + 1], pk.rp)
                        ELSE x
    [] pk.t = "xr"   -> Fold(LAMBDA a, r : DlrrStep(a, r, now), x, pk.rp)
    [] OTHER -> x
InRtcpStep(x, pks, now) == Fold(LAMBDA a, pk : InPktStep(a, pk, now), x, pks)

OutPktStep(x, pk) ==
  CASE pk.t = "nack" -> IF pk.ms = x.ssrc THEN [x EXCEPT !.inack = @ + 1] ELSE x
    [] pk.t = "pli"  -> IF pk.ms = x.ssrc THEN [x EXCEPT !.ipli = @ + 1] ELSE x
    [] pk.t = "fir"  -> IF Names(pk.rp, x.ssrc) THEN [x EXCEPT !.ifir = @ + 1] ELSE x
    [] pk.t = "sr"   -> IF pk.ss = x.ssrc \/ Names(pk.rp, x.ssrc) THEN [x EXCEPT !.srs = Push(@, pk.ntp)] ELSE x
    [] pk.t = "xr"   -> IF pk.ntp >= 0 THEN [x EXCEPT !.rrtrs = Push(@, pk.ntp)] ELSE x   \* RRTR has no destination
    [] OTHER -> x
OutRtcpStep(x, pks) == Fold(LAMBDA a, pk : OutPktStep(a, pk), x, pks)

\* ------------------------------------------------------------------ the interceptor: one recorder per bound SSRC
\* st: function from the bound SSRCs to recorder states; e: an event record
\*   [a, s, p, w, hl, pl, now, rate, d, pk]  a \in {"bind","irtp","ortp","ircp","orcp","get"}
\* RTP goes to the recorder of the stream it was read from / written to (s); RTCP goes to every recorder.
Put(st, s, x) == [t \in DOMAIN st \cup {s} |-> IF t = s THEN x ELSE st[t]]
SysStep(st, e) ==
  CASE e.a = "bind" -> IF e.s \in DOMAIN st THEN st ELSE Put(st, e.s, Fresh(e.s, e.rate))
    \* (as found, recorded finding C11.StatsNeverUnbinds: the interceptor has no Unbind*, the recorder and its counters stay;
    \*  the statistics remain a recount of ALL the traffic observed for the SSRC, across Unbind and a second Bind)
    [] e.a = "unbind" -> st
    [] e.a = "irtp" -> IF e.s \in DOMAIN st THEN Put(st, e.s, InRtpStep(st[e.s], e.p, e.w, e.hl, e.pl, e.now)) ELSE st
    [] e.a = "ortp" -> IF e.s \in DOMAIN st THEN Put(st, e.s, OutRtpStep(st[e.s], e.p, e.w, e.hl, e.pl)) ELSE st
    [] e.a = "ircp" -> [s \in DOMAIN st |-> InRtcpStep(st[s], e.pk, e.now)]
    [] e.a = "orcp" -> [s \in DOMAIN st |-> OutRtcpStep(st[s], e.pk)]
    [] OTHER -> st

\* ------------------------------------------------------------------ observation
Out(x) == [ipr |-> x.ipr, ipl |-> Lost(x), ilt |-> x.ilt, ihb |-> x.ihb, ib |-> x.ib,
           ifir |-> x.ifir, ipli |-> x.ipli, inack |-> x.inack,
           ops |-> x.ops, ob |-> x.ob, ohb |-> x.ohb, onack |-> x.onack, ofir |-> x.ofir, opli |-> x.opli,
           rpr |-> x.rpr, rpl |-> x.rpl, rjit |-> x.rjit, rfrac |-> x.rfrac,
           rrtt |-> x.rrtt, rtot |-> x.rtot, rn |-> x.rn,
           sps |-> x.sps, sb |-> x.sb, sts |-> x.sts, sn |-> x.sn,
           srtt |-> x.srtt, stot |-> x.stot, sm |-> x.sm]

\* logged microseconds v against an exact duration r, +-tol us
NearDur(v, r, tol) ==
  IF Abs(v - r.us) > 20000 + tol THEN FALSE
  ELSE Abs(1024 * (v - r.us) + r.fr * 15625) <= 1024 * tol
\* logged round(seconds * 10^6) against units / rate
NearJit(v, units, rate) ==
  LET g == GCD(1000000, rate)  num == 1000000 \div g  den == rate \div g IN
  IF v < 0 \/ v > 200000000 THEN FALSE ELSE 2 * Abs(v * den - units * num) <= den
\* logged round(fraction * 10^6) against byte / 256
NearFrac(v, byte) == IF v < 0 \/ v > 1000000 THEN FALSE ELSE 2 * Abs(v * 256 - byte * 1000000) <= 256
\* logged microsecond offset against a millisecond clock value (-1 = never set)
NearTime(v, ms, tol) == IF ms < 0 THEN v = -1 ELSE Abs(v - ms * 1000) <= tol

\* g = the record logged by the harness for Get(x.ssrc); Jitter of the inbound stream is not compared
Match(x, g, tol) ==
  LET o == Out(x) IN
  /\ g.ipr = o.ipr /\ g.ipl = o.ipl /\ g.ilt = o.ilt /\ g.ihb = o.ihb /\ g.ib = o.ib
  /\ g.ifir = o.ifir /\ g.ipli = o.ipli /\ g.inack = o.inack
  /\ g.ops = o.ops /\ g.ob = o.ob /\ g.ohb = o.ohb
  /\ g.onack = o.onack /\ g.ofir = o.ofir /\ g.opli = o.opli
  /\ g.rpr = o.rpr /\ g.rpl = o.rpl /\ g.rn = o.rn
  /\ NearJit(g.rjit, o.rjit, x.rate) /\ NearFrac(g.rfrac, o.rfrac)
  /\ NearDur(g.rrtt, o.rrtt, tol) /\ NearDur(g.rtot, o.rtot, tol)
  /\ g.sps = o.sps /\ g.sb = o.sb /\ g.sn = o.sn /\ g.sm = o.sm
  /\ NearTime(g.sts, o.sts, tol)
  /\ NearDur(g.srtt, o.srtt, tol) /\ NearDur(g.stot, o.stot, tol)

\* ---- deviation predicates (names used as tags in KNOWN_FINDINGS.jsonl) ----
\* an incoming compound in which an XR that concerns x.ssrc is followed by further packets
XrNotLast(x, pks) ==
  \E i \in DOMAIN pks : i < Len(pks) /\ pks[i].t = "xr" /\ (pks[i].ss = x.ssrc \/ Names(pks[i].rp, x.ssrc))
\* an incoming FIR that names x.ssrc in an entry while its media-SSRC field is something else (RFC 5104: zero)
FirMediaOther(x, pks) ==
  \E i \in DOMAIN pks : pks[i].t = "fir" /\ Names(pks[i].rp, x.ssrc) /\ pks[i].ms # x.ssrc
\* a DLRR sub-block that echoes an RRTR time which is remembered more than once
DlrrDupRrtr(x, pks) ==
  \E i \in DOMAIN pks : pks[i].t = "xr" /\ \E j \in DOMAIN pks[i].rp :
     LET r == pks[i].rp[j] IN
     r.s = x.ssrc /\ r.lsr >= 0 /\ r.dlsr > 0 /\ Cardinality({k \in DOMAIN x.rrtrs : x.rrtrs[k] = r.lsr}) > 1
=============================================================================

-------------------------- MODULE Trace_Lifecycle --------------------------
(* (T) validates traces of the universal chain harness against the lifecycle property C11:
   P1 nothing reaches a writer after Close has returned; P2 no goroutine of the library survives Close;
   P3 no call blocks or panics, whatever calls preceded it; P4 after Unbind has returned at most one further
   emission about that SSRC. *)
EXTENDS Integers, Sequences, FiniteSets, TLC, Json, IOUtils
Trace == ndJsonDeserialize(IOEnv.VERIF_TRACE)
KnownSeq == ndJsonDeserialize(IOEnv.VERIF_KNOWN)
Known == {KnownSeq[i].tag : i \in DOMAIN KnownSeq}

VARIABLES l, members, ub, nclose, nbindw, devs, taint
vars == <<l, members, ub, nclose, nbindw, devs, taint>>
Range(f) == {f[i] : i \in DOMAIN f}
Has(k) == k \in Range(members)
Init == l = 1 /\ members = <<>> /\ ub = <<>> /\ nclose = 0 /\ nbindw = 0 /\ devs = {} /\ taint = ""

AboutTypes == {"rr", "nack", "pli", "sr", "ccfb"}
\* number of report items of type t in a wire event that are about SSRC s.  ub[s] counts them per type since the Unbind of
\* s: every report type is written by its own member (NACK: nack generator, RR: receiver reports, SR: sender reports, PLI,
\* CCFB), i.e. by its own loop goroutine, and each of those may have one emission in flight when Unbind returns.
AboutCount(e, s, t) == Cardinality({i \in DOMAIN e.sum : e.sum[i].t = t /\ e.sum[i].ssrc = s})
Zero == [t \in AboutTypes |-> 0]
Bump(e) == [s \in DOMAIN ub |-> [t \in AboutTypes |->
              ub[s][t] + (IF e.a = "wire" /\ e.t = "rtcp" /\ ~e.app THEN AboutCount(e, s, t) ELSE 0)]]

\* P4 "beyond one already in flight": one emission per LOOP GOROUTINE can be in flight when Unbind returns.  A script that
\* calls BindRTCPWriter twice has started two loops (every loop-driven member starts one per call), each of which may have
\* taken its snapshot of the stream just before the Unbind - two reports about the SSRC are then legitimate.  (Corrected
\* false alarm: the bound was the constant 1; found by the thorough tier on `... bindw ... bindw, wait, unbindl`.)
InFlight == IF nbindw > 1 THEN nbindw ELSE 1
\* ---- recorded findings as named as-found behaviour (accepted as exactly that, the trace is NOT abandoned) ----------
\* C11.Rfc8888NeverUnbinds: the rfc8888 sender has no Unbind*, every later CCFB report still carries a block for the SSRC:
\* in a chain with that member CCFB blocks are outside P4 (every other report type is still held to it).
\* C11.FlexFecEmitsAfterClose: the flexfec encoder has no Close, a write after Close still completes a batch: in a chain
\* with that member a repair packet (payload type 98, not written by the application) may reach the transport after Close.
KnownRfc == "C11.Rfc8888NeverUnbinds" \in Known /\ Has("rfc8888")
KnownFec == "C11.FlexFecEmitsAfterClose" \in Known /\ Has("flexfec")
P4Types == IF KnownRfc THEN AboutTypes \ {"ccfb"} ELSE AboutTypes
FecAfterClose(e) == e.a = "wire" /\ e.t = "rtp" /\ e.closed /\ ~e.app /\ e.pkt.pt = 98
AsFoundUsed(e) ==
  (IF KnownRfc /\ e.a = "wire" /\ e.t = "rtcp" /\ ~e.app /\ \E s \in DOMAIN ub : Bump(e)[s]["ccfb"] > InFlight
   THEN {"C11.Rfc8888NeverUnbinds"} ELSE {})
  \cup (IF KnownFec /\ FecAfterClose(e) THEN {"C11.FlexFecEmitsAfterClose"} ELSE {})

\* (corrected false alarm: besides the emission a loop has in flight, a PLI REQUEST may be queued when Unbind returns - every
\* BindRemoteStream of a PLI stream puts one into the generator's channel of capacity 1 - and is written afterwards; found
\* when the sampled sequence `bindm, bindm, unbindm` ran without a pause)
Queued(t) == IF t = "pli" THEN 1 ELSE 0
Accept(e) ==
  IF e.a = "pre" THEN TRUE
  ELSE IF e.a = "wire" THEN /\ (~e.closed \/ e.app \/ (KnownFec /\ FecAfterClose(e)))   \* P1 (application packets pass through)
                            /\ \A s \in DOMAIN ub : \A t \in P4Types : Bump(e)[s][t] <= InFlight + Queued(t)  \* P4
  ELSE IF e.a = "end" THEN ~e.aborted /\ e.leaked = 0                             \* P2
  ELSE ~e.blocked /\ e.panic = "" /\ ("busy" \in DOMAIN e => ~e.busy)   \* P3 (+ P2: no goroutine of the chain is
                                                                                  \* still inside the RTCP transport when Close returns)

Step(e) ==
  /\ ub' = IF e.a \in {"unbindl", "unbindm"} /\ ~e.skipped THEN [s \in DOMAIN ub \cup {e.s} |-> IF s = e.s THEN Zero ELSE ub[s]]
           ELSE IF e.a \in {"bindl", "bindm"} THEN [s \in DOMAIN ub \ {e.s} |-> ub[s]]
           ELSE Bump(e)
  /\ nclose' = nclose + (IF e.a = "close" THEN 1 ELSE 0)
  /\ nbindw' = nbindw + (IF e.a = "bindw" THEN 1 ELSE 0)

\* ---- deviation predicates (tags of KNOWN_FINDINGS.jsonl) --------------------------------------------
NewDevs(e) ==
  AsFoundUsed(e)
  \cup (IF e.a = "bindm" /\ Has("pli") /\ e.blocked /\ nbindw = 0 /\ nclose = 0 THEN {"C11.ForcePLIBlocksWithoutLoop"} ELSE {})

Next ==
  /\ l <= Len(Trace)
  /\ LET e == Trace[l] IN
     IF e.a = "reset" THEN
        /\ members' = e.members /\ ub' = <<>> /\ nclose' = 0 /\ nbindw' = 0 /\ devs' = {} /\ taint' = "" /\ l' = l + 1
     \* (a trace abandoned because BindRemoteStream blocked without a loop is still held to one thing: on the code as it is
     \* Close releases the blocked call and returns - a Close that blocks as well is a new violation)
     ELSE IF taint = "C11.ForcePLIBlocksWithoutLoop" /\ e.a = "close" /\ e.blocked THEN
        /\ PrintT(<<"MISMATCH", l, "event", e.a, "members", members, "ub", ub>>)
        /\ taint' = "?" /\ l' = l + 1 /\ UNCHANGED <<members, ub, nclose, nbindw, devs>>
     ELSE IF taint # "" THEN l' = l + 1 /\ UNCHANGED <<members, ub, nclose, nbindw, devs, taint>>
     ELSE IF Accept(e) THEN
        /\ Step(e) /\ devs' = devs \cup NewDevs(e) /\ l' = l + 1 /\ UNCHANGED <<members, taint>>
        /\ \A t \in AsFoundUsed(e) \ devs : PrintT(<<"KNOWNDEV", l, t>>)           \* announced once per trace
     ELSE LET k == (devs \cup NewDevs(e)) \cap Known \cap {"C11.ForcePLIBlocksWithoutLoop"} IN
        IF k # {} THEN /\ PrintT(<<"KNOWNDEV", l, CHOOSE t \in k : TRUE>>)
                       /\ taint' = (CHOOSE t \in k : TRUE) /\ l' = l + 1
                       /\ UNCHANGED <<members, ub, nclose, nbindw, devs>>
        ELSE /\ PrintT(<<"MISMATCH", l, "event", e.a, "members", members, "ub", ub>>)
             /\ taint' = "?" /\ l' = l + 1 /\ UNCHANGED <<members, ub, nclose, nbindw, devs>>

HW == TLCSet(1, IF TLCGet(1) < l THEN l ELSE TLCGet(1))
ASSUME TLCSet(1, 0)
Post == PrintT(<<"HW", TLCGet(1), Len(Trace)>>) /\ TLCGet(1) = Len(Trace) + 1
=============================================================================

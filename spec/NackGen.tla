----------------------------- MODULE NackGen -----------------------------
(* Property-level specification of the NACK generator (C03).
   pkg/nack/receive_log.go + the tick body of pkg/nack/generator_interceptor.go.

   State is kept over *true* (unbounded) sequence numbers; the wire carries
   residues modulo M.  One operator per linearization point:
     Fresh / Unbound         BindRemoteStream / UnbindRemoteStream
     RecvStep                receiveLog.add (a successfully read packet)
     Missing                 receiveLog.missingSeqNumbers
     Req / TickStep          one iteration of the ticker loop for one stream *)
EXTENDS Integers, FiniteSets, Sequences, TLC

CONSTANT M                       \* sequence-number modulus (65536 in the code)
H == M \div 2

Max(a, b) == IF a > b THEN a ELSE b
Res(t)    == t % M

\* configuration: [size |-> window, skip |-> skipLastN, max |-> maxNacksPerPacket (0 = unlimited)]

Fresh   == [bound |-> TRUE,  started |-> FALSE, first |-> 0, hi |-> 0, recv |-> {}, cnt |-> <<>>]
Unbound == [bound |-> FALSE, started |-> FALSE, first |-> 0, hi |-> 0, recv |-> {}, cnt |-> <<>>]

\* A wire number w denotes the true number closest to hi (half-range rule, tie = late).
RecvStep(c, x, w) ==
  IF ~x.bound THEN x
  ELSE IF ~x.started
       THEN [x EXCEPT !.started = TRUE, !.first = w + M, !.hi = w + M, !.recv = {w + M}]
  ELSE LET d == (w - x.hi) % M IN
       IF d = 0 THEN x
       ELSE IF d < H
            THEN LET nh == x.hi + d IN
                 [x EXCEPT !.hi = nh, !.recv = {r \in x.recv : r > nh - c.size} \cup {nh}]
       ELSE LET t == x.hi - (M - d) IN                      \* late (or a jump of >= M/2)
            IF t > x.hi - c.size THEN [x EXCEPT !.recv = @ \cup {t}]
            ELSE x                                          \* outside the window: no effect

Lower(c, x)   == Max(x.first, x.hi - c.size)
Missing(c, x) == IF ~x.bound \/ ~x.started THEN {}
                 ELSE {t \in (Lower(c, x) + 1) .. (x.hi - c.skip) : t \notin x.recv}
\* Per-packet NACK counters, kept saturated at c.max (only "count < max" is observable): x.cnt is a sequence of
\* sets, x.cnt[k] = the missing numbers that have been counted at least k times (k = 1 .. c.max).
\* (A function number -> count made trace validation quadratic for windows of 2^15 numbers.)
Level(x, k)   == IF k >= 1 /\ k <= Len(x.cnt) THEN x.cnt[k] ELSE {}
Req(c, x)     == IF c.max = 0 THEN Missing(c, x) ELSE Missing(c, x) \ Level(x, c.max)
TickStep(c, x) ==
  IF ~x.bound \/ ~x.started \/ c.max = 0 THEN x
  ELSE LET m == Missing(c, x) IN
       [x EXCEPT !.cnt = [k \in 1 .. c.max |-> IF k = 1 THEN m ELSE m \cap Level(x, k - 1)]]

\* What one tick writes: for every stream with a non-empty request set exactly one NACK whose
\* expanded pairs are the residues of Req.
TickOut(c, st) == [s \in {s \in DOMAIN st : Req(c, st[s]) # {}} |-> {Res(t) : t \in Req(c, st[s])}]

\* ---- deviation predicates (names used as tags in KNOWN_FINDINGS.jsonl) ----
\* a packet at least `size` behind the highest (or a jump >= M/2)
LateBeyondWindow(c, x, w) ==
  x.bound /\ x.started /\ LET d == (w - x.hi) % M IN d >= H /\ x.hi - (M - d) <= x.hi - c.size
\* last number of the gap-free received prefix above the lower window edge
LC(c, x) == LET lo == Lower(c, x)
                gaps == {t \in (lo + 1) .. x.hi : t \notin x.recv} IN
            IF gaps = {} THEN x.hi ELSE (CHOOSE g \in gaps : \A g2 \in gaps : g <= g2) - 1
FullSpan(c, x) == x.bound /\ x.started /\ (x.hi - c.skip) - LC(c, x) >= H
\* the code keys its per-packet NACK counters by 16-bit number and prunes them only at ticks: when the window moves by a whole
\* cycle between two ticks, a number that is missing now inherits the count of the number 2^16 before it
CountAlias(c, x) == /\ c.max > 0 /\ x.bound /\ x.started
                    /\ LET counted == {Res(u) : u \in Level(x, 1)} IN
                       \E t \in Missing(c, x) \ Level(x, 1) : Res(t) \in counted
=============================================================================

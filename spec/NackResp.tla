------------------------------ MODULE NackResp ------------------------------
(* Protocol-level model of the NACK responder (C04, parts of C10/C13):
   pkg/nack/responder_interceptor.go + internal/rtpbuffer (ring, reference counts, sync.Pool recycling).

   One action per critical section / linearization point of the code:
     Bind / Unbind / Close           BindLocalStream, UnbindLocalStream (delete + Clear), Close
     Write(s, d)                     NewPacket (takes a pooled cell, copies) + RTPBuffer.Add under rtpBufferMutex
     NackRead(s, nums)               BindRTCPReader closure: `go resendPackets(nack)`
     JobStart(j)                     streams map lookup under streamsMu
     JobGet(j)                       RTPBuffer.Get under rtpBufferMutex (Retain)
     JobEmit(j)                      rtpWriter.Write outside the lock, then Release
   The ghost variable `abs` runs the property-level RtpBuffer machine next to the ring so that TLC checks the
   ring + refcount + pool design against the property for every interleaving. *)
EXTENDS RtpBuffer

CONSTANTS Size,          \* ring size (power of two in the code)
          Streams,       \* SSRCs
          Cells,         \* pooled payload buffers
          MaxWrites, MaxJobs, MaxBinds,
          WDeltas,       \* sequence-number deltas a Write may use, relative to the highest sent
          NDeltas,       \* NACKed numbers, as distances behind the highest sent
          EarlyRelease   \* negative control: Get does not retain (the packet is only borrowed)

VARIABLES cur,    \* s -> current binding generation (0 = unbound)
          gen,    \* s -> number of binds so far
          ring,   \* <<s, g>> -> [started, hi, slot]   slot: 0..Size-1 -> packet ref (0 = empty); hi is a wire number
          abs,    \* <<s, g>> -> property-level buffer (ghost)
          pkt,    \* sequence of packets: [id, seq, count, cell]
          cell,   \* cell -> id whose bytes it currently holds (0 = none)
          free,   \* cells in the pool
          jobs,   \* sequence of resend goroutines: [s, todo, stream, pc, holding, allowed]
          out,    \* emitted retransmissions: [j, id, content, allowed]
          bad     \* ghost: the ring answered a Get differently from the property-level buffer
vars == <<cur, gen, ring, abs, pkt, cell, free, jobs, out, bad>>

NoStream == <<0, 0>>
FreshRing == [started |-> FALSE, hi |-> 0, slot |-> [i \in 0 .. Size - 1 |-> 0]]

Init == /\ cur = [s \in Streams |-> 0] /\ gen = [s \in Streams |-> 0]
        /\ ring = <<>> /\ abs = <<>> /\ pkt = <<>>
        /\ cell = [c \in Cells |-> 0] /\ free = Cells
        /\ jobs = <<>> /\ out = <<>> /\ bad = FALSE

\* ---- reference counting and the pool -------------------------------------------------------------
\* release a set of refs (each once) in packet table p / pool f; returns <<p', f'>>
ReleaseAll(p, f, refs) ==
  LET p2 == [r \in DOMAIN p |-> IF r \in refs THEN [p[r] EXCEPT !.count = @ - 1] ELSE p[r]]
      freed == {p2[r].cell : r \in {q \in refs : p2[q].count = 0}}
  IN <<p2, f \cup freed>>

\* ---- ring operations (as the code does them, with the repaired window test in Add) ---------------
RingAdd(rg, w, r) ==     \* returns <<ring', refs to release>>
  IF ~rg.started THEN <<[started |-> TRUE, hi |-> w, slot |-> [rg.slot EXCEPT ![w % Size] = r]], {}>>
  ELSE LET d == (w - rg.hi) % M IN
       IF d = 0 THEN <<rg, {}>>                       \* the new packet is dropped (not stored, not released)
       ELSE IF d < H
            THEN LET idxs == IF d >= Size THEN 0 .. Size - 1
                                 ELSE {((rg.hi + k) % M) % Size : k \in 1 .. d}
                     rel == {rg.slot[i] : i \in idxs} \ {0}
                 IN <<[started |-> TRUE, hi |-> w,
                       slot |-> [i \in 0 .. Size - 1 |-> IF i = w % Size THEN r
                                                          ELSE IF i \in idxs THEN 0 ELSE rg.slot[i]]], rel>>
       ELSE IF M - d >= Size THEN <<rg, {r}>>           \* late and outside the window: released at once
       ELSE <<[rg EXCEPT !.slot[w % Size] = r], {rg.slot[w % Size]} \ {0}>>

RingGet(rg, p, n) ==     \* ref or 0
  LET d == (rg.hi - n) % M IN
  IF d >= H \/ d >= Size THEN 0
  ELSE LET r == rg.slot[n % Size] IN
       IF r = 0 THEN 0 ELSE IF p[r].seq # n THEN 0 ELSE IF p[r].count = 0 THEN 0 ELSE r

RingRefs(rg) == {rg.slot[i] : i \in 0 .. Size - 1} \ {0}

\* ---- actions ---------------------------------------------------------------------------------------
Bind(s) ==
  /\ cur[s] = 0 /\ gen[s] < MaxBinds
  /\ gen' = [gen EXCEPT ![s] = @ + 1]
  /\ cur' = [cur EXCEPT ![s] = gen[s] + 1]
  /\ ring' = (<<s, gen[s] + 1>> :> FreshRing) @@ ring
  /\ abs' = (<<s, gen[s] + 1>> :> EmptyBuf) @@ abs
  /\ UNCHANGED <<pkt, cell, free, jobs, out, bad>>

ClearStream(k, p, f) == ReleaseAll(p, f, RingRefs(ring[k]))

Unbind(s) ==
  /\ cur[s] # 0
  /\ LET k == <<s, cur[s]>>  pf == ClearStream(k, pkt, free) IN
     /\ pkt' = pf[1] /\ free' = pf[2]
     /\ ring' = [ring EXCEPT ![k] = FreshRing]
     /\ abs' = [abs EXCEPT ![k] = EmptyBuf]
  /\ cur' = [cur EXCEPT ![s] = 0]
  /\ UNCHANGED <<gen, cell, jobs, out, bad>>

Close ==
  /\ \E s \in Streams : cur[s] # 0
  /\ LET ks == {<<s, cur[s]>> : s \in {t \in Streams : cur[t] # 0}}
         refs == UNION {RingRefs(ring[k]) : k \in ks}
         pf == ReleaseAll(pkt, free, refs) IN
     /\ pkt' = pf[1] /\ free' = pf[2]
     /\ ring' = [k \in DOMAIN ring |-> IF k \in ks THEN FreshRing ELSE ring[k]]
     /\ abs' = [k \in DOMAIN abs |-> IF k \in ks THEN EmptyBuf ELSE abs[k]]
  /\ cur' = [s \in Streams |-> 0]
  /\ UNCHANGED <<gen, cell, jobs, out, bad>>

\* wire number of a write / nack relative to the highest number sent on the current binding of s
HiOf(s) == IF cur[s] # 0 /\ ring[<<s, cur[s]>>].started THEN ring[<<s, cur[s]>>].hi ELSE 0

WriteNum(s, w) ==
  /\ cur[s] # 0 /\ Len(pkt) < MaxWrites
  /\ \E c \in free :                                  \* sync.Pool hands out any free buffer
       LET k == <<s, cur[s]>>
           id == Len(pkt) + 1
           r == Len(pkt) + 1
           p1 == Append(pkt, [id |-> id, seq |-> w, count |-> 1, cell |-> c])
           ra == RingAdd(ring[k], w, r)
           pf == ReleaseAll(p1, free \ {c}, ra[2]) IN
       /\ cell' = [cell EXCEPT ![c] = id]
       /\ ring' = [ring EXCEPT ![k] = ra[1]]
       /\ pkt' = pf[1] /\ free' = pf[2]
       /\ abs' = [abs EXCEPT ![k] = AddStep(Size, abs[k], w, id)]
  /\ UNCHANGED <<cur, gen, jobs, out, bad>>
Write(s, d) == WriteNum(s, (HiOf(s) + d) % M)

NackRead(s, nums) ==
  /\ Len(jobs) < MaxJobs /\ nums # <<>>
  /\ jobs' = Append(jobs, [s |-> s, n |-> Len(nums), todo |-> nums, stream |-> NoStream, pc |-> "start",
                           holding |-> 0, allowed |-> {}])
  /\ UNCHANGED <<cur, gen, ring, abs, pkt, cell, free, out, bad>>

Advance(jb) == IF jb.todo = <<>> THEN [jb EXCEPT !.pc = "done"] ELSE [jb EXCEPT !.pc = "get"]

JobStart(j) ==
  /\ jobs[j].pc = "start"
  /\ LET s == jobs[j].s IN
     jobs' = [jobs EXCEPT ![j] = IF cur[s] = 0 THEN [@ EXCEPT !.pc = "done"]
                                 ELSE Advance([@ EXCEPT !.stream = <<s, cur[s]>>])]
  /\ UNCHANGED <<cur, gen, ring, abs, pkt, cell, free, out, bad>>

JobGet(j) ==
  /\ jobs[j].pc = "get"
  /\ LET k == jobs[j].stream
         n == Head(jobs[j].todo)
         r == RingGet(ring[k], pkt, n)
         allowed == GetOut(Size, abs[k], n) IN
     /\ bad' = (bad \/ ((r = 0) # (allowed = {})) \/ (r # 0 /\ pkt[r].id \notin allowed))
     /\ IF r = 0
        THEN /\ jobs' = [jobs EXCEPT ![j] = Advance([@ EXCEPT !.todo = Tail(@)])]
             /\ UNCHANGED pkt
        ELSE /\ jobs' = [jobs EXCEPT ![j] = [@ EXCEPT !.todo = Tail(@), !.pc = "emit", !.holding = r, !.allowed = allowed]]
             /\ pkt' = IF EarlyRelease THEN pkt ELSE [pkt EXCEPT ![r].count = @ + 1]
  /\ UNCHANGED <<cur, gen, ring, abs, cell, free, out>>

JobEmit(j) ==
  /\ jobs[j].pc = "emit"
  /\ LET r == jobs[j].holding IN
     /\ out' = Append(out, [j |-> j, id |-> pkt[r].id, content |-> cell[pkt[r].cell], allowed |-> jobs[j].allowed])
     /\ LET pf == IF EarlyRelease THEN <<pkt, free>> ELSE ReleaseAll(pkt, free, {r}) IN
        pkt' = pf[1] /\ free' = pf[2]
     /\ jobs' = [jobs EXCEPT ![j] = Advance([@ EXCEPT !.holding = 0])]
  /\ UNCHANGED <<cur, gen, ring, abs, cell, bad>>

NackNums(s) == {<<(HiOf(s) - d) % M>> : d \in NDeltas}
               \cup {<<(HiOf(s) - d) % M, (HiOf(s) - e) % M>> : d, e \in NDeltas}

Next == \/ \E s \in Streams : Bind(s) \/ Unbind(s)
        \/ Close
        \/ \E s \in Streams, d \in WDeltas : Write(s, d)
        \/ \E s \in Streams : \E nums \in NackNums(s) : NackRead(s, nums)
        \/ \E j \in DOMAIN jobs : JobStart(j) \/ JobGet(j) \/ JobEmit(j)
Spec == Init /\ [][Next]_vars

\* ---- properties --------------------------------------------------------------------------------------
\* every retransmission carries the bytes that were written with the requested number, although buffers are recycled
ContentOK == \A i \in DOMAIN out : out[i].content = out[i].id /\ out[i].id \in out[i].allowed
\* the ring answers every Get exactly as the property-level buffer does
GetOK == ~bad
\* a live packet's buffer is never in the pool and never shared
PoolOK == /\ \A r \in DOMAIN pkt : pkt[r].count > 0 => pkt[r].cell \notin free
          /\ \A r, q \in DOMAIN pkt : (r # q /\ pkt[r].count > 0 /\ pkt[q].count > 0) => pkt[r].cell # pkt[q].cell
          /\ \A r \in DOMAIN pkt : pkt[r].count >= 0
\* per request at most one emission
AtMostOnce == \A j \in DOMAIN jobs :
                Cardinality({i \in DOMAIN out : out[i].j = j}) + Len(jobs[j].todo)
                   + (IF jobs[j].pc = "emit" THEN 1 ELSE 0) <= jobs[j].n
=============================================================================

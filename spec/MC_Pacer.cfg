SPECIFICATION Spec
CONSTANTS
  BurstFloor = 3
  Kind = "pacing"
  Producers <- P2
  NP = 2
  Rates <- R12
  Ival = 2
  MaxRC = 1
  Clocked = TRUE
  MaxT = 8
  AcceptAll = FALSE
  CopyOnAccept = TRUE
  Registered <- S12
INVARIANTS TypeOK Fifo ContentOK WriterOK RealTimeOrder Envelope
CHECK_DEADLOCK FALSE

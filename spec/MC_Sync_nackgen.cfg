SPECIFICATION Spec
CONSTANTS
  Progs <- NackGen
INVARIANTS NoRace NoLostUpdate
PROPERTIES Termination
CHECK_DEADLOCK FALSE

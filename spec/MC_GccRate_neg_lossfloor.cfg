SPECIFICATION Spec
CONSTANTS
  LMin = 100000
  LMax = 100000000
  IncT = 200000
  DecT = 200000
  MaxSteps = 2
  Mach = "loss"
  NegRtt = FALSE
INVARIANTS LOutputInClamp
CHECK_DEADLOCK FALSE

INIT Init
NEXT Next
CONSTANTS
  M = 65536
  Ks = {1, 2, 5, 14, 15, 16, 45, 46, 47, 108, 109, 110}
  Bases = {0, 65530}
  SPs = {0, 1, 2, 4}
  LPs = {0, 1, 2, 3}
  NumShapes = 9
  NumLens = 4
  L = 1
CONSTRAINT Leaf
CHECK_DEADLOCK FALSE

--------------------------- MODULE Trace_Stats ---------------------------
(* (T) validates ndjson traces recorded from pkg/stats (recorder driven directly, or the Interceptor
   driven through Bind* with SetNowFunc and read through the Getter) against Stats.  Events:
     {"a":"reset","level":..}                                 new instance
     {"a":"bind","s":ssrc,"rate":clockRate,"d":"l"|"r"}       BindLocalStream / BindRemoteStream (recorder active)
     {"a":"irtp","s":via,"p":ssrc,"w":n16,"hl":..,"pl":..,"now":ms}   packet read on the stream bound for `via`
     {"a":"ortp","s":via,"p":ssrc,"w":n16,"hl":..,"pl":..,"now":ms}   packet written on the stream bound for `via`
     {"a":"ircp","now":ms,"pk":[packet..]}  {"a":"orcp","now":ms,"pk":[packet..]}   RTCP compound read / written
     {"a":"get","s":ssrc,"nil":bool,"out":{..}}               Getter.Get(ssrc) returned this *)
EXTENDS Stats, Json, IOUtils
CONSTANT Tol                     \* microseconds (DESIGN.md C19)
Trace == ndJsonDeserialize(IOEnv.VERIF_TRACE)
KnownSeq == ndJsonDeserialize(IOEnv.VERIF_KNOWN)
Known == {KnownSeq[i].tag : i \in DOMAIN KnownSeq}

VARIABLES l, st, devs, taint
vars == <<l, st, devs, taint>>

Init == l = 1 /\ st = <<>> /\ devs = {} /\ taint = ""

Accept(e) ==
  IF e.a = "get"
  THEN IF e.s \in DOMAIN st THEN e.nil = FALSE /\ Match(st[e.s], e.out, Tol) ELSE e.nil = TRUE
  ELSE TRUE
Expected(e) == IF e.a = "get" /\ e.s \in DOMAIN st THEN Out(st[e.s]) ELSE "nil"

StepState(e) == SysStep(st, e)

NewDevs(e) ==
  IF e.a = "ircp" THEN
       (IF \E s \in DOMAIN st : XrNotLast(st[s], e.pk) THEN {"C19.XrNotLast"} ELSE {})
  \cup (IF \E s \in DOMAIN st : FirMediaOther(st[s], e.pk) THEN {"C19.FirMediaOther"} ELSE {})
  \cup (IF \E s \in DOMAIN st : DlrrDupRrtr(st[s], e.pk) THEN {"C19.DlrrDupRrtr"} ELSE {})
  ELSE {}

Next ==
  /\ l <= Len(Trace)
  /\ LET e == Trace[l] IN
     IF e.a = "reset" THEN
        /\ st' = <<>> /\ devs' = {} /\ taint' = "" /\ l' = l + 1
     ELSE IF taint # "" THEN l' = l + 1 /\ UNCHANGED <<st, devs, taint>>
     ELSE IF Accept(e) THEN
        /\ st' = StepState(e) /\ devs' = devs \cup NewDevs(e) /\ l' = l + 1 /\ UNCHANGED taint
     ELSE LET k == (devs \cup NewDevs(e)) \cap Known IN
        IF k # {} THEN /\ PrintT(<<"KNOWNDEV", l, CHOOSE t \in k : TRUE>>)
                       /\ taint' = (CHOOSE t \in k : TRUE) /\ l' = l + 1 /\ UNCHANGED <<st, devs>>
        ELSE PrintT(<<"MISMATCH", l, "expected", Expected(e), "logged", e, "devs", devs \cup NewDevs(e)>>) /\ FALSE

HW == TLCSet(1, IF TLCGet(1) < l THEN l ELSE TLCGet(1))
ASSUME TLCSet(1, 0)
Post == PrintT(<<"HW", TLCGet(1), Len(Trace)>>) /\ TLCGet(1) = Len(Trace) + 1
=============================================================================

INIT Init
NEXT Next
CONSTANTS
  Kinds <- AllKinds
  MaxLen = 2
  L = 0
  Mode = "all"
CONSTRAINT Leaf
CHECK_DEADLOCK FALSE

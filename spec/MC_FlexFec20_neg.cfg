INIT Init
NEXT Next
CONSTANTS
  M = 65536
  MaxK = 3
  MaxN = 2
  MaxLen = 1
  Shapes = {0, 1}
  Bases = {0}
  MaskNs = {0}
  Mutant = "skipts"
INVARIANTS TypeOK RecoveryOK20
CHECK_DEADLOCK FALSE

-------------------------- MODULE Trace_PacketDump --------------------------
(* (T) validates ndjson traces recorded from pkg/packetdump (Sender/ReceiverInterceptor through the Bind* interface with
   recording filter, formatter and stream callbacks) against PacketDump.  Events:
     {"a":"reset","dir":"s"|"r","rf":..,"cf":..,"pf":..,"rfmt":..,"cfmt":..}      new interceptor
     {"a":"calls","calls":[{"a":"rtp"|"rtcp","p":[pkt..]}..],   calls made back to back, then a completion barrier
         "fwd":[[pkt..]..]     per call: what the next writer was handed / what Read returned to the caller
         "same":[bool..]       per call: the very same objects in order (sender RTCP) / the very same bytes (receiver)
         "post":[[pkt..]..]    per RTCP call: the caller's slice / buffer after everything has been dumped
         "d":[{"k","p"}..]     formatter callbacks invoked, in order, with the packets as the formatter saw them
         "wr":[{"k","st","p"}..]}  writes to the RTP / RTCP stream, in order (decoded formatter results)
     {"a":"close","d":[..],"wr":[..]}   Close returned; anything observed since the last barrier
     {"a":"end","d":[..],"wr":[..]}     anything observed after Close had returned
     {"a":"ctorerr"}                    NewInterceptor returned an error (accepted only by the Strict probe configuration)
     {"a":"blocked"}                    never accepted *)
EXTENDS PacketDump, Json, IOUtils
CONSTANT Strict      \* TRUE only for the expectation probes: demand the documented ErrBothBinaryAndDeprecatedFormat
Trace == ndJsonDeserialize(IOEnv.VERIF_TRACE)
KnownSeq == ndJsonDeserialize(IOEnv.VERIF_KNOWN)
Known == {KnownSeq[i].tag : i \in DOMAIN KnownSeq}

VARIABLES l, cfg, x, devs, taint
vars == <<l, cfg, x, devs, taint>>

NoCfg == [dir |-> "s", rf |-> "all", cf |-> "all", pf |-> "all", rfmt |-> "text", cfmt |-> "text"]
Init == l = 1 /\ cfg = NoCfg /\ x = Open /\ devs = {} /\ taint = ""

Expected(e) == BurstDumps(cfg, x, e.calls)
Accept(e) ==
  IF e.a = "ctorerr" THEN Strict /\ BothFormattersAccepted(cfg)
  ELSE IF e.a = "calls" THEN
     /\ ~(Strict /\ BothFormattersAccepted(cfg))
     /\ Len(e.fwd) = Len(e.calls) /\ Len(e.same) = Len(e.calls) /\ Len(e.post) = Len(e.calls)
     /\ \A i \in DOMAIN e.calls :
           /\ e.fwd[i] = Forward(e.calls[i]) /\ e.same[i]                      \* handed on unchanged, before and after Close
           /\ e.calls[i].a = "rtcp" => e.post[i] = Forward(e.calls[i])         \* the caller's slice keeps length, order, elements
     /\ e.wr = Expected(e)                                                     \* exact dump sequence, right stream
     /\ e.d = Callbacks(Expected(e))                                           \* formatter callbacks, content as at call time
  ELSE IF e.a = "close" THEN e.d = <<>> /\ e.wr = <<>>
  ELSE IF e.a = "end" THEN x.closed /\ e.d = <<>> /\ e.wr = <<>>
  ELSE FALSE

StepState(e) == IF e.a = "close" THEN CloseStep(x) ELSE x
NewDevs(e) == {}

Next ==
  /\ l <= Len(Trace)
  /\ LET e == Trace[l] IN
     IF e.a = "reset" THEN
        /\ cfg' = [dir |-> e.dir, rf |-> e.rf, cf |-> e.cf, pf |-> e.pf, rfmt |-> e.rfmt, cfmt |-> e.cfmt]
        /\ x' = Open /\ devs' = {} /\ taint' = "" /\ l' = l + 1
     ELSE IF taint # "" THEN l' = l + 1 /\ UNCHANGED <<cfg, x, devs, taint>>
     ELSE IF Accept(e) THEN
        /\ x' = StepState(e) /\ devs' = devs \cup NewDevs(e) /\ l' = l + 1 /\ UNCHANGED <<cfg, taint>>
     ELSE LET k == (devs \cup NewDevs(e)) \cap Known IN
        IF k # {} THEN /\ PrintT(<<"KNOWNDEV", l, CHOOSE t \in k : TRUE>>)
                       /\ taint' = (CHOOSE t \in k : TRUE) /\ l' = l + 1 /\ UNCHANGED <<cfg, x, devs>>
        ELSE /\ PrintT(<<"MISMATCH", l, "cfg", cfg, "closed", x.closed,
                         "expected", IF e.a = "calls" THEN Expected(e) ELSE <<>>, "event", e>>)
             /\ taint' = "mismatch" /\ l' = l + 1 /\ UNCHANGED <<cfg, x, devs>>      \* survey mode: go on with the next trace

HW == TLCSet(1, IF TLCGet(1) < l THEN l ELSE TLCGet(1))
ASSUME TLCSet(1, 0)
Post == PrintT(<<"HW", TLCGet(1), Len(Trace)>>) /\ TLCGet(1) = Len(Trace) + 1
=============================================================================
